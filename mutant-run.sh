#!/bin/bash
# ./mutant-run.sh <tag> <patch.diff> <ID> [quick|thorough]
# Applies a patch to a scratch worktree of /repo (never to /repo itself), builds the
# check for <ID> against it in an isolated copy of /verif/mc, runs it, prints the
# verdict and removes everything. Used to show that checks detect property-breaking
# changes. Exit code = the check's exit code (1 = detected).
set -u
TAG="$1"; PATCH="$(realpath "$2")"; ID="$3"; TIER="${4:-quick}"
W=/tmp/mut-$TAG
rm -rf "$W"; git -C /repo worktree prune
mkdir -p "$W/vr"
git -C /repo worktree add -q --detach "$W/repo" HEAD || exit 2
cleanup() { git -C /repo worktree remove --force "$W/repo" 2>/dev/null; rm -rf "$W"; git -C /repo worktree prune; }
trap cleanup EXIT
if ! git -C "$W/repo" apply "$PATCH"; then echo "PATCH DOES NOT APPLY"; exit 2; fi
rsync -a --exclude 'target*' /verif/mc/ "$W/mc/"
sed -i "s#path = \"/repo\"#path = \"$W/repo\"#" "$W/mc/gv/Cargo.toml"
sed -i "s#/verif/mc/target#$W/target#" "$W/mc/.cargo/config.toml"
cp /verif/check "$W/check"; cp /verif/known_findings.txt "$W/"; cp -r /verif/known_findings.d "$W/" 2>/dev/null
# the check script derives ROOT from its own location
( cd "$W" && CARGO_TARGET_DIR="$W/mc/target" ./check "$ID" "$TIER" ) 2>&1 | grep -v "^  " | tail -${MUT_TAIL:-8}
RC=${PIPESTATUS[0]}
echo "mutant-run: tag=$TAG id=$ID tier=$TIER exit=$RC"
exit $RC
