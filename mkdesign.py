#!/usr/bin/env python3
"""Regenerates DESIGN.md sections 7 (findings) and 8 (detection) from known_findings*, seeded/*/meta.json and mutants/*/RESULTS.md."""
import subprocess, json, glob, os, re
D='/verif/DESIGN.md'
s=open(D).read()
i7=s.index('## 7. Findings'); i9=s.index('## 9. Order of work')
find=subprocess.run(['/verif/mkfindings.py'],capture_output=True,text=True).stdout
sec7='''## 7. Findings (genuine defects of gimli found by the checks)

Every disagreement on the unchanged tree was triaged (agent-notes/*.md record the
reasoning, including the disagreements that turned out to be harness errors or
latitude the property leaves). What remained are genuine defects. Those with a repair
that is small and safe were repaired in /repo by one minimal unguarded `fix:` commit each
(the 495-test suite passes after every one; the check passes on the repaired tree and
reports the violation again if it returns — most repairs are also kept as mutants under
mutants/). The others are recorded in known_findings.txt / known_findings.d/*.txt and
printed as `KNOWN-FINDING:` lines; they are identified by (entry, site, kind), so any
other violation of the same property is still reported.

Why the recorded ones were not repaired: `ArangeEntryIter` stop-after-error — the unit
tests `test_parse_entry_overflow_32/64` pin the current behaviour, so a repair needs an
edit of the suite; the writer's recursion on deeply nested DIEs needs an iterative
rewrite of `calculate_offsets`/`write`; the empty DWARF 5 file-entry format and the
tombstoned `end_sequence` need design decisions in the line reader; `op_advance`
overflow and `set_address` with a non-zero op_index have no error channel in
`generate_row`/`set_address`; `.debug_frame` CIE pointers and fixed-size `.eh_frame`
pointers through `RelocateReader` need a new relocation hook in the CFI parser; partial
and type units, mid-sequence `DW_LNE_set_address`, leaked line strings and references on
the unit root need changes to the converter's data model.

'''+find+'\n'
# section 8
rows=[]
for d in sorted(glob.glob('/verif/seeded/*/')):
    name=os.path.basename(d[:-1])
    try: m=json.load(open(d+'meta.json'))
    except Exception: continue
    c=m.get('confirmation',{})
    cq=c.get('checks_quick','')
    det='quick: detected' if 'exit=1' in cq else ('quick: MISSED' if 'exit=0' in cq else 'quick: machinery problem')
    if c.get('after_strengthening'): det+='; after strengthening the check: '+c['after_strengthening'].split(':')[0]
    if c.get('thorough'): det+='; thorough: '+c['thorough'].split(':')[0]
    suite=c.get('suite_with_change','')
    ok = c.get('patch_applies')=='yes' and ' passed' in suite and c.get('demo_with_change','').startswith('exit 101') and c.get('demo_without_change','').startswith('exit 0')
    rows.append((name, m.get('title','')[:120], 'yes' if ok else 'NO', det))
seed_tab='| seed | change (one line) | confirmed | registered check |\n|---|---|---|---|\n'+''.join('| %s | %s | %s | %s |\n'%tuple(str(x).replace('|','\\|').replace('\n',' ') for x in r) for r in rows)
n_det=sum(1 for r in rows if 'quick: detected' in r[3]); n_late=sum(1 for r in rows if 'quick: detected' not in r[3] and 'strengthening the check: detected' in r[3]); n_miss=sum(1 for r in rows if 'quick: detected' not in r[3] and 'strengthening the check: detected' not in r[3]); n_unconf=sum(1 for r in rows if r[2]=='NO')
mut=[]
for f in sorted(glob.glob('/verif/mutants/*/RESULTS.md')):
    pid=f.split('/')[-2]; n=len(glob.glob('/verif/mutants/%s/*.diff'%pid)); mut.append('%s (%d)'%(pid,n))
sec8='''## 8. Demonstrating detection

Two independent bodies of property-breaking changes exist; none is ever applied to /repo
(`mutant-run.sh` patches a scratch worktree and builds an isolated copy of `mc/` against it).

### 8.1 Independently seeded changes (`seeded/`)

For every property a fresh sub-agent was given only the property text and its own scratch
worktree of /repo (prompt: `seed_prompt.py`; nothing from /verif) and asked for three
changes that compile, pass the whole 495-test suite, break the property, and need
something specific to manifest, each with a demonstration test. `confirm-seed.sh` then
re-did everything independently (patch applies to /repo HEAD; the baseline nextest command
passes with it; the demonstration fails with it and passes without it) and ran the
registered quick check against it. Full records: `seeded/<ID>-<k>/{patch.diff,
seed_demo.rs, meta.json}`, table: `seeded/RESULTS.md`.

Totals: %d seeds recorded, %d detected by the quick tier as first built, %d missed at first (three of them as a machinery exit: a vacuity guard or a harness limit fired instead of a verdict)
and detected after the check was strengthened (the strengthening is a commit in /verif and
is described below), %d still missed, %d not confirmed (discarded as seeds, kept for the record).

%s
Checks strengthened because a seed was missed:

* **C10-1** (`EndianReader::offset_from` measured from the start of the shared buffer): the
  exploration only took offsets against the root reader, whose view starts at byte 0.
  Added: after every transition, `offset_from` and `lookup_offset_id` between every pair
  of live readers where one view contains the other (`observe_pairs` in c10.rs).
* **C02-1** (tree iterator's `DW_AT_sibling` fast path used the iterated depth): needs a
  pointer on an entry below the iterated level while the skipped entry has none. Added:
  every tree-API sequence of length <= 5/6 from the root over units with EVERY subset of
  entries carrying `DW_AT_sibling` (`check_root_sequences`).
%s
### 8.2 Self-test mutants written next to each harness (`mutants/<ID>/`)

Each harness author wrote >= 3 (usually 8-20) realistic patches per property (cursor /
offset logic, boundary comparisons, size-table entries, forgotten resets, reverts of the
repairs of section 7) and ran them through `mutant-run.sh`; results, including the
equivalent mutants that were discarded and the mutants that first survived and led to new
sub-spaces, are in `mutants/<ID>/RESULTS.md`: %s.

### 8.3 Miri

`gv-codec C10M quick --single` under `cargo +nightly miri run` (3-byte buffer, pool 2,
EndianRcSlice and EndianReader over the custom guarded buffer): %s

'''
miri='not completed on this machine within the session (interpreter too slow under load); not part of any registered command.'
try:
    l=open('/verif/agent-notes/miri-c10m.log').read()
    m=re.search(r'SINGLE C10M.*',l)
    if m: miri='completed in 157 min (nice 10, machine under load): `'+m.group(0)+'` with no undefined behaviour reported by Miri (`cargo +nightly miri run --bin gv-codec -- C10M quick --single`, MIRIFLAGS=-Zmiri-disable-isolation -Zmiri-ignore-leaks; manual run, log in agent-notes/miri-c10m.log; too slow to be part of a registered command).'
    elif 'Undefined Behavior' in l: miri='REPORTED UNDEFINED BEHAVIOUR: see agent-notes/miri-c10m.log'
except Exception: pass
extra=''
try: extra=open('/verif/seeded/STRENGTHENED.md').read()
except Exception: pass
sec8=sec8%(len(rows),n_det,n_late,n_miss,n_unconf,seed_tab,extra,', '.join(mut),miri)
s=s[:i7]+sec7+sec8+s[i9:]
open(D,'w').write(s)
print('DESIGN.md sections 7/8 regenerated:',len(rows),'seeds')
