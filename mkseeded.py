#!/usr/bin/env python3
"""Writes seeded/RESULTS.md from seeded/*/meta.json (confirmation + detection per seeded change)."""
import json, glob, os
rows=[]
for d in sorted(glob.glob('/verif/seeded/*/')):
    name=os.path.basename(d[:-1])
    try: m=json.load(open(d+'meta.json'))
    except Exception: rows.append((name,'(confirmation pending)','','','','')); continue
    c=m.get('confirmation',{})
    cq=c.get('checks_quick','')
    det='detected (exit 1)' if 'exit=1' in cq else ('MISSED (exit 0)' if 'exit=0' in cq else 'machinery problem')
    if c.get('thorough'): det += '; thorough: '+c['thorough']
    if c.get('after_strengthening'): det += '; after strengthening: '+c['after_strengthening']
    suite=c.get('suite_with_change','')
    ok = c.get('patch_applies')=='yes' and ' passed' in suite and 'failed' not in suite.replace('0 failed','') and c.get('demo_with_change','').startswith('exit 101') and c.get('demo_without_change','').startswith('exit 0')
    rows.append((name, m.get('title','')[:110], m.get('needs_to_manifest','')[:160], suite[:70], 'confirmed' if ok else 'NOT CONFIRMED: '+str({k:c.get(k) for k in ('patch_applies','demo_with_change','demo_without_change')})[:200], det))
with open('/verif/seeded/RESULTS.md','w') as f:
    f.write('# Independently seeded property-breaking changes\n\nEach change was written by a fresh sub-agent that saw only the property text and a scratch worktree of /repo (prompt: seed_prompt.py), then confirmed by `confirm-seed.sh` (patch applies to /repo HEAD, the 495-test suite passes with it, the demonstration fails with it and passes without it) and evaluated with `mutant-run.sh <ID> quick`.\n\n| seed | change | needs to manifest | suite with change | confirmation | registered check |\n|---|---|---|---|---|---|\n')
    for r in rows: f.write('| '+' | '.join(str(x).replace('|','\\|').replace('\n',' ') for x in r)+' |\n')
print(open('/verif/seeded/RESULTS.md').read()[-1500:])
