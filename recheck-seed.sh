#!/bin/bash
# ./recheck-seed.sh <ID>-<k> <check-ID> [tier] : re-run a registered check against a stored seeded change
# (after the check was strengthened) and record the outcome in seeded/<ID>-<k>/meta.json.
set -u
S="$1"; C="$2"; T="${3:-quick}"
D=/verif/seeded/$S
R=$(cd /verif && ./mutant-run.sh re-$S-$C "$D/patch.diff" "$C" "$T" 2>&1 | grep -v "^KNOWN-FINDING" | tail -3 | tr '\n' ' ' | cut -c1-500)
python3 - "$D/meta.json" "$C" "$T" "$R" <<'PY'
import json,sys
p,c,t,r=sys.argv[1:5]
m=json.load(open(p))
key='after_strengthening' if t=='quick' else 'thorough'
m.setdefault('confirmation',{})[key]=('detected (exit 1)' if 'exit=1' in r else 'MISSED' if 'exit=0' in r else 'machinery')+f' [{c} {t}]: '+r[-260:]
json.dump(m,open(p,'w'),indent=1)
print(m['confirmation'][key][:200])
PY
