#!/usr/bin/env python3
"""Prints the DESIGN.md section 7 tables from known_findings.txt and known_findings.d/*.txt."""
import glob, re, subprocess
files = ['/verif/known_findings.txt'] + sorted(glob.glob('/verif/known_findings.d/*.txt'))
fixed, finding = [], []
for f in files:
    for l in open(f):
        l = l.strip()
        if l.startswith('fixed:'):
            m = re.match(r'fixed:\s+property=(C\d+)\s+(\S+)\s+(.*)', l)
            if m: fixed.append((m.group(1), m.group(2), m.group(3)))
        elif l.startswith('finding:'):
            d = dict(re.findall(r'(property|entry|site|kind)=(\S+)', l))
            w = l.split('witness=', 1)[1] if 'witness=' in l else ''
            finding.append((d.get('property'), d.get('entry'), d.get('site'), d.get('kind'), w))
def esc(s): return s.replace('|', '\\|')
print("### 7.1 Repaired (one `fix:` commit each; the check passes on the repaired tree and reports the violation again if it returns)\n")
print("| property | commit | what failed |\n|---|---|---|")
for p, c, d in sorted(fixed): print(f"| {p} | {c} | {esc(d[:420])} |")
print("\n### 7.2 Recorded, not repaired (printed as KNOWN-FINDING, exit 0; any other entry/site/kind is still a VIOLATION)\n")
print("| property | entry | site | kind | witness (abridged) |\n|---|---|---|---|---|")
seen = set()
for p, e, s, k, w in sorted(finding):
    key = (p, s, k)
    if key in seen: continue   # same defect through several entry points
    seen.add(key)
    print(f"| {p} | {esc(e)} | {esc(s[:80])} | {esc(k[:80])} | {esc(w[:200])} |")
