#!/bin/bash
# ./confirm-seed.sh <ID> <k> [check-ID...]
# Independently confirms a seeded change produced by a mutant-seeding sub-agent
# (/tmp/seed-out/<ID>/<k>/{patch.diff,seed_demo.rs,meta.json}):
#   1. it applies to and compiles in a scratch worktree of /repo HEAD,
#   2. the repository's whole suite passes with it,
#   3. the demonstration fails with it and passes without it,
# then runs the registered check(s) against it (mutant-run.sh, quick tier) and stores
# everything under /verif/seeded/<ID>-<k>/ (meta.json gains a "confirmation" object).
set -u
ID="$1"; K="$2"; shift 2; CHECKS="${*:-$ID}"
SRC=/tmp/seed-out/$ID/$K
W=/tmp/conf-$ID-$K
OUT=/verif/seeded/$ID-$K
[ -f "$SRC/patch.diff" ] || { echo "no patch in $SRC"; exit 2; }
rm -rf "$W"; git -C /repo worktree prune
git -C /repo worktree add -q --detach "$W" HEAD || exit 2
export CARGO_TARGET_DIR=${CONF_TARGET:-/tmp/conf-target-$ID} CARGO_NET_OFFLINE=true
cleanup() { git -C /repo worktree remove --force "$W" 2>/dev/null; git -C /repo worktree prune; }
trap cleanup EXIT
mkdir -p "$OUT"; cp "$SRC/patch.diff" "$SRC/seed_demo.rs" "$OUT/"
cd "$W"
APPLIES=yes; git apply "$SRC/patch.diff" || APPLIES=no
SUITE="not run"; DEMO_WITH="not run"; DEMO_WITHOUT="not run"
if [ $APPLIES = yes ]; then
  if [ -f /w/lib/nextest.toml ]; then
    cargo nextest run --workspace --no-fail-fast --tool-config-file pb:/w/lib/nextest.toml --profile pb --test-threads 8 --offline > "$OUT/suite.log" 2>&1
  else
    cargo test --workspace --no-fail-fast --offline > "$OUT/suite.log" 2>&1
  fi
  SUITE=$(grep -E "Summary|test result" "$OUT/suite.log" | tail -1 | sed 's/^ *//')
  cp "$SRC/seed_demo.rs" tests/seed_demo.rs
  cargo test --offline --test seed_demo > "$OUT/demo_with.log" 2>&1; RC1=$?
  DEMO_WITH="exit $RC1: $(grep -E "panicked at|assertion|test result" "$OUT/demo_with.log" | head -3 | tr '\n' ' ' | cut -c1-400)"
  git checkout -q -- src
  cargo test --offline --test seed_demo > "$OUT/demo_without.log" 2>&1; RC2=$?
  DEMO_WITHOUT="exit $RC2: $(grep -E "test result" "$OUT/demo_without.log" | tail -1)"
fi
cd /verif
RESULTS=""
for C in $CHECKS; do
  R=$(./mutant-run.sh seed-$ID-$K-$C "$SRC/patch.diff" "$C" quick 2>&1 | grep -v "^KNOWN-FINDING" | tail -4 | tr '\n' ' ' | cut -c1-600)
  RESULTS="$RESULTS [$C] $R"
done
python3 - "$SRC/meta.json" "$OUT/meta.json" "$APPLIES" "$SUITE" "$DEMO_WITH" "$DEMO_WITHOUT" "$RESULTS" "$(git -C /repo rev-parse --short HEAD)" <<'PY'
import json,sys
src,out,applies,suite,dw,dwo,res,head=sys.argv[1:9]
try: m=json.load(open(src))
except Exception as e: m={"note":"agent meta.json unreadable: %s"%e}
m["confirmation"]={"repo_head":head,"patch_applies":applies,"suite_with_change":suite,"demo_with_change":dw,"demo_without_change":dwo,
  "what_i_ran":"git worktree of /repo HEAD; git apply patch.diff; the BASELINE.json nextest command; cargo test --test seed_demo with and without the src change; ./mutant-run.sh <tag> patch.diff <ID> quick",
  "checks_quick":res}
json.dump(m,open(out,"w"),indent=1)
print(json.dumps(m["confirmation"],indent=1))
PY
rm -f "$OUT/suite.log.tmp"
