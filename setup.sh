#!/bin/bash
# Builds the framework offline from files on disk (all check binaries, all flavours they are run in).
set -e
ROOT="$(cd "$(dirname "$0")" && pwd)"
export CARGO_NET_OFFLINE=true CARGO_TARGET_DIR="$ROOT/mc/target"
cd "$ROOT/mc"
cargo build --offline -q --profile chk --bins
for b in gv-codec gv-cfi gv-conv gv-robust; do
  [ -f "gv/src/bin/$b.rs" ] && cargo build --offline -q --release --bin $b
done
cargo build --offline -q --bin gv-robust
echo "setup ok"
