#!/bin/bash
# Builds the framework offline from files on disk (all check binaries, all flavours).
set -e
ROOT="$(cd "$(dirname "$0")" && pwd)"
export CARGO_NET_OFFLINE=true CARGO_TARGET_DIR="$ROOT/mc/target"
cd "$ROOT/mc"
cargo build --offline -q --profile chk --bins
cargo build --offline -q --release --bins
cargo build --offline -q --bin gv-robust 2>/dev/null || true
echo "setup ok"
