//! C02 (DIE forest reported exactly as encoded by every navigation API) and
//! C03 (every attribute form decodes to its DWARF value; skipping == reading).
mod die {
    pub mod c02;
    pub mod c03;
    pub mod dw;
    pub mod model;
    pub mod obs;
}

fn main() {
    mcx::engine::main(|prop, tier| match prop {
        "C02" => Some(die::c02::def(tier)),
        "C03" => Some(die::c03::def(tier)),
        _ => None,
    })
}
