//! C12 (read -> write conversion preserves meaning or fails) and C19
//! (filtered conversion is dependency-closed, complete and minimal).
#[path = "conv/dw.rs"]
mod dw;
#[path = "conv/gen.rs"]
mod gen;
#[path = "conv/dump.rs"]
mod dump;
#[path = "conv/run.rs"]
mod run;
#[path = "conv/c12.rs"]
mod c12;
#[path = "conv/c12x.rs"]
mod c12x;
#[path = "conv/c19.rs"]
mod c19;
#[path = "conv/split.rs"]
mod split;

fn main() {
    mcx::engine::main(|prop, tier| match prop {
        "C12" => Some(c12::def(tier)),
        "C19" => Some(c19::def(tier)),
        _ => None,
    })
}
