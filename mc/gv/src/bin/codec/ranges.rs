//! C10: the inherent `range`, `range_from` and `range_to` of every reader kind hand back a view of
//! exactly the requested bytes, and an out-of-bounds request panics as documented instead of
//! handing back a view that reaches past the window (the shared-buffer reader builds these views
//! with raw pointers).
use gimli::{EndianArcSlice, EndianRcSlice, EndianSlice, LittleEndian, Reader};
use mcx::{guard, Ctx, Sub};
use std::rc::Rc;
use std::sync::Arc;

const N: usize = 8;
const BUF: [u8; N] = [0x10, 0x21, 0x32, 0x43, 0x54, 0x65, 0x76, 0x87];

/// What a caller can see of a view: its bytes and where it starts in the buffer.
type View = (Vec<u8>, usize);

macro_rules! run_kind {
    ($ctx:expr, $name:expr, $root:expr, $off:expr) => {{
        let root = $root;
        // every window [ws, we) of the buffer as the reader the calls are made on
        for ws in 0..=N {
            for we in ws..=N {
                let win = root.range(ws..we);
                let wl = we - ws;
                for a in 0..=wl + 2 {
                    for b in 0..=wl + 2 {
                        for api in 0..3 {
                            if (api == 1 && b != 0) || (api == 2 && a != 0) {
                                continue;
                            }
                            let what = match api {
                                0 => format!("{} window {}..{} range({}..{})", $name, ws, we, a, b),
                                1 => format!("{} window {}..{} range_from({}..)", $name, ws, we, a),
                                _ => format!("{} window {}..{} range_to(..{})", $name, ws, we, b),
                            };
                            $ctx.eval(1);
                            let r = guard(|| {
                                let v = match api {
                                    0 => win.range(a..b),
                                    1 => win.range_from(a..),
                                    _ => win.range_to(..b),
                                };
                                (v.len(), $off(&v, &root))
                            });
                            let want: Option<View> = match api {
                                0 if a <= b && b <= wl => Some((BUF[ws + a..ws + b].to_vec(), ws + a)),
                                1 if a <= wl => Some((BUF[ws + a..we].to_vec(), ws + a)),
                                2 if b <= wl => Some((BUF[ws..ws + b].to_vec(), ws)),
                                _ => None,
                            };
                            // an inverted range inside the window (a > b, a <= len) is not out of
                            // bounds and not documented: a panic or an empty view at a are accepted
                            if api == 0 && a > b && a <= wl {
                                match r {
                                    Err(_) => $ctx.outcome("ranges:inverted-range-panics"),
                                    Ok((0, off)) if off == ws + a => $ctx.outcome("ranges:inverted-range-is-empty-view"),
                                    Ok((len, off)) => {
                                        $ctx.fail("inherent range API", "bounds", "inverted-range-returned-a-non-empty-view", format!("{}: view of {} bytes at {}", what, len, off));
                                        return;
                                    }
                                }
                                continue;
                            }
                            match (r, want) {
                                (Err(_), None) => $ctx.outcome("ranges:out-of-bounds-panics"),
                                (Err(p), Some(_)) => return $ctx.fail_panic("inherent range API", &p, what),
                                (Ok((len, _)), None) => {
                                    $ctx.fail("inherent range API", "bounds", "out-of-bounds-request-returned-a-view", format!("{}: returned a view of {} bytes instead of panicking (window has {} bytes)", what, len, wl));
                                    return;
                                }
                                (Ok((len, off)), Some((bytes, woff))) => {
                                    // read the bytes only when the length is right: a wrong length may reach past the buffer
                                    if len != bytes.len() || off != woff {
                                        $ctx.fail("inherent range API", "view", "wrong-window", format!("{}: view of {} bytes at {}, expected {} bytes at {}", what, len, off, bytes.len(), woff));
                                        return;
                                    }
                                    let got = match api {
                                        0 => win.range(a..b).to_slice().map(|c| c.to_vec()),
                                        1 => win.range_from(a..).to_slice().map(|c| c.to_vec()),
                                        _ => win.range_to(..b).to_slice().map(|c| c.to_vec()),
                                    };
                                    if got.as_ref().ok() != Some(&bytes) {
                                        $ctx.fail("inherent range API", "view", "wrong-bytes", format!("{}: bytes {:?}, expected {:?}", what, got, bytes));
                                        return;
                                    }
                                    $ctx.outcome("ranges:view-ok");
                                }
                            }
                        }
                    }
                }
            }
        }
        $ctx.nontriv(1);
    }};
}

pub fn subs() -> Vec<Sub> {
    vec![Sub::new(
        "inherent-range-api",
        3,
        "EndianSlice, EndianRcSlice and EndianArcSlice over an 8-byte buffer: on every window [s, e) of the buffer, range(a..b), range_from(a..) and range_to(..b) for every a, b in 0..=len+2: in-bounds requests give a view of exactly those bytes at that offset, out-of-bounds requests panic (documented) and never hand back a view; an inverted range inside the window may panic or give an empty view",
        move |ctx: &mut Ctx, i| match i {
            0 => {
                let buf = BUF;
                run_kind!(ctx, "EndianSlice", EndianSlice::new(&buf[..], LittleEndian), |v: &EndianSlice<LittleEndian>, r: &EndianSlice<LittleEndian>| v.offset_from(*r));
            }
            1 => {
                let rc: Rc<[u8]> = Rc::from(&BUF[..]);
                run_kind!(ctx, "EndianRcSlice", EndianRcSlice::new(rc, LittleEndian), |v: &EndianRcSlice<LittleEndian>, r: &EndianRcSlice<LittleEndian>| Reader::offset_from(v, r));
            }
            _ => {
                let arc: Arc<[u8]> = Arc::from(&BUF[..]);
                run_kind!(ctx, "EndianArcSlice", EndianArcSlice::new(arc, LittleEndian), |v: &EndianArcSlice<LittleEndian>, r: &EndianArcSlice<LittleEndian>| Reader::offset_from(v, r));
            }
        },
    )]
}
