//! C10: the inherent `range`, `range_from` and `range_to` of every reader kind hand back a view of
//! exactly the requested bytes, and an out-of-bounds request panics as documented instead of
//! handing back a view that reaches past the window (the shared-buffer reader builds these views
//! with raw pointers).
use gimli::{EndianArcSlice, EndianRcSlice, EndianSlice, LittleEndian, Reader};
use mcx::{guard, Ctx, Sub};
use std::rc::Rc;
use std::sync::Arc;

const N: usize = 8;
const BUF: [u8; N] = [0x10, 0x21, 0x32, 0x43, 0x54, 0x65, 0x76, 0x87];

/// What a caller can see of a view: its bytes and where it starts in the buffer.
type View = (Vec<u8>, usize);

macro_rules! run_kind {
    ($ctx:expr, $name:expr, $root:expr, $off:expr) => {{
        let root = $root;
        // every window [ws, we) of the buffer as the reader the calls are made on
        for ws in 0..=N {
            for we in ws..=N {
                let win = root.range(ws..we);
                let wl = we - ws;
                for a in 0..=wl + 2 {
                    for b in 0..=wl + 2 {
                        for api in 0..3 {
                            if (api == 1 && b != 0) || (api == 2 && a != 0) {
                                continue;
                            }
                            let what = match api {
                                0 => format!("{} window {}..{} range({}..{})", $name, ws, we, a, b),
                                1 => format!("{} window {}..{} range_from({}..)", $name, ws, we, a),
                                _ => format!("{} window {}..{} range_to(..{})", $name, ws, we, b),
                            };
                            $ctx.eval(1);
                            let r = guard(|| {
                                let v = match api {
                                    0 => win.range(a..b),
                                    1 => win.range_from(a..),
                                    _ => win.range_to(..b),
                                };
                                (v.len(), $off(&v, &root))
                            });
                            let want: Option<View> = match api {
                                0 if a <= b && b <= wl => Some((BUF[ws + a..ws + b].to_vec(), ws + a)),
                                1 if a <= wl => Some((BUF[ws + a..we].to_vec(), ws + a)),
                                2 if b <= wl => Some((BUF[ws..ws + b].to_vec(), ws)),
                                _ => None,
                            };
                            // an inverted range inside the window (a > b, a <= len) is not out of
                            // bounds and not documented: a panic or an empty view at a are accepted
                            if api == 0 && a > b && a <= wl {
                                match r {
                                    Err(_) => $ctx.outcome("ranges:inverted-range-panics"),
                                    Ok((0, off)) if off == ws + a => $ctx.outcome("ranges:inverted-range-is-empty-view"),
                                    Ok((len, off)) => {
                                        $ctx.fail("inherent range API", "bounds", "inverted-range-returned-a-non-empty-view", format!("{}: view of {} bytes at {}", what, len, off));
                                        return;
                                    }
                                }
                                continue;
                            }
                            match (r, want) {
                                (Err(_), None) => $ctx.outcome("ranges:out-of-bounds-panics"),
                                (Err(p), Some(_)) => return $ctx.fail_panic("inherent range API", &p, what),
                                (Ok((len, _)), None) => {
                                    $ctx.fail("inherent range API", "bounds", "out-of-bounds-request-returned-a-view", format!("{}: returned a view of {} bytes instead of panicking (window has {} bytes)", what, len, wl));
                                    return;
                                }
                                (Ok((len, off)), Some((bytes, woff))) => {
                                    // read the bytes only when the length is right: a wrong length may reach past the buffer
                                    if len != bytes.len() || off != woff {
                                        $ctx.fail("inherent range API", "view", "wrong-window", format!("{}: view of {} bytes at {}, expected {} bytes at {}", what, len, off, bytes.len(), woff));
                                        return;
                                    }
                                    let got = match api {
                                        0 => win.range(a..b).to_slice().map(|c| c.to_vec()),
                                        1 => win.range_from(a..).to_slice().map(|c| c.to_vec()),
                                        _ => win.range_to(..b).to_slice().map(|c| c.to_vec()),
                                    };
                                    if got.as_ref().ok() != Some(&bytes) {
                                        $ctx.fail("inherent range API", "view", "wrong-bytes", format!("{}: bytes {:?}, expected {:?}", what, got, bytes));
                                        return;
                                    }
                                    $ctx.outcome("ranges:view-ok");
                                }
                            }
                        }
                    }
                }
            }
        }
        $ctx.nontriv(1);
    }};
}

/// `UnitHeader::range`, `range_from`, `range_to`: views of the unit's bytes by unit offset.
fn unit_ranges_sub() -> Sub {
    Sub::new(
        "unit-header-range-api",
        3,
        "a .debug_info section of two version 4 units with 9 bytes of entries each, under EndianSlice, EndianRcSlice and EndianArcSlice: for both units and every pair of unit offsets a, b from 2 before the first entry byte to 2 past the unit's end, UnitHeader::range(a..b), range_from(a..) and range_to(..b) give exactly the section bytes of that range (zero-copy: right offset in the section) when both offsets lie inside the entries, and an error otherwise (a > b may panic)",
        move |ctx: &mut Ctx, i| {
            // two units: length 4 + version 2 + abbrev offset 4 + address size 1 = 11 header bytes, 9 entry bytes
            let mut sec: Vec<u8> = vec![];
            for u in 0..2u8 {
                sec.extend_from_slice(&[16, 0, 0, 0, 4, 0, 0, 0, 0, 0, 8]);
                sec.extend((0..9u8).map(|k| 0x40 + 0x10 * u + k));
            }
            macro_rules! go {
                ($name:expr, $reader:expr) => {{
                    let di = gimli::DebugInfo::from($reader);
                    let mut it = di.units();
                    let mut un = 0usize;
                    while let Ok(Some(h)) = it.next() {
                        let uoff = un * 20;
                        un += 1;
                        let (hs, total) = (11usize, 20usize);
                        let inb = |x: usize| x >= hs && x - hs < total - hs;
                        for a in hs - 2..=total + 2 {
                            for b in hs - 2..=total + 2 {
                                for api in 0..3 {
                                    if (api == 1 && b != hs - 2) || (api == 2 && a != hs - 2) {
                                        continue;
                                    }
                                    let what = match api {
                                        0 => format!("{} unit at {:#x} range({}..{})", $name, uoff, a, b),
                                        1 => format!("{} unit at {:#x} range_from({}..)", $name, uoff, a),
                                        _ => format!("{} unit at {:#x} range_to(..{})", $name, uoff, b),
                                    };
                                    ctx.eval(1);
                                    let r = guard(|| {
                                        let v = match api {
                                            0 => h.range(gimli::UnitOffset(a)..gimli::UnitOffset(b)),
                                            1 => h.range_from(gimli::UnitOffset(a)..),
                                            _ => h.range_to(..gimli::UnitOffset(b)),
                                        };
                                        v.map(|r| (r.len(), r.to_slice().map(|c| c.to_vec()).unwrap_or_default())).map_err(|e| format!("{:?}", e))
                                    });
                                    let want: Option<Vec<u8>> = match api {
                                        0 if inb(a) && inb(b) && a <= b => Some(sec[uoff + a..uoff + b].to_vec()),
                                        1 if inb(a) => Some(sec[uoff + a..uoff + total].to_vec()),
                                        2 if inb(b) => Some(sec[uoff + hs..uoff + b].to_vec()),
                                        _ => None,
                                    };
                                    match (r, want) {
                                        (Err(_), None) | (Ok(Err(_)), None) => ctx.outcome("unit-ranges:refused"),
                                        (Err(p), Some(_)) => return ctx.fail_panic("UnitHeader::range", &p, what),
                                        (Ok(Ok((len, bytes))), Some(w)) if len == w.len() && bytes == w => ctx.outcome("unit-ranges:view-ok"),
                                        (Ok(other), w) => {
                                            ctx.fail("UnitHeader::range", "view", "wrong-bytes", format!("{}: got {:?}, expected {:?}", what, other, w));
                                            return;
                                        }
                                    }
                                }
                            }
                        }
                    }
                    if un != 2 {
                        ctx.fail("UnitHeader::range", "setup", "units-not-read", format!("{}: {} units", $name, un));
                        return;
                    }
                    ctx.nontriv(1);
                }};
            }
            match i {
                0 => go!("EndianSlice", EndianSlice::new(&sec[..], LittleEndian)),
                1 => go!("EndianRcSlice", EndianRcSlice::new(Rc::from(&sec[..]), LittleEndian)),
                _ => go!("EndianArcSlice", EndianArcSlice::new(Arc::from(&sec[..]), LittleEndian)),
            }
        },
    )
}

pub fn subs() -> Vec<Sub> {
    vec![unit_ranges_sub(), Sub::new(
        "inherent-range-api",
        3,
        "EndianSlice, EndianRcSlice and EndianArcSlice over an 8-byte buffer: on every window [s, e) of the buffer, range(a..b), range_from(a..) and range_to(..b) for every a, b in 0..=len+2: in-bounds requests give a view of exactly those bytes at that offset, out-of-bounds requests panic (documented) and never hand back a view; an inverted range inside the window may panic or give an empty view",
        move |ctx: &mut Ctx, i| match i {
            0 => {
                let buf = BUF;
                run_kind!(ctx, "EndianSlice", EndianSlice::new(&buf[..], LittleEndian), |v: &EndianSlice<LittleEndian>, r: &EndianSlice<LittleEndian>| v.offset_from(*r));
            }
            1 => {
                let rc: Rc<[u8]> = Rc::from(&BUF[..]);
                run_kind!(ctx, "EndianRcSlice", EndianRcSlice::new(rc, LittleEndian), |v: &EndianRcSlice<LittleEndian>, r: &EndianRcSlice<LittleEndian>| Reader::offset_from(v, r));
            }
            _ => {
                let arc: Arc<[u8]> = Arc::from(&BUF[..]);
                run_kind!(ctx, "EndianArcSlice", EndianArcSlice::new(arc, LittleEndian), |v: &EndianArcSlice<LittleEndian>, r: &EndianArcSlice<LittleEndian>| Reader::offset_from(v, r));
            }
        },
    )]
}
