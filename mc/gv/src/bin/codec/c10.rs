//! C10: explicit-state exploration of reader operation histories.
//!
//! State = pool of live readers (each a window of one shared buffer) paired
//! with a cursor model on the plain byte vector. Every transition calls the
//! real reader; after every transition every live reader is observed and
//! compared with the model. The state space is finite (windows of an N-byte
//! buffer), so BFS runs to the fixed point.
use gimli::{EndianReader, EndianSlice, Format, Reader, ReaderOffsetId, RelocateReader, RunTimeEndian};
use mcx::explore::bfs;
use mcx::{guard, CheckDef, Ctx, Sub, Tier};
use std::cell::Cell;
use std::rc::Rc;
use std::sync::Arc;

#[derive(Clone, Copy, Debug, PartialEq, Eq, Hash)]
struct Win {
    off: usize,
    len: usize,
    /// `empty()` was called: for the borrowed reader the position is no longer
    /// meaningful (API contract), so position observations are skipped.
    emptied: bool,
}

#[derive(Clone, Copy, Debug, PartialEq, Eq)]
enum Arg {
    K0,
    K1,
    K2,
    LenM1,
    Len,
    LenP1,
}
impl Arg {
    fn val(self, len: usize) -> Option<usize> {
        match self {
            Arg::K0 => Some(0),
            Arg::K1 => Some(1),
            Arg::K2 => Some(2),
            Arg::LenM1 => len.checked_sub(1),
            Arg::Len => Some(len),
            Arg::LenP1 => Some(len + 1),
        }
    }
}

#[derive(Clone, Copy, Debug, PartialEq, Eq)]
enum Act {
    ReadU8,
    ReadU16,
    ReadU32,
    ReadU64,
    ReadUint3,
    Uleb,
    Sleb,
    Addr(u8),
    Off(bool),
    InitLen,
    NulSlice,
    ReadSlice(Arg),
    Skip(Arg),
    Trunc(Arg),
    Split(Arg),
    Empty,
    Clone,
    Drop,
}

fn per_reader_actions() -> Vec<Act> {
    use Act::*;
    let mut v = vec![ReadU8, ReadU16, ReadU32, ReadU64, ReadUint3, Uleb, Sleb, Addr(1), Addr(2), Addr(3), Addr(4), Addr(8), Off(false), Off(true), InitLen, NulSlice];
    for a in [Arg::K0, Arg::K1, Arg::K2, Arg::LenP1] {
        v.push(ReadSlice(a));
    }
    for a in [Arg::K0, Arg::K1, Arg::LenM1, Arg::Len, Arg::LenP1] {
        v.push(Skip(a));
        v.push(Trunc(a));
        v.push(Split(a));
    }
    v.extend([Empty, Clone, Drop]);
    v
}

/// Model outcome of an action.
#[derive(Debug, Clone, PartialEq)]
enum MOut {
    Val(u128),
    /// (value, format64)
    LenFmt(u64, bool),
    Unit,
    New(Win),
    /// error class, and for Eof the absolute offset its id must map to
    Err(&'static str, Option<usize>),
}

fn ref_uint(b: &[u8], big: bool) -> u128 {
    let mut v = 0u128;
    if big {
        for &x in b {
            v = (v << 8) | x as u128;
        }
    } else {
        for &x in b.iter().rev() {
            v = (v << 8) | x as u128;
        }
    }
    v
}

/// The cursor model: applies `act` to window `w` of buffer `b`.
fn model(b: &[u8], big: bool, w: &mut Win, act: Act) -> MOut {
    let data = &b[w.off..w.off + w.len];
    let fixed = |w: &mut Win, n: usize| -> MOut {
        if w.len < n {
            MOut::Err("UnexpectedEof", Some(w.off))
        } else {
            let v = ref_uint(&b[w.off..w.off + n], big);
            w.off += n;
            w.len -= n;
            MOut::Val(v)
        }
    };
    match act {
        Act::ReadU8 => fixed(w, 1),
        Act::ReadU16 => fixed(w, 2),
        Act::ReadU32 => fixed(w, 4),
        Act::ReadU64 => fixed(w, 8),
        Act::ReadUint3 => fixed(w, 3),
        Act::Addr(s) => match s {
            1 | 2 | 4 | 8 => fixed(w, s as usize),
            _ => MOut::Err("UnsupportedAddressSize", None),
        },
        Act::Off(f64) => fixed(w, if f64 { 8 } else { 4 }),
        Act::Uleb => match mcx::leb::uleb(data) {
            mcx::leb::Dec::Ok(v, n) => {
                w.off += n;
                w.len -= n;
                MOut::Val(v)
            }
            _ => {
                // byte-wise consumption up to the end of the window
                w.off += w.len;
                w.len = 0;
                MOut::Err("UnexpectedEof", Some(w.off))
            }
        },
        Act::Sleb => match mcx::leb::sleb(data) {
            mcx::leb::Dec::Ok(v, n) => {
                w.off += n;
                w.len -= n;
                MOut::Val(v as u128)
            }
            _ => {
                w.off += w.len;
                w.len = 0;
                MOut::Err("UnexpectedEof", Some(w.off))
            }
        },
        Act::InitLen => {
            if w.len < 4 {
                return MOut::Err("UnexpectedEof", Some(w.off));
            }
            let first = ref_uint(&b[w.off..w.off + 4], big) as u32;
            w.off += 4;
            w.len -= 4;
            if first < 0xffff_fff0 {
                MOut::LenFmt(first as u64, false)
            } else if first == 0xffff_ffff {
                if w.len < 8 {
                    MOut::Err("UnexpectedEof", Some(w.off))
                } else {
                    let v = ref_uint(&b[w.off..w.off + 8], big) as u64;
                    w.off += 8;
                    w.len -= 8;
                    MOut::LenFmt(v, true)
                }
            } else {
                MOut::Err("UnknownReservedLength", None)
            }
        }
        Act::NulSlice => match data.iter().position(|&x| x == 0) {
            None => MOut::Err("UnexpectedEof", Some(w.off)),
            Some(p) => {
                let n = Win { off: w.off, len: p, emptied: w.emptied };
                w.off += p + 1;
                w.len -= p + 1;
                MOut::New(n)
            }
        },
        Act::ReadSlice(a) => {
            let n = a.val(w.len).unwrap();
            if w.len < n {
                MOut::Err("UnexpectedEof", Some(w.off))
            } else {
                // value = the bytes, big-endian packed for comparison
                let v = ref_uint(&b[w.off..w.off + n], true);
                w.off += n;
                w.len -= n;
                MOut::Val(v)
            }
        }
        Act::Skip(a) => {
            let n = a.val(w.len).unwrap();
            if w.len < n {
                MOut::Err("UnexpectedEof", Some(w.off))
            } else {
                w.off += n;
                w.len -= n;
                MOut::Unit
            }
        }
        Act::Trunc(a) => {
            let n = a.val(w.len).unwrap();
            if w.len < n {
                MOut::Err("UnexpectedEof", Some(w.off))
            } else {
                w.len = n;
                MOut::Unit
            }
        }
        Act::Split(a) => {
            let n = a.val(w.len).unwrap();
            if w.len < n {
                MOut::Err("UnexpectedEof", Some(w.off))
            } else {
                let nw = Win { off: w.off, len: n, emptied: w.emptied };
                w.off += n;
                w.len -= n;
                MOut::New(nw)
            }
        }
        Act::Empty => {
            w.len = 0;
            w.emptied = true;
            MOut::Unit
        }
        Act::Clone => MOut::New(*w),
        Act::Drop => MOut::Unit,
    }
}

// ---------------------------------------------------------------------------
// Reader kinds

trait Kind: 'static {
    type R: Reader<Offset = usize> + Clone;
    const NAME: &'static str;
    /// Whether positions stay meaningful after `empty()`.
    const POS_AFTER_EMPTY: bool;
    fn root(buf: &'static [u8], big: bool) -> Self::R;
    fn raw(r: &Self::R) -> (*const u8, usize);
}

fn endian(big: bool) -> RunTimeEndian {
    if big {
        RunTimeEndian::Big
    } else {
        RunTimeEndian::Little
    }
}

struct KSlice;
impl Kind for KSlice {
    type R = EndianSlice<'static, RunTimeEndian>;
    const NAME: &'static str = "EndianSlice";
    const POS_AFTER_EMPTY: bool = true;
    fn root(buf: &'static [u8], big: bool) -> Self::R {
        EndianSlice::new(buf, endian(big))
    }
    fn raw(r: &Self::R) -> (*const u8, usize) {
        (r.slice().as_ptr(), r.slice().len())
    }
}
struct KRc;
impl Kind for KRc {
    type R = gimli::EndianRcSlice<RunTimeEndian>;
    const NAME: &'static str = "EndianRcSlice";
    const POS_AFTER_EMPTY: bool = true;
    fn root(buf: &'static [u8], big: bool) -> Self::R {
        EndianReader::new(Rc::from(buf), endian(big))
    }
    fn raw(r: &Self::R) -> (*const u8, usize) {
        (r.bytes().as_ptr(), r.bytes().len())
    }
}
struct KArc;
impl Kind for KArc {
    type R = gimli::EndianArcSlice<RunTimeEndian>;
    const NAME: &'static str = "EndianArcSlice";
    const POS_AFTER_EMPTY: bool = true;
    fn root(buf: &'static [u8], big: bool) -> Self::R {
        EndianReader::new(Arc::from(buf), endian(big))
    }
    fn raw(r: &Self::R) -> (*const u8, usize) {
        (r.bytes().as_ptr(), r.bytes().len())
    }
}

#[derive(Debug, Clone, Copy)]
struct Ident;
impl gimli::Relocate<usize> for Ident {
    fn relocate_address(&self, _offset: usize, value: u64) -> gimli::Result<u64> {
        Ok(value)
    }
    fn relocate_offset(&self, _offset: usize, value: usize) -> gimli::Result<usize> {
        Ok(value)
    }
}
struct KReloc;
impl Kind for KReloc {
    type R = RelocateReader<EndianSlice<'static, RunTimeEndian>, Ident>;
    const NAME: &'static str = "RelocateReader<EndianSlice,identity>";
    const POS_AFTER_EMPTY: bool = true;
    fn root(buf: &'static [u8], big: bool) -> Self::R {
        RelocateReader::new(EndianSlice::new(buf, endian(big)), Ident)
    }
    fn raw(r: &Self::R) -> (*const u8, usize) {
        (r.inner().slice().as_ptr(), r.inner().slice().len())
    }
}
struct KRelocRc;
impl Kind for KRelocRc {
    type R = RelocateReader<gimli::EndianRcSlice<RunTimeEndian>, Ident>;
    const NAME: &'static str = "RelocateReader<EndianRcSlice,identity>";
    const POS_AFTER_EMPTY: bool = true;
    fn root(buf: &'static [u8], big: bool) -> Self::R {
        RelocateReader::new(EndianReader::new(Rc::from(buf), endian(big)), Ident)
    }
    fn raw(r: &Self::R) -> (*const u8, usize) {
        (r.inner().bytes().as_ptr(), r.inner().bytes().len())
    }
}

/// Custom shared buffer: payload between two canary regions, with a drop flag
/// and a live-handle counter.
#[derive(Debug)]
struct GuardInner {
    data: Box<[u8]>,
    n: usize,
    dropped: Rc<Cell<u32>>,
}
impl Drop for GuardInner {
    fn drop(&mut self) {
        self.dropped.set(self.dropped.get() + 1);
    }
}
const CANARY: usize = 32;
#[derive(Debug)]
struct GuardedBuf {
    inner: Rc<GuardInner>,
    live: Rc<Cell<i64>>,
}
impl GuardedBuf {
    fn new(payload: &[u8]) -> (GuardedBuf, Rc<Cell<u32>>, Rc<Cell<i64>>) {
        let mut data = vec![0xCCu8; CANARY];
        data.extend_from_slice(payload);
        data.extend(std::iter::repeat(0xCC).take(CANARY));
        let dropped = Rc::new(Cell::new(0));
        let live = Rc::new(Cell::new(1));
        (GuardedBuf { inner: Rc::new(GuardInner { data: data.into_boxed_slice(), n: payload.len(), dropped: dropped.clone() }), live: live.clone() }, dropped, live)
    }
}
impl Clone for GuardedBuf {
    fn clone(&self) -> Self {
        self.live.set(self.live.get() + 1);
        GuardedBuf { inner: self.inner.clone(), live: self.live.clone() }
    }
}
impl Drop for GuardedBuf {
    fn drop(&mut self) {
        self.live.set(self.live.get() - 1);
    }
}
impl std::ops::Deref for GuardedBuf {
    type Target = [u8];
    fn deref(&self) -> &[u8] {
        &self.inner.data[CANARY..CANARY + self.inner.n]
    }
}
unsafe impl gimli::StableDeref for GuardedBuf {}
unsafe impl gimli::CloneStableDeref for GuardedBuf {}

// ---------------------------------------------------------------------------

struct St<K: Kind> {
    readers: Vec<K::R>,
    wins: Vec<Win>,
}
impl<K: Kind> Clone for St<K> {
    fn clone(&self) -> Self {
        St { readers: self.readers.clone(), wins: self.wins.clone() }
    }
}

type Fail = (String, String, String);

fn errname(e: &gimli::Error) -> String {
    gv::err_name(e)
}

/// Compare a gimli result with the model outcome.
fn cmp_err<K: Kind>(root: &K::R, w_before: &Win, e: &gimli::Error, m: &MOut, what: &str) -> Result<(), Fail> {
    match m {
        MOut::Err(name, at) => {
            if errname(e) != *name {
                return Err(("error-kind".into(), "wrong-error".into(), format!("{}: got {:?}, model {}", what, e, name)));
            }
            if let (gimli::Error::UnexpectedEof(id), Some(at)) = (e, at) {
                if K::POS_AFTER_EMPTY || !w_before.emptied {
                    let got = root.lookup_offset_id(*id);
                    if got != Some(*at) {
                        return Err(("eof-offset-id".into(), "wrong-offset-id".into(), format!("{}: UnexpectedEof id maps to {:?}, model offset {}", what, got, at)));
                    }
                }
            }
            Ok(())
        }
        other => Err(("result".into(), "unexpected-error".into(), format!("{}: got Err({:?}), model {:?}", what, e, other))),
    }
}

/// Apply `act` to reader `ri` of the pool; returns the produced reader if any.
fn apply<K: Kind>(buf: &[u8], big: bool, root: &K::R, st: &mut St<K>, ri: usize, act: Act, pool_max: usize) -> Result<bool, Fail> {
    let w_before = st.wins[ri];
    if matches!(act, Act::ReadSlice(a) | Act::Skip(a) | Act::Trunc(a) | Act::Split(a) if a.val(w_before.len).is_none()) {
        return Ok(false);
    }
    let what = format!("{} {:?} on reader#{} window {:?}", K::NAME, act, ri, w_before);
    let mut w = w_before;
    let m = model(buf, big, &mut w, act);
    if act == Act::Drop {
        st.readers.remove(ri);
        st.wins.remove(ri);
        return Ok(true);
    }
    let r = &mut st.readers[ri];
    macro_rules! num {
        ($e:expr) => {{
            match guard(|| $e) {
                Err(p) => return Err((p.site(), p.kind(), format!("{}: panic {}", what, p.msg))),
                Ok(Ok(v)) => match &m {
                    MOut::Val(mv) => {
                        if (v as u128) != *mv {
                            return Err(("value".into(), "wrong-value".into(), format!("{}: got {:#x} model {:#x}", what, v as u128, mv)));
                        }
                    }
                    other => return Err(("result".into(), "unexpected-ok".into(), format!("{}: got Ok({:#x}) model {:?}", what, v as u128, other))),
                },
                Ok(Err(e)) => cmp_err::<K>(root, &w_before, &e, &m, &what)?,
            }
        }};
    }
    macro_rules! unit {
        ($e:expr) => {{
            match guard(|| $e) {
                Err(p) => return Err((p.site(), p.kind(), format!("{}: panic {}", what, p.msg))),
                Ok(Ok(())) => {
                    if m != MOut::Unit {
                        return Err(("result".into(), "unexpected-ok".into(), format!("{}: got Ok model {:?}", what, m)));
                    }
                }
                Ok(Err(e)) => cmp_err::<K>(root, &w_before, &e, &m, &what)?,
            }
        }};
    }
    let mut produced: Option<K::R> = None;
    macro_rules! newr {
        ($e:expr) => {{
            match guard(|| $e) {
                Err(p) => return Err((p.site(), p.kind(), format!("{}: panic {}", what, p.msg))),
                Ok(Ok(nr)) => match &m {
                    MOut::New(_) => produced = Some(nr),
                    other => return Err(("result".into(), "unexpected-ok".into(), format!("{}: got a reader, model {:?}", what, other))),
                },
                Ok(Err(e)) => cmp_err::<K>(root, &w_before, &e, &m, &what)?,
            }
        }};
    }
    match act {
        Act::ReadU8 => num!(r.read_u8()),
        Act::ReadU16 => num!(r.read_u16()),
        Act::ReadU32 => num!(r.read_u32()),
        Act::ReadU64 => num!(r.read_u64()),
        Act::ReadUint3 => num!(r.read_uint(3)),
        Act::Uleb => num!(r.read_uleb128()),
        Act::Sleb => num!(r.read_sleb128().map(|v| v as i128 as u128)),
        Act::Addr(s) => num!(r.read_address(s)),
        Act::Off(f) => num!(r.read_offset(if f { Format::Dwarf64 } else { Format::Dwarf32 })),
        Act::InitLen => match guard(|| r.read_initial_length()) {
            Err(p) => return Err((p.site(), p.kind(), format!("{}: panic {}", what, p.msg))),
            Ok(Ok((l, f))) => {
                if m != MOut::LenFmt(l as u64, f == Format::Dwarf64) {
                    return Err(("value".into(), "wrong-value".into(), format!("{}: got ({},{:?}) model {:?}", what, l, f, m)));
                }
            }
            Ok(Err(e)) => cmp_err::<K>(root, &w_before, &e, &m, &what)?,
        },
        Act::NulSlice => newr!(r.read_null_terminated_slice()),
        Act::ReadSlice(a) => {
            let n = a.val(w_before.len).unwrap();
            let mut tmp = vec![0u8; n];
            match guard(|| r.read_slice(&mut tmp)) {
                Err(p) => return Err((p.site(), p.kind(), format!("{}: panic {}", what, p.msg))),
                Ok(Ok(())) => {
                    if m != MOut::Val(ref_uint(&tmp, true)) {
                        return Err(("value".into(), "wrong-value".into(), format!("{}: got {} model {:?}", what, mcx::hex(&tmp), m)));
                    }
                }
                Ok(Err(e)) => cmp_err::<K>(root, &w_before, &e, &m, &what)?,
            }
        }
        Act::Skip(a) => unit!(r.skip(a.val(w_before.len).unwrap())),
        Act::Trunc(a) => unit!(r.truncate(a.val(w_before.len).unwrap())),
        Act::Split(a) => newr!(r.split(a.val(w_before.len).unwrap())),
        Act::Empty => {
            if let Err(p) = guard(|| r.empty()) {
                return Err((p.site(), p.kind(), format!("{}: panic {}", what, p.msg)));
            }
        }
        Act::Clone => produced = Some(r.clone()),
        Act::Drop => unreachable!(),
    }
    st.wins[ri] = w;
    if let (Some(nr), MOut::New(nw)) = (produced, &m) {
        // Observe the produced reader even when the pool is full.
        observe::<K>(buf, root, &nr, nw, &what)?;
        if st.readers.len() < pool_max {
            st.readers.push(nr);
            st.wins.push(*nw);
        }
    }
    Ok(true)
}

/// Observe one live reader against its model window.
fn observe<K: Kind>(buf: &[u8], root: &K::R, r: &K::R, w: &Win, what: &str) -> Result<(), Fail> {
    let fail = |site: &str, kind: &str, d: String| -> Result<(), Fail> { Err((site.to_string(), kind.to_string(), format!("after {}: {} window {:?}: {}", what, K::NAME, w, d))) };
    let want = &buf[w.off..w.off + w.len];
    if r.len() != w.len || r.is_empty() != (w.len == 0) {
        return fail("len", "wrong-length", format!("len {} is_empty {}", r.len(), r.is_empty()));
    }
    match r.to_slice() {
        Ok(s) => {
            if &s[..] != want {
                return fail("bytes", "wrong-bytes", format!("to_slice {} want {}", mcx::hex(&s), mcx::hex(want)));
            }
        }
        Err(e) => return fail("bytes", "to_slice-error", format!("{:?}", e)),
    }
    let pos_ok = K::POS_AFTER_EMPTY || !w.emptied;
    let (rp, rl) = K::raw(r);
    let (bp, bl) = K::raw(root);
    if pos_ok {
        // zero copy: the view lies inside the buffer at the model offset
        if rl != w.len || (rp as usize) != (bp as usize) + w.off || (rp as usize) + rl > (bp as usize) + bl {
            return fail("zero-copy", "view-outside-or-displaced", format!("ptr {:#x} len {} vs buffer {:#x} len {}", rp as usize, rl, bp as usize, bl));
        }
        let off = match guard(|| r.offset_from(root)) {
            Ok(o) => o,
            Err(p) => return fail(&p.site(), &p.kind(), format!("offset_from panicked: {}", p.msg)),
        };
        if off != w.off {
            return fail("offset_from", "wrong-offset", format!("offset_from {} want {}", off, w.off));
        }
        let id: ReaderOffsetId = r.offset_id();
        if root.lookup_offset_id(id) != Some(w.off) {
            return fail("offset_id", "wrong-offset-id", format!("lookup {:?} want {}", root.lookup_offset_id(id), w.off));
        }
        // an id is found by exactly the readers whose window contains it
        let self_lookup = r.lookup_offset_id(id);
        if self_lookup != Some(0) {
            return fail("offset_id", "wrong-offset-id", format!("self lookup {:?}", self_lookup));
        }
        let end_id = ReaderOffsetId(id.0 + w.len as u64 + 1);
        if r.lookup_offset_id(end_id).is_some() {
            return fail("offset_id", "id-outside-accepted", "id one past the end+1 accepted".into());
        }
    }
    // find
    for byte in [0u8, 0xff, 0x41, 0x99] {
        let m = want.iter().position(|&x| x == byte);
        match (r.find(byte), m) {
            (Ok(p), Some(q)) if p == q => {}
            (Err(gimli::Error::UnexpectedEof(id)), None) => {
                if pos_ok && root.lookup_offset_id(id) != Some(w.off) {
                    return fail("find", "wrong-offset-id", format!("find({:#x}) eof id", byte));
                }
            }
            (g, m) => return fail("find", "wrong-value", format!("find({:#x}) got {:?} model {:?}", byte, g, m)),
        }
    }
    // strings
    match (r.to_string(), std::str::from_utf8(want)) {
        (Ok(s), Ok(m)) if &*s == m => {}
        (Err(gimli::Error::BadUtf8), Err(_)) => {}
        (g, m) => return fail("to_string", "wrong-value", format!("got {:?} model {:?}", g.map(|s| s.to_string()), m)),
    }
    match r.to_string_lossy() {
        Ok(s) if &*s == &*String::from_utf8_lossy(want) => {}
        g => return fail("to_string_lossy", "wrong-value", format!("got {:?}", g.map(|s| s.to_string()))),
    }
    Ok(())
}

/// Offsets between live readers: a base that does not start at byte 0 of the buffer.
fn observe_pairs<K: Kind>(readers: &[K::R], wins: &[Win], what: &str) -> Result<(), Fail> {
    for (i, (ri, wi)) in readers.iter().zip(wins.iter()).enumerate() {
        for (j, (rj, wj)) in readers.iter().zip(wins.iter()).enumerate() {
            // offset_from requires the base to contain the reader
            if i == j || wj.off > wi.off || wi.off + wi.len > wj.off + wj.len {
                continue;
            }
            let got = match guard(|| ri.offset_from(rj)) {
                Ok(o) => o,
                Err(p) => return Err((p.site(), p.kind(), format!("after {}: {} offset_from(reader#{}) of reader#{} panicked: {}", what, K::NAME, j, i, p.msg))),
            };
            if got != wi.off - wj.off {
                return Err(("offset_from-base-view".into(), "wrong-offset".into(), format!("after {}: {} reader#{} {:?} offset_from reader#{} {:?} = {}, model {}", what, K::NAME, i, wi, j, wj, got, wi.off - wj.off)));
            }
            // ids of the inner reader resolve relative to the containing view
            let id = ri.offset_id();
            if rj.lookup_offset_id(id) != Some(wi.off - wj.off) {
                return Err(("offset_id-base-view".into(), "wrong-offset-id".into(), format!("after {}: {} reader#{} {:?} id looked up in reader#{} {:?} = {:?}, model {}", what, K::NAME, i, wi, j, wj, rj.lookup_offset_id(id), wi.off - wj.off)));
            }
        }
        // an id outside the view is not found
        for (j, (rj, wj)) in readers.iter().zip(wins.iter()).enumerate() {
            if i != j && (wi.off < wj.off || wi.off > wj.off + wj.len) {
                let id = ri.offset_id();
                if rj.lookup_offset_id(id).is_some() {
                    return Err(("offset_id-base-view".into(), "id-outside-accepted".into(), format!("after {}: {} reader#{} {:?} id accepted by reader#{} {:?}", what, K::NAME, i, wi, j, wj)));
                }
            }
        }
    }
    Ok(())
}

fn buffer(n: usize) -> Vec<u8> {
    // one NUL, non-UTF-8 bytes, a LEB continuation run, a 64-bit initial-length
    // escape and a reserved initial length (little endian) near the end.
    let full = [0x81u8, 0x7f, 0x00, 0xf0, 0xff, 0xff, 0xff, 0xff, 0x41, 0x80];
    match n {
        3 => vec![0x81, 0x00, 0xff],
        4 => vec![0x81, 0x00, 0xff, 0x41],
        6 => vec![0x81, 0x7f, 0x00, 0xff, 0xfe, 0x41],
        8 => full[..8].to_vec(),
        _ => full[..n.min(10)].to_vec(),
    }
}

fn explore_kind<K: Kind>(ctx: &mut Ctx, n: usize, pool_max: usize, big: bool) {
    let buf: &'static [u8] = Box::leak(buffer(n).into_boxed_slice());
    let root = K::root(buf, big);
    let acts = per_reader_actions();
    let na = acts.len();
    let init = St::<K> { readers: vec![root.clone()], wins: vec![Win { off: 0, len: n, emptied: false }] };
    let entry = format!("reader-history/{}", K::NAME);
    let stats = bfs(
        ctx,
        &entry,
        init,
        na * pool_max,
        64,
        |s: &St<K>| s.wins.clone(),
        |s, a| {
            let (ri, ai) = (a / na, a % na);
            if ri >= s.readers.len() {
                return Ok(None);
            }
            let mut n = s.clone();
            let did = apply::<K>(buf, big, &root, &mut n, ri, acts[ai], pool_max)?;
            if !did {
                return Ok(None);
            }
            let what = format!("{:?} on reader#{}", acts[ai], ri);
            for (r, w) in n.readers.iter().zip(n.wins.iter()) {
                observe::<K>(buf, &root, r, w, &what)?;
            }
            observe_pairs::<K>(&n.readers, &n.wins, &what)?;
            Ok(Some(n))
        },
        |a| format!("r{}.{:?}", a / na, acts[a % na]),
    );
    ctx.nontriv(stats.states);
    ctx.outcome(&format!("closed:{}", stats.closed));
    ctx.outcome_n(&format!("states:{}", K::NAME), stats.states);
    if !stats.closed {
        ctx.machinery(format!("{}: exploration did not reach the fixed point within depth 64", K::NAME));
    }
    if ctx.want_sample() {
        ctx.sample(format!("{} big_endian={} buffer={} pool<={}: {} states, {} transitions, max depth {}, fixed point reached: {}", K::NAME, big, mcx::hex(buf), pool_max, stats.states, stats.transitions, stats.max_depth, stats.closed));
    }
}

/// Custom-buffer kind: every path re-executed on a fresh guarded buffer, then
/// torn down in two different orders with liveness checks.
fn explore_guarded(ctx: &mut Ctx, n: usize, pool_max: usize, big: bool) {
    type R = EndianReader<RunTimeEndian, GuardedBuf>;
    struct KG;
    impl Kind for KG {
        type R = R;
        const NAME: &'static str = "EndianReader<GuardedBuf>";
        const POS_AFTER_EMPTY: bool = true;
        fn root(_buf: &'static [u8], _big: bool) -> R {
            unreachable!()
        }
        fn raw(r: &R) -> (*const u8, usize) {
            (r.bytes().as_ptr(), r.bytes().len())
        }
    }
    let payload = buffer(n);
    let acts = per_reader_actions();
    let na = acts.len();
    #[derive(Clone)]
    struct P {
        path: Vec<u16>,
        wins: Vec<Win>,
    }
    let run_path = |path: &[u16]| -> Result<Option<Vec<Win>>, Fail> {
        let (gb, dropped, live) = GuardedBuf::new(&payload);
        let root: R = EndianReader::new(gb, endian(big));
        let mut st = St::<KG> { readers: vec![root.clone()], wins: vec![Win { off: 0, len: n, emptied: false }] };
        let mut last_did = true;
        for &a in path {
            let (ri, ai) = (a as usize / na, a as usize % na);
            if ri >= st.readers.len() {
                return Ok(None);
            }
            last_did = apply::<KG>(&payload, big, &root, &mut st, ri, acts[ai], pool_max)?;
            if !last_did {
                return Ok(None);
            }
            for (r, w) in st.readers.iter().zip(st.wins.iter()) {
                observe::<KG>(&payload, &root, r, w, "step")?;
            }
            observe_pairs::<KG>(&st.readers, &st.wins, "step")?;
            // canaries intact, handles accounted for, buffer alive
            let d = &root.bytes();
            let _ = d;
            if live.get() < st.readers.len() as i64 + 1 {
                return Err(("liveness".into(), "handle-count-too-low".into(), format!("{} live handles for {} readers + root", live.get(), st.readers.len())));
            }
            if dropped.get() != 0 {
                return Err(("liveness".into(), "buffer-freed-while-readers-live".into(), "drop flag set mid-history".into()));
            }
        }
        let _ = last_did;
        let wins = st.wins.clone();
        // teardown: root first, then readers (forward for even-length paths,
        // backward for odd), checking the survivors after every drop
        drop(root);
        let mut readers: Vec<(R, Win)> = st.readers.into_iter().zip(st.wins.into_iter()).collect();
        if path.len() % 2 == 1 {
            readers.reverse();
        }
        while !readers.is_empty() {
            if dropped.get() != 0 {
                return Err(("liveness".into(), "buffer-freed-while-readers-live".into(), format!("{} readers still alive", readers.len())));
            }
            for (r, w) in &readers {
                let want = &payload[w.off..w.off + w.len];
                if r.bytes() != want {
                    return Err(("bytes".into(), "wrong-bytes-after-drop".into(), format!("window {:?}", w)));
                }
                let p = r.bytes().as_ptr() as usize;
                let _ = p;
            }
            readers.remove(0);
        }
        if dropped.get() != 1 || live.get() != 0 {
            return Err(("liveness".into(), "buffer-not-freed-exactly-once".into(), format!("dropped {} live {}", dropped.get(), live.get())));
        }
        Ok(Some(wins))
    };
    let init = P { path: vec![], wins: vec![Win { off: 0, len: n, emptied: false }] };
    let stats = bfs(
        ctx,
        "reader-history/EndianReader<GuardedBuf>",
        init,
        na * pool_max,
        64,
        |s: &P| s.wins.clone(),
        |s, a| {
            let mut p = s.path.clone();
            p.push(a as u16);
            Ok(run_path(&p)?.map(|wins| P { path: p, wins }))
        },
        |a| format!("r{}.{:?}", a / na, acts[a % na]),
    );
    ctx.nontriv(stats.states);
    ctx.outcome(&format!("closed:{}", stats.closed));
    ctx.outcome_n("states:EndianReader<GuardedBuf>", stats.states);
    if !stats.closed {
        ctx.machinery("GuardedBuf: exploration did not reach the fixed point".into());
    }
    if ctx.want_sample() {
        ctx.sample(format!("EndianReader<GuardedBuf> big_endian={} buffer={} pool<={}: {} states, {} transitions, every path re-executed on a fresh canary-guarded buffer and torn down", big, mcx::hex(&payload), pool_max, stats.states, stats.transitions));
    }
}

pub fn def(tier: Tier) -> CheckDef {
    let (n, pool) = tier.pick((8usize, 2usize), (10usize, 3usize));
    let (ng, poolg) = (8usize, 2usize); // cheap: thorough bound in both tiers
    def_sized(n, pool, ng, poolg)
}

/// 3-byte buffer, pool of 2, only the reader kinds with unsafe code (EndianReader
/// over Rc<[u8]> and over the custom buffer): small enough to run under Miri, which
/// checks the provenance and bounds of every raw-pointer access in SubRange.
pub fn def_small() -> CheckDef {
    let mut d = def_sized(3, 2, 3, 2);
    d.subs.clear();
    d.subs.push(Sub::new("miri-reader-histories-N3-pool2", 2, "BFS to the fixed point, EndianRcSlice and EndianReader<GuardedBuf>, 3-byte buffer, pool <= 2", |ctx, i| {
        if i == 0 {
            explore_kind::<KRc>(ctx, 3, 2, false)
        } else {
            explore_guarded(ctx, 3, 2, false)
        }
    }));
    d
}

fn def_sized(n: usize, pool: usize, ng: usize, poolg: usize) -> CheckDef {
    let mut subs = vec![];
    subs.push(
        Sub::new(
            &format!("reader-histories-N{}-pool{}", n, pool),
            10,
            "BFS to the fixed point over all histories of 37 reader operations applied to any of <= pool live readers on an N-byte buffer; 5 reader kinds x 2 byte orders; every live reader observed (len, bytes, zero-copy pointer, offset_from, offset ids, find, to_string*) after every transition",
            move |ctx, i| {
                let big = i % 2 == 1;
                match i / 2 {
                    0 => explore_kind::<KSlice>(ctx, n, pool, big),
                    1 => explore_kind::<KRc>(ctx, n, pool, big),
                    2 => explore_kind::<KArc>(ctx, n, pool, big),
                    3 => explore_kind::<KReloc>(ctx, n, pool, big),
                    _ => explore_kind::<KRelocRc>(ctx, n, pool, big),
                }
            },
        )
        .timeout(900),
    );
    subs.push(
        Sub::new(
            &format!("guarded-buffer-histories-N{}-pool{}", ng, poolg),
            2,
            "same exploration for EndianReader over a custom CloneStableDeref buffer with canaries, live-handle counter and drop flag; each transition re-executes its whole path on a fresh buffer and tears it down (root first, readers in both orders)",
            move |ctx, i| explore_guarded(ctx, ng, poolg, i == 1),
        )
        .timeout(900),
    );
    CheckDef {
        level: "model_checking",
        rule: "explicit-state BFS; state = ordered pool of reader windows (off,len,emptied); two histories reaching equal window vectors have equal futures because a reader's whole state is its window and byte order (SubRange{bytes,ptr,len}, EndianSlice{slice}); distinct_nontrivial = unique states".into(),
        assumptions: vec![
            "after the fix commit 'EndianSlice::empty keeps the reader position' positions stay observable after empty() for every reader kind".into(),
            "all reader kinds are compared with one cursor model, hence with each other".into(),
            "memory safety of ptr.add/from_raw_parts is observed through pointer-range checks, canary buffers and liveness flags here; provenance-level checking is the Miri run in the thorough tier".into(),
        ],
        subs,
        required_outcomes: vec!["closed:true".into()],
    }
}
