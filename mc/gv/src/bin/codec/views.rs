//! C10, first sentence, on whole-section parses: every reader handed back by
//! gimli's parsers (strings, blocks, expressions, nested expression operands,
//! line-program strings and buffers, CFI / location-list expressions, string
//! sections, name tables) is a zero-copy view of the right section at the right
//! offset, offset ids map back, and all reader kinds give identical results.
//!
//! Inputs are enumerated (no randomness): version x format x address size x
//! byte order x content variant. Well-formed sections come from gimli's own
//! writer (the oracle here is byte identity with the section plus a model of
//! the contents that went in); `.debug_aranges`, `.debug_pubnames`,
//! `.debug_pubtypes` and one extra line program are hand-encoded.
use gimli::write as gw;
use gimli::{
    AttributeValue, BaseAddresses, CfaRule, CieOrFde, DebugLineOffset, DebugLineStrOffset, DebugStrOffset, Dwarf, Encoding, EndianReader, EndianSlice, EvaluationResult, Expression, Format, LineEncoding, LineInstruction,
    Location, Operation, Reader, Register, RegisterRule, RelocateReader, RunTimeEndian, SectionId, UnwindContext, UnwindSection,
};
use mcx::enc::Enc;
use mcx::{guard, Ctx, Sub, Tier};
use std::borrow::Cow;
use std::rc::Rc;
use std::sync::Arc;

// ---------------------------------------------------------------------------
// Configuration space

const NVAR: u64 = 3;

#[derive(Clone, Copy, Debug)]
struct Cfg {
    version: u16,
    fmt64: bool,
    asize: u8,
    big: bool,
    variant: u8,
}

impl Cfg {
    fn decode(i: u64) -> Cfg {
        let mut m = mcx::space::Mix(i);
        let variant = m.take(NVAR) as u8;
        let big = m.flag();
        let asize = if m.flag() { 8 } else { 4 };
        let fmt64 = m.flag();
        let version = 2 + m.take(4) as u16;
        Cfg { version, fmt64, asize, big, variant }
    }
    fn format(&self) -> Format {
        if self.fmt64 {
            Format::Dwarf64
        } else {
            Format::Dwarf32
        }
    }
    fn word(&self) -> usize {
        if self.fmt64 {
            8
        } else {
            4
        }
    }
    fn endian(&self) -> RunTimeEndian {
        if self.big {
            RunTimeEndian::Big
        } else {
            RunTimeEndian::Little
        }
    }
    fn encoding(&self) -> Encoding {
        Encoding { format: self.format(), version: self.version, address_size: self.asize }
    }
}

// ---------------------------------------------------------------------------
// Model of what goes in: expression ops, expected contents

#[derive(Clone, Debug)]
enum XOp {
    Constu(u64),
    Fbreg(i64),
    Breg(u16, i64),
    Reg(u16),
    PlusUconst(u64),
    Deref,
    StackValue,
    CallFrameCfa,
    Piece(u64),
    Addr(u64),
    ImplicitValue(Vec<u8>),
    EntryValue(Vec<XOp>),
    ConstType(usize, Vec<u8>),
}

fn build_expr(ops: &[XOp], bases: &[gw::UnitEntryId]) -> gw::Expression {
    let mut e = gw::Expression::new();
    for op in ops {
        match op {
            XOp::Constu(v) => e.op_constu(*v),
            XOp::Fbreg(o) => e.op_fbreg(*o),
            XOp::Breg(r, o) => e.op_breg(Register(*r), *o),
            XOp::Reg(r) => e.op_reg(Register(*r)),
            XOp::PlusUconst(v) => e.op_plus_uconst(*v),
            XOp::Deref => e.op_deref(),
            XOp::StackValue => e.op(gimli::DW_OP_stack_value),
            XOp::CallFrameCfa => e.op(gimli::DW_OP_call_frame_cfa),
            XOp::Piece(n) => e.op_piece(*n),
            XOp::Addr(a) => e.op_addr(gw::Address::Constant(*a)),
            XOp::ImplicitValue(b) => e.op_implicit_value(b.clone().into_boxed_slice()),
            XOp::EntryValue(inner) => e.op_entry_value(build_expr(inner, bases)),
            XOp::ConstType(i, b) => e.op_const_type(bases[*i], b.clone().into_boxed_slice()),
        }
    }
    e
}

/// Expected bytes of a view: literal runs and "one ULEB128 of any value"
/// (the unit offset of a base type, which only the writer knows).
#[derive(Clone, Debug)]
enum Seg {
    Lit(Vec<u8>),
    AnyUleb,
}
type Pat = Vec<Seg>;

fn lit(out: &mut Pat, b: &[u8]) {
    if let Some(Seg::Lit(v)) = out.last_mut() {
        v.extend_from_slice(b);
    } else {
        out.push(Seg::Lit(b.to_vec()));
    }
}

fn flat(p: &Pat) -> Vec<u8> {
    let mut v = vec![];
    for s in p {
        match s {
            Seg::Lit(b) => v.extend_from_slice(b),
            Seg::AnyUleb => panic!("harness: wildcard inside a nested expression"),
        }
    }
    v
}

/// Opcode numbers transcribed from DWARF 5 section 7.7.1 and the GNU extensions.
fn lower(ops: &[XOp], cfg: &Cfg, out: &mut Pat) {
    for op in ops {
        let mut e = Enc::new(cfg.big);
        match op {
            XOp::Constu(v) => {
                if *v < 32 {
                    e.u8(0x30 + *v as u8);
                } else {
                    e.u8(0x10).uleb(*v);
                }
            }
            XOp::Fbreg(o) => {
                e.u8(0x91).sleb(*o);
            }
            XOp::Breg(r, o) => {
                assert!(*r < 32);
                e.u8(0x70 + *r as u8).sleb(*o);
            }
            XOp::Reg(r) => {
                assert!(*r < 32);
                e.u8(0x50 + *r as u8);
            }
            XOp::PlusUconst(v) => {
                e.u8(0x23).uleb(*v);
            }
            XOp::Deref => {
                e.u8(0x06);
            }
            XOp::StackValue => {
                e.u8(0x9f);
            }
            XOp::CallFrameCfa => {
                e.u8(0x9c);
            }
            XOp::Piece(n) => {
                e.u8(0x93).uleb(*n);
            }
            XOp::Addr(a) => {
                e.u8(0x03).addr(*a, cfg.asize);
            }
            XOp::ImplicitValue(b) => {
                e.u8(0x9e).uleb(b.len() as u64).bytes(b);
            }
            XOp::EntryValue(inner) => {
                let mut ip = vec![];
                lower(inner, cfg, &mut ip);
                let b = flat(&ip);
                e.u8(if cfg.version >= 5 { 0xa3 } else { 0xf3 }).uleb(b.len() as u64).bytes(&b);
            }
            XOp::ConstType(_, b) => {
                e.u8(if cfg.version >= 5 { 0xa4 } else { 0xf4 });
                lit(out, &e.buf);
                out.push(Seg::AnyUleb);
                let mut e2 = Enc::new(cfg.big);
                e2.u8(b.len() as u8).bytes(b);
                lit(out, &e2.buf);
                continue;
            }
        }
        lit(out, &e.buf);
    }
}

fn pat_match(p: &Pat, b: &[u8]) -> bool {
    let mut pos = 0usize;
    for s in p {
        match s {
            Seg::Lit(l) => {
                if b.len() < pos + l.len() || &b[pos..pos + l.len()] != &l[..] {
                    return false;
                }
                pos += l.len();
            }
            Seg::AnyUleb => loop {
                if pos >= b.len() {
                    return false;
                }
                let c = b[pos];
                pos += 1;
                if c & 0x80 == 0 {
                    break;
                }
            },
        }
    }
    pos == b.len()
}

struct Want {
    class: &'static str,
    pat: Pat,
    must_see: bool,
}

#[derive(Default)]
struct Expect {
    wants: Vec<Want>,
}

impl Expect {
    fn bytes(&mut self, class: &'static str, b: &[u8], must_see: bool) {
        self.wants.push(Want { class, pat: vec![Seg::Lit(b.to_vec())], must_see });
    }
    fn expr(&mut self, class: &'static str, ops: &[XOp], cfg: &Cfg) {
        let mut p = vec![];
        lower(ops, cfg, &mut p);
        self.wants.push(Want { class, pat: p, must_see: true });
        self.nested(ops, cfg);
    }
    fn nested(&mut self, ops: &[XOp], cfg: &Cfg) {
        for op in ops {
            match op {
                XOp::ImplicitValue(b) => self.bytes("implicit", b, true),
                XOp::EntryValue(inner) => {
                    let mut ip = vec![];
                    lower(inner, cfg, &mut ip);
                    self.bytes("entry", &flat(&ip), true);
                    self.nested(inner, cfg);
                }
                XOp::ConstType(_, b) => self.bytes("typed", b, true),
                _ => {}
            }
        }
    }
}

/// Distinct, aperiodic payload bytes: a shift by any amount changes them.
fn payload(seed: u8, n: usize) -> Vec<u8> {
    (0..n).map(|i| seed.wrapping_add((i as u8).wrapping_mul(7)).wrapping_add((i * i) as u8) | 1).collect()
}

// ---------------------------------------------------------------------------
// The image: section bytes + what is known about them

struct Image {
    secs: Vec<(SectionId, Vec<u8>)>,
}

impl Image {
    fn get(&self, id: SectionId) -> &[u8] {
        for (s, b) in &self.secs {
            if *s == id {
                return b;
            }
        }
        &[]
    }
}

struct Gen {
    img: Image,
    exp: Expect,
    /// key -> (offset, len) of hand-placed views whose position is known exactly
    known: Vec<(String, usize, usize)>,
    /// offset of the hand-encoded extra line program in .debug_line
    xline_off: usize,
}

impl Gen {
    fn known(&self, key: &str) -> Option<(usize, Option<usize>)> {
        self.known.iter().find(|k| k.0 == key).map(|k| (k.1, Some(k.2)))
    }
}

#[derive(Clone, Copy, PartialEq)]
enum SForm {
    Inline,
    Strp,
    LineStrp,
}

fn line_forms(cfg: &Cfg) -> (SForm, SForm) {
    if cfg.version >= 5 {
        match cfg.variant {
            0 => (SForm::Inline, SForm::Strp),
            1 => (SForm::Strp, SForm::LineStrp),
            _ => (SForm::LineStrp, SForm::Inline),
        }
    } else {
        (SForm::Inline, SForm::Inline)
    }
}

fn comp_dir_form(cfg: &Cfg) -> SForm {
    if cfg.version >= 5 {
        SForm::LineStrp
    } else if cfg.variant == 1 {
        SForm::Strp
    } else {
        SForm::Inline
    }
}

fn mk_ls(d: &mut gw::Dwarf, exp: &mut Expect, form: SForm, s: &str, emitted: bool) -> gw::LineString {
    exp.bytes("line-path", s.as_bytes(), emitted);
    match form {
        SForm::Inline => gw::LineString::String(s.as_bytes().to_vec()),
        SForm::Strp => {
            exp.bytes("debug_str", s.as_bytes(), true);
            gw::LineString::StringRef(d.strings.add(s.as_bytes()))
        }
        SForm::LineStrp => {
            exp.bytes("debug_line_str", s.as_bytes(), true);
            gw::LineString::LineStringRef(d.line_strings.add(s.as_bytes()))
        }
    }
}

fn build_line(d: &mut gw::Dwarf, exp: &mut Expect, cfg: &Cfg, u: usize) -> (gw::LineProgram, Vec<gw::FileId>) {
    let (df, ff) = line_forms(cfg);
    let v5 = cfg.version >= 5;
    let wd = mk_ls(d, exp, df, &format!("/u{}/work_directory", u), v5);
    let src = mk_ls(d, exp, ff, &format!("unit{}_primary_source.c", u), v5);
    let mut p = gw::LineProgram::new(cfg.encoding(), LineEncoding::default(), wd, None, src, None);
    if v5 && cfg.variant == 1 {
        p.file_has_timestamp = true;
        p.file_has_size = true;
        p.file_has_md5 = true;
    }
    if v5 && cfg.variant == 2 {
        p.file_has_source = true;
        exp.bytes("line-source", b"", true);
        exp.bytes("debug_line_str", b"", true);
    }
    let d1 = mk_ls(d, exp, df, &format!("include/u{}/alpha", u), true);
    let d1 = p.add_directory(d1);
    let d2 = mk_ls(d, exp, df, &format!("/usr/include/u{}/beta-gamma", u), true);
    let d2 = p.add_directory(d2);
    let mut files = vec![];
    for (k, (name, dir)) in [("first_header.h", d1), ("second_file_with_long_name.c", d2), ("third.inc", p.default_directory())].into_iter().enumerate() {
        let ls = mk_ls(d, exp, ff, &format!("u{}_{}", u, name), true);
        let mut info = gw::FileInfo { timestamp: 1000 + k as u64, size: 77 * (k as u64 + 1), md5: [0; 16], source: None };
        for (j, b) in info.md5.iter_mut().enumerate() {
            *b = (16 * k + j) as u8 ^ 0x5a;
        }
        if v5 && cfg.variant == 2 && k != 2 {
            let text = format!("int u{}_source_text_{}(void);\n", u, k);
            exp.bytes("line-source", text.as_bytes(), true);
            exp.bytes("debug_line_str", text.as_bytes(), true);
            info.source = Some(gw::LineString::LineStringRef(d.line_strings.add(text.as_bytes())));
        }
        files.push(p.add_file(ls, dir, Some(info)));
    }
    let base = 0x1000 + 0x1000 * u as u64;
    p.begin_sequence(Some(gw::Address::Constant(base)));
    p.row().file = files[0];
    p.row().line = 10;
    p.row().column = 3;
    p.generate_row();
    p.row().address_offset = 4;
    p.row().line = 12;
    p.row().prologue_end = cfg.version >= 3;
    p.generate_row();
    p.row().address_offset = 9;
    p.row().file = files[1];
    p.row().line = 7;
    p.row().is_statement = false;
    if cfg.version >= 4 {
        p.row().discriminator = 5;
    }
    p.generate_row();
    p.row().address_offset = 300;
    p.row().line = 2000;
    p.generate_row();
    p.end_sequence(320);
    p.begin_sequence(Some(gw::Address::Constant(base + 0x800)));
    p.row().file = files[2];
    p.row().line = 100;
    p.generate_row();
    p.row().address_offset = 32;
    p.row().line = 99;
    p.row().basic_block = true;
    p.generate_row();
    p.end_sequence(40);
    (p, files)
}

fn attr_str(d: &mut gw::Dwarf, exp: &mut Expect, form: SForm, s: &str) -> gw::AttributeValue {
    match form {
        SForm::Inline => {
            exp.bytes("str-inline", s.as_bytes(), true);
            gw::AttributeValue::String(s.as_bytes().to_vec())
        }
        SForm::Strp => {
            exp.bytes("str-strp", s.as_bytes(), true);
            exp.bytes("debug_str", s.as_bytes(), true);
            gw::AttributeValue::StringRef(d.strings.add(s.as_bytes()))
        }
        SForm::LineStrp => {
            exp.bytes("str-line_strp", s.as_bytes(), true);
            exp.bytes("debug_line_str", s.as_bytes(), true);
            gw::AttributeValue::LineStringRef(d.line_strings.add(s.as_bytes()))
        }
    }
}

fn build_unit(d: &mut gw::Dwarf, exp: &mut Expect, cfg: &Cfg, u: usize) {
    use gw::AttributeValue as AV;
    let (lp, files) = build_line(d, exp, cfg, u);
    let mut unit = gw::Unit::new(cfg.encoding(), lp);
    let root = unit.root();
    let seed = (u as u8) * 0x40 + cfg.variant * 0x11;
    let base_pc = 0x1000 + 0x1000 * u as u64;

    let name = format!("unit{}_primary_source.c", u);
    let v = attr_str(d, exp, SForm::Strp, &name);
    exp.bytes("line-path", name.as_bytes(), false); // file(0) of a version <= 4 program is the unit name
    unit.get_mut(root).set(gimli::DW_AT_name, v);
    let v = attr_str(d, exp, SForm::Inline, &format!("gimli-views generator u{} variant {}", u, cfg.variant));
    unit.get_mut(root).set(gimli::DW_AT_producer, v);
    let cd = format!("/u{}/compilation_dir", u);
    let v = attr_str(d, exp, comp_dir_form(cfg), &cd);
    exp.bytes("line-path", cd.as_bytes(), false); // directory(0) of a version <= 4 program
    unit.get_mut(root).set(gimli::DW_AT_comp_dir, v);
    unit.get_mut(root).set(gimli::DW_AT_low_pc, AV::Address(gw::Address::Constant(base_pc)));
    unit.get_mut(root).set(gimli::DW_AT_stmt_list, AV::LineProgramRef);

    // base types (the writer moves them to the front)
    let b0 = unit.add(root, gimli::DW_TAG_base_type);
    let v = attr_str(d, exp, SForm::Inline, &format!("int_u{}", u));
    unit.get_mut(b0).set(gimli::DW_AT_name, v);
    unit.get_mut(b0).set(gimli::DW_AT_encoding, AV::Encoding(gimli::DW_ATE_signed));
    unit.get_mut(b0).set(gimli::DW_AT_byte_size, AV::Udata(4));
    let b1 = unit.add(root, gimli::DW_TAG_base_type);
    let v = attr_str(d, exp, SForm::Strp, &format!("unsigned long long u{}", u));
    unit.get_mut(b1).set(gimli::DW_AT_name, v);
    unit.get_mut(b1).set(gimli::DW_AT_encoding, AV::Encoding(gimli::DW_ATE_unsigned));
    unit.get_mut(b1).set(gimli::DW_AT_byte_size, AV::Udata(8));
    let bases = [b0, b1];

    let set_expr = |unit: &mut gw::Unit, exp: &mut Expect, id: gw::UnitEntryId, at: gimli::DwAt, ops: Vec<XOp>| {
        exp.expr("expr", &ops, cfg);
        unit.get_mut(id).set(at, AV::Exprloc(build_expr(&ops, &bases)));
    };

    // subprogram
    let sp = unit.add(root, gimli::DW_TAG_subprogram);
    let v = attr_str(d, exp, SForm::Inline, &format!("u{}_main_function", u));
    unit.get_mut(sp).set(gimli::DW_AT_name, v);
    unit.get_mut(sp).set(gimli::DW_AT_low_pc, AV::Address(gw::Address::Constant(base_pc + 0x10)));
    unit.get_mut(sp).set(gimli::DW_AT_decl_file, AV::FileIndex(Some(files[0])));
    unit.get_mut(sp).set(gimli::DW_AT_decl_line, AV::Udata(10));
    unit.get_mut(sp).set(gimli::DW_AT_external, AV::Flag(true));
    unit.get_mut(sp).set_sibling(true);
    set_expr(&mut unit, exp, sp, gimli::DW_AT_frame_base, vec![XOp::Breg(7, 8), XOp::PlusUconst(0x1234_5678 + u as u64)]);
    let rl = unit.ranges.add(gw::RangeList(vec![
        gw::Range::OffsetPair { begin: 0x10, end: 0x20 },
        gw::Range::BaseAddress { address: gw::Address::Constant(0x7000 + base_pc) },
        gw::Range::OffsetPair { begin: 4, end: 8 },
    ]));
    unit.get_mut(sp).set(gimli::DW_AT_ranges, AV::RangeListRef(rl));

    let par = unit.add(sp, gimli::DW_TAG_formal_parameter);
    let v = attr_str(d, exp, SForm::Strp, &format!("argument_u{}", u));
    unit.get_mut(par).set(gimli::DW_AT_name, v);
    unit.get_mut(par).set(gimli::DW_AT_type, AV::UnitRef(b0));
    set_expr(&mut unit, exp, par, gimli::DW_AT_location, vec![XOp::Fbreg(16 + u as i64)]);

    let v1 = unit.add(sp, gimli::DW_TAG_variable);
    let v = attr_str(d, exp, SForm::Strp, &format!("local_pieces_u{}", u));
    unit.get_mut(v1).set(gimli::DW_AT_name, v);
    unit.get_mut(v1).set(gimli::DW_AT_decl_file, AV::FileIndex(Some(files[1])));
    set_expr(
        &mut unit,
        exp,
        v1,
        gimli::DW_AT_location,
        vec![
            XOp::ImplicitValue(payload(seed + 1, 21)),
            XOp::Piece(21),
            XOp::EntryValue(vec![XOp::Reg(5)]),
            XOp::StackValue,
            XOp::Piece(8),
            XOp::EntryValue(vec![XOp::Breg(6, -40 - u as i64), XOp::Deref, XOp::EntryValue(vec![XOp::Reg(2 + u as u16)]), XOp::PlusUconst(300)]),
            XOp::StackValue,
            XOp::Piece(4),
        ],
    );

    let v2 = unit.add(sp, gimli::DW_TAG_variable);
    let v = attr_str(d, exp, SForm::Inline, &format!("typed_u{}", u));
    unit.get_mut(v2).set(gimli::DW_AT_name, v);
    unit.get_mut(v2).set(gimli::DW_AT_type, AV::UnitRef(b1));
    set_expr(
        &mut unit,
        exp,
        v2,
        gimli::DW_AT_location,
        vec![XOp::ConstType(0, payload(seed + 2, 4)), XOp::StackValue, XOp::Piece(4), XOp::ConstType(1, payload(seed + 3, 8)), XOp::StackValue, XOp::Piece(8), XOp::Fbreg(-24), XOp::Piece(4)],
    );

    // nested scope with a location list and a block constant
    let lb = unit.add(sp, gimli::DW_TAG_lexical_block);
    unit.get_mut(lb).set(gimli::DW_AT_low_pc, AV::Address(gw::Address::Constant(base_pc + 0x20)));
    let v3 = unit.add(lb, gimli::DW_TAG_variable);
    let v = attr_str(d, exp, SForm::Inline, &format!("listed_u{}", u));
    unit.get_mut(v3).set(gimli::DW_AT_name, v);
    let mut locs = vec![];
    let mut loc_ops: Vec<Vec<XOp>> = vec![
        vec![XOp::Reg(3)],
        vec![XOp::ImplicitValue(payload(seed + 4, 18))],
        vec![XOp::Fbreg(-8), XOp::Deref, XOp::Constu(0xdead_beef), XOp::PlusUconst(77), XOp::StackValue],
    ];
    for o in &loc_ops {
        exp.expr("expr-loc", o, cfg);
    }
    locs.push(gw::Location::OffsetPair { begin: 0x10, end: 0x20, data: build_expr(&loc_ops[0], &bases) });
    locs.push(gw::Location::OffsetPair { begin: 0x20, end: 0x30, data: build_expr(&loc_ops[1], &bases) });
    locs.push(gw::Location::BaseAddress { address: gw::Address::Constant(0x5000 + base_pc) });
    locs.push(gw::Location::OffsetPair { begin: 1, end: 9, data: build_expr(&loc_ops[2], &bases) });
    if cfg.version >= 5 {
        let a = vec![XOp::EntryValue(vec![XOp::Breg(6, u as i64)]), XOp::StackValue];
        let b = vec![XOp::Constu(77 + u as u64), XOp::StackValue];
        exp.expr("expr-loc", &a, cfg);
        exp.expr("expr-loc", &b, cfg);
        locs.push(gw::Location::StartLength { begin: gw::Address::Constant(0x6000), length: 0x10, data: build_expr(&a, &bases) });
        locs.push(gw::Location::DefaultLocation { data: build_expr(&b, &bases) });
        loc_ops.push(a);
        loc_ops.push(b);
    }
    let ll = unit.locations.add(gw::LocationList(locs));
    unit.get_mut(v3).set(gimli::DW_AT_location, AV::LocationListRef(ll));

    let v4 = unit.add(lb, gimli::DW_TAG_variable);
    let v = attr_str(d, exp, SForm::Strp, &format!("const_block_u{}", u));
    unit.get_mut(v4).set(gimli::DW_AT_name, v);
    let blk = payload(seed + 5, 19 + 3 * cfg.variant as usize);
    exp.bytes("block", &blk, true);
    unit.get_mut(v4).set(gimli::DW_AT_const_value, AV::Block(blk));

    // a global after the subprogram
    let g = unit.add(root, gimli::DW_TAG_variable);
    let v = attr_str(d, exp, SForm::Inline, &format!("global_u{}", u));
    unit.get_mut(g).set(gimli::DW_AT_name, v);
    unit.get_mut(g).set(gimli::DW_AT_type, AV::UnitRef(b0));
    set_expr(&mut unit, exp, g, gimli::DW_AT_location, vec![XOp::Addr(0x0102_0304 + u as u64)]);
    if cfg.variant == 2 {
        let ns = unit.add(root, gimli::DW_TAG_namespace);
        let v = attr_str(d, exp, SForm::Strp, &format!("name_space_u{}", u));
        unit.get_mut(ns).set(gimli::DW_AT_name, v);
        let inner = unit.add(ns, gimli::DW_TAG_variable);
        let v = attr_str(d, exp, SForm::Inline, &format!("inner_u{}", u));
        unit.get_mut(inner).set(gimli::DW_AT_name, v);
        let blk = payload(seed + 6, 3);
        exp.bytes("block", &blk, true);
        unit.get_mut(inner).set(gimli::DW_AT_const_value, AV::Block(blk));
    }
    d.units.add(unit);
}

fn cfi_exprs(cfg: &Cfg) -> Vec<Vec<XOp>> {
    let s = cfg.variant * 0x21;
    vec![
        vec![XOp::Breg(7, 8), XOp::Deref, XOp::PlusUconst(0x1234_5678), XOp::Constu(0xdead_beef_0000 + s as u64), XOp::Deref, XOp::PlusUconst(16)],
        vec![XOp::Breg(6, -16), XOp::Deref],
        vec![XOp::CallFrameCfa, XOp::EntryValue(vec![XOp::Reg(5), XOp::PlusUconst(900 + s as u64)]), XOp::PlusUconst(0x7fff_ffff), XOp::Constu(0x1_0000_0001), XOp::StackValue],
        vec![XOp::ImplicitValue(payload(0x33 + s, 17)), XOp::Breg(3, 1)],
        vec![XOp::Breg(7, 0)],
    ]
}

fn build_frames(cfg: &Cfg, eh: bool) -> gw::FrameTable {
    use gw::CallFrameInstruction as I;
    let cfi_version = if eh {
        1
    } else {
        match cfg.version {
            2 => 1,
            3 => 3,
            _ => 4,
        }
    };
    let enc = Encoding { format: cfg.format(), version: cfi_version, address_size: cfg.asize };
    let ex: Vec<gw::Expression> = cfi_exprs(cfg).iter().map(|o| build_expr(o, &[])).collect();
    let mut t = gw::FrameTable::default();
    let mut cie = gw::CommonInformationEntry::new(enc, 1, -8, Register(16));
    cie.add_instruction(I::Cfa(Register(7), 8));
    cie.add_instruction(I::Offset(Register(16), -8));
    if cfg.variant >= 1 {
        cie.add_instruction(I::ValExpression(Register(3), ex[4].clone()));
    }
    if eh {
        cie.personality = Some((gimli::DW_EH_PE_absptr, gw::Address::Constant(0x4000)));
        cie.lsda_encoding = Some(gimli::DW_EH_PE_absptr);
    }
    let c0 = t.add_cie(cie);
    let mut f = gw::FrameDescriptionEntry::new(gw::Address::Constant(0x1000), 0x40);
    if eh {
        f.lsda = Some(gw::Address::Constant(0x9000));
    }
    f.add_instruction(1, I::CfaOffset(16));
    f.add_instruction(4, I::Offset(Register(6), -16));
    f.add_instruction(4, I::RememberState);
    f.add_instruction(8, I::CfaExpression(ex[0].clone()));
    f.add_instruction(12, I::Expression(Register(6), ex[1].clone()));
    f.add_instruction(16, I::ValExpression(Register(3), ex[2].clone()));
    f.add_instruction(20, I::RestoreState);
    f.add_instruction(24, I::Cfa(Register(6), 16));
    t.add_fde(c0, f);
    let c1 = if cfg.variant == 1 {
        let mut cie = gw::CommonInformationEntry::new(enc, 1, -4, Register(17));
        cie.add_instruction(I::Cfa(Register(4), 4));
        if eh {
            cie.signal_trampoline = true;
        }
        t.add_cie(cie)
    } else {
        c0
    };
    let mut f = gw::FrameDescriptionEntry::new(gw::Address::Constant(0x2000), 0x20000);
    if eh && c1 == c0 {
        f.lsda = Some(gw::Address::Constant(0x9100));
    }
    f.add_instruction(2, I::ValExpression(Register(5), ex[3].clone()));
    f.add_instruction(0x50, I::SameValue(Register(6)));
    f.add_instruction(0x150, I::Undefined(Register(3)));
    f.add_instruction(0x10150, I::Register(Register(2), Register(1)));
    f.add_instruction(0x10150, I::ArgsSize(32));
    t.add_fde(c1, f);
    if cfg.variant == 2 {
        let mut f = gw::FrameDescriptionEntry::new(gw::Address::Constant(0x40000), 0x10);
        if eh {
            f.lsda = Some(gw::Address::Constant(0x9200));
        }
        f.add_instruction(3, I::CfaExpression(ex[1].clone()));
        f.add_instruction(5, I::Restore(Register(16)));
        t.add_fde(c0, f);
    }
    t
}

fn rd(b: &[u8], off: usize, n: usize, big: bool) -> u64 {
    let mut v = 0u64;
    for i in 0..n {
        let x = b[off + if big { i } else { n - 1 - i }];
        v = (v << 8) | x as u64;
    }
    v
}

/// (offset, unit_length incl. the length field) of each unit in .debug_info.
fn unit_extents(info: &[u8], big: bool) -> Vec<(u64, u64)> {
    let mut out = vec![];
    let mut off = 0usize;
    while off < info.len() {
        let first = rd(info, off, 4, big);
        let (len, lsz) = if first == 0xffff_ffff { (rd(info, off + 4, 8, big), 12) } else { (first, 4) };
        out.push((off as u64, len + lsz));
        off += (len + lsz) as usize;
    }
    out
}

fn build_pub(cfg: &Cfg, units: &[(u64, u64)], key: &str, stem: &str, exp_class: &'static str, exp: &mut Expect, known: &mut Vec<(String, usize, usize)>) -> Vec<u8> {
    let mut sec = Enc::new(cfg.big);
    let mut k = 0;
    for (u, (uoff, ulen)) in units.iter().enumerate() {
        let hdr = if cfg.fmt64 { 12 } else { 4 } + 2 + 2 * cfg.word();
        let mut body = Enc::new(cfg.big);
        body.u16(2).offset(*uoff, cfg.fmt64).offset(*ulen, cfg.fmt64);
        for j in 0..(2 + u) {
            let name = format!("{}_{}_of_unit{}_with_a_long_tail", stem, j, u);
            body.offset(0x20 + 7 * j as u64, cfg.fmt64);
            let pos = sec.len() + hdr - (2 + 2 * cfg.word()) + body.len();
            known.push((format!("{}.{}", key, k), pos, name.len()));
            exp.bytes(exp_class, name.as_bytes(), true);
            body.cstr(name.as_bytes());
            k += 1;
        }
        body.offset(0, cfg.fmt64);
        sec.with_length(cfg.fmt64, &body);
    }
    sec.buf
}

fn build_aranges(cfg: &Cfg, units: &[(u64, u64)]) -> Vec<u8> {
    let mut sec = Enc::new(cfg.big);
    for (u, (uoff, _)) in units.iter().enumerate() {
        let mut body = Enc::new(cfg.big);
        body.u16(2).offset(*uoff, cfg.fmt64).u8(cfg.asize).u8(0);
        let hdr = if cfg.fmt64 { 12 } else { 4 } + body.len();
        let tuple = 2 * cfg.asize as usize;
        let pad = (tuple - hdr % tuple) % tuple;
        body.bytes(&vec![0u8; pad]);
        body.addr(0x1000 + 0x1000 * u as u64, cfg.asize).addr(0x140, cfg.asize);
        body.addr(0x1800 + 0x1000 * u as u64, cfg.asize).addr(0x28, cfg.asize);
        body.addr(0, cfg.asize).addr(0, cfg.asize);
        sec.with_length(cfg.fmt64, &body);
    }
    sec.buf
}

/// A version <= 4 line program with DW_LNE_define_file, an unknown extended
/// opcode and an unknown standard opcode with two operands; every string and
/// operand position is recorded.
fn build_xline(cfg: &Cfg, base: usize, exp: &mut Expect, known: &mut Vec<(String, usize, usize)>) -> Vec<u8> {
    let version = cfg.version.min(4);
    let pre = if cfg.fmt64 { 12 } else { 4 } + 2 + cfg.word(); // length, version, header_length
    let mut h = Enc::new(cfg.big); // after header_length
    h.u8(1);
    if version >= 4 {
        h.u8(1);
    }
    h.u8(1).u8(0xfb).u8(14).u8(14);
    known.push(("xline.stdlens".into(), base + pre + h.len(), 13));
    h.bytes(&[0, 1, 1, 1, 1, 0, 0, 0, 1, 0, 0, 1, 2]);
    for (i, dname) in ["xline_dir_alpha", "/xline/dir/beta"].iter().enumerate() {
        known.push((format!("xline.dir{}", i + 1), base + pre + h.len(), dname.len()));
        exp.bytes("line-path", dname.as_bytes(), true);
        h.cstr(dname.as_bytes());
    }
    h.u8(0);
    for (i, (f, dir)) in [("xline_file_one.c", 1u64), ("xline_file_two.h", 2)].iter().enumerate() {
        known.push((format!("xline.file{}", i + 1), base + pre + h.len(), f.len()));
        exp.bytes("line-path", f.as_bytes(), true);
        h.cstr(f.as_bytes()).uleb(*dir).uleb(5 + i as u64).uleb(900 + i as u64);
    }
    h.u8(0);
    let pstart = base + pre + h.len();
    let mut p = Enc::new(cfg.big);
    p.u8(0).uleb(1 + cfg.asize as u64).u8(2).addr(0x7_7000, cfg.asize);
    p.u8(13);
    known.push(("xline.stdn".into(), pstart + p.len(), 3));
    p.uleb(0x85).uleb(7);
    let df = "xline_defined_file.c";
    p.u8(0).uleb(1 + df.len() as u64 + 1 + 3).u8(3);
    known.push(("xline.defile".into(), pstart + p.len(), df.len()));
    p.cstr(df.as_bytes()).uleb(1).uleb(2).uleb(3);
    let blob = payload(0x61 + cfg.variant, 19);
    p.u8(0).uleb(1 + blob.len() as u64).u8(0x80);
    known.push(("xline.ext".into(), pstart + p.len(), blob.len()));
    p.bytes(&blob);
    p.u8(1).u8(2).uleb(4).u8(0x20).u8(0).uleb(1).u8(1);
    known.push(("xline.progbuf".into(), pstart, p.len()));
    let mut body = Enc::new(cfg.big);
    body.u16(version).offset(h.len() as u64, cfg.fmt64).append(&h).append(&p);
    let mut out = Enc::new(cfg.big);
    out.with_length(cfg.fmt64, &body);
    out.buf
}

fn generate(cfg: &Cfg) -> Result<Gen, String> {
    let mut exp = Expect::default();
    let mut d = gw::Dwarf::new();
    for u in 0..2 {
        build_unit(&mut d, &mut exp, cfg, u);
    }
    let mut s = gw::Sections::new(gw::EndianVec::new(cfg.endian()));
    d.write(&mut s).map_err(|e| format!("write::Dwarf::write: {:?}", e))?;
    build_frames(cfg, false).write_debug_frame(&mut s.debug_frame).map_err(|e| format!("write_debug_frame: {:?}", e))?;
    build_frames(cfg, true).write_eh_frame(&mut s.eh_frame).map_err(|e| format!("write_eh_frame: {:?}", e))?;
    // CFI expressions are written with the CIE's encoding, whose version is a
    // CFI version (1, 3, 4): the writer picks the GNU opcodes there.
    let cfi_cfg = Cfg { version: 4, ..*cfg };
    for (k, o) in cfi_exprs(cfg).iter().enumerate() {
        if k == 4 && cfg.variant == 0 {
            continue; // only used by the CIE of variants 1, 2
        }
        exp.expr("expr-cfi", o, &cfi_cfg);
    }
    let mut known = vec![];
    let info = s.debug_info.0.slice().to_vec();
    let units = unit_extents(&info, cfg.big);
    let mut line = s.debug_line.0.slice().to_vec();
    let xline_off = line.len();
    let x = build_xline(cfg, xline_off, &mut exp, &mut known);
    line.extend_from_slice(&x);
    let pubnames = build_pub(cfg, &units, "pubnames", "public_function", "pubnames-name", &mut exp, &mut known);
    let pubtypes = build_pub(cfg, &units, "pubtypes", "public_type", "pubtypes-name", &mut exp, &mut known);
    let aranges = build_aranges(cfg, &units);
    let secs = vec![
        (SectionId::DebugAbbrev, s.debug_abbrev.0.slice().to_vec()),
        (SectionId::DebugInfo, info),
        (SectionId::DebugLine, line),
        (SectionId::DebugLineStr, s.debug_line_str.0.slice().to_vec()),
        (SectionId::DebugStr, s.debug_str.0.slice().to_vec()),
        (SectionId::DebugRanges, s.debug_ranges.0.slice().to_vec()),
        (SectionId::DebugRngLists, s.debug_rnglists.0.slice().to_vec()),
        (SectionId::DebugLoc, s.debug_loc.0.slice().to_vec()),
        (SectionId::DebugLocLists, s.debug_loclists.0.slice().to_vec()),
        (SectionId::DebugFrame, s.debug_frame.0.slice().to_vec()),
        (SectionId::EhFrame, s.eh_frame.0.slice().to_vec()),
        (SectionId::DebugAranges, aranges),
        (SectionId::DebugPubNames, pubnames),
        (SectionId::DebugPubTypes, pubtypes),
    ];
    Ok(Gen { img: Image { secs }, exp, known, xline_off })
}

// ---------------------------------------------------------------------------
// The generic parse walk

#[derive(Clone, Debug, PartialEq, Eq)]
struct Item {
    label: String,
    /// expectation class ("" = position-only view)
    xc: &'static str,
    sec: SectionId,
    off: usize,
    len: usize,
}

type Fail = (String, String, String, String);

struct Walk<'i, R: Reader<Offset = usize>> {
    g: &'i Gen,
    cfg: Cfg,
    kind: &'static str,
    roots: Vec<(SectionId, R)>,
    items: Vec<Item>,
    dump: Vec<String>,
    fails: Vec<Fail>,
}

fn in_dwarf(id: SectionId) -> bool {
    !matches!(id, SectionId::DebugFrame | SectionId::EhFrame | SectionId::DebugPubNames | SectionId::DebugPubTypes)
}

fn variant_name<T: std::fmt::Debug>(t: &T) -> String {
    let s = format!("{:?}", t);
    s.split(|c| c == '(' || c == ' ' || c == '{').next().unwrap_or("").to_string()
}

fn loc_sec(enc: Encoding) -> SectionId {
    if enc.version >= 5 {
        SectionId::DebugLocLists
    } else {
        SectionId::DebugLoc
    }
}

impl<'i, R: Reader<Offset = usize>> Walk<'i, R> {
    fn root(&self, id: SectionId) -> Option<&R> {
        self.roots.iter().find(|r| r.0 == id).map(|r| &r.1)
    }

    fn line(&mut self, s: String) {
        self.dump.push(s);
    }

    /// Checks (a)-(e) on one reader handed back by gimli, then records it.
    /// `reported` = (offset, optional length) that gimli or the generator
    /// states for this view.
    fn view(&mut self, dwarf: &Dwarf<R>, entry: &str, label: String, xc: &'static str, want: SectionId, r: &R, reported: Option<(usize, Option<usize>)>) {
        let what = format!("{} {} (from {}) expected in {}", self.kind, label, entry, want.name());
        let res: Result<(usize, usize), (&'static str, &'static str, String)> = (|| {
            let root = self.root(want).ok_or(("harness", "no-root-reader", what.clone()))?;
            let id = r.offset_id();
            // (a) the id maps back into the section the view must come from
            let off = if in_dwarf(want) {
                match dwarf.lookup_offset_id(id) {
                    Some((false, s, o)) if s == want => o,
                    other => return Err(("offset-id", "offset-id-not-in-expected-section", format!("{}: Dwarf::lookup_offset_id -> {:?}", what, other.map(|(sup, s, o)| (sup, s.name(), o))))),
                }
            } else {
                match root.lookup_offset_id(id) {
                    Some(o) => o,
                    None => return Err(("offset-id", "offset-id-not-in-expected-section", format!("{}: section reader lookup_offset_id -> None", what))),
                }
            };
            if root.lookup_offset_id(id) != Some(off) {
                return Err(("offset-id", "wrong-offset-id", format!("{}: Dwarf says {} but the section reader says {:?}", what, off, root.lookup_offset_id(id))));
            }
            let sec = self.g.img.get(want);
            let len = r.len();
            // bounds first, so that offset_from's contract holds
            if off > sec.len() || len > sec.len() - off {
                return Err(("bounds", "view-outside-section", format!("{}: offset {} len {} in a section of {} bytes", what, off, len, sec.len())));
            }
            // (b)
            let of = r.offset_from(root);
            if of != off {
                return Err(("offset_from", "wrong-offset", format!("{}: offset_from {} but offset id maps to {}", what, of, off)));
            }
            // (c)
            let s = r.to_slice().map_err(|e| ("bytes", "to_slice-error", format!("{}: {:?}", what, e)))?;
            if &s[..] != &sec[off..off + len] {
                return Err(("bytes", "wrong-bytes", format!("{}: at {} len {}: view {} section {}", what, off, len, mcx::hex(&s), mcx::hex(&sec[off..off + len]))));
            }
            // (d)
            let rs = root.to_slice().map_err(|e| ("zero-copy", "to_slice-error", format!("{}: root {:?}", what, e)))?;
            match (&s, &rs) {
                (Cow::Borrowed(b), Cow::Borrowed(rb)) => {
                    if b.as_ptr() != rb.as_ptr().wrapping_add(off) || b.len() != len {
                        return Err(("zero-copy", "copied-or-misplaced-view", format!("{}: data at {:p}, section buffer {:p} + {}", what, b.as_ptr(), rb.as_ptr(), off)));
                    }
                }
                _ => return Err(("zero-copy", "copied-or-misplaced-view", format!("{}: to_slice returned an owned copy", what))),
            }
            // (e) clones are independent cursors
            let mut c = r.clone();
            let mut buf = vec![0u8; len];
            if c.read_slice(&mut buf).is_err() || buf != &sec[off..off + len] || !c.is_empty() {
                return Err(("clone-independence", "clone-reads-other-bytes", format!("{}: clone read {}", what, mcx::hex(&buf))));
            }
            if len > 1 {
                let mut c2 = r.clone();
                let head = c2.split(len / 2).map_err(|e| ("clone-independence", "split-error", format!("{}: {:?}", what, e)))?;
                if head.offset_from(root) != off || c2.offset_from(root) != off + len / 2 || c2.len() != len - len / 2 {
                    return Err(("clone-independence", "split-misplaced", what.clone()));
                }
            }
            drop(c);
            if r.len() != len || r.offset_id() != id || r.to_slice().map(|x| x[..] != sec[off..off + len]).unwrap_or(true) {
                return Err(("clone-independence", "original-changed-by-clone", what.clone()));
            }
            if let Some((ro, rl)) = reported {
                if ro != off || rl.map_or(false, |l| l != len) {
                    return Err(("reported-offset", "view-not-at-reported-offset", format!("{}: view at {} len {}, reported {} len {:?}", what, off, len, ro, rl)));
                }
            }
            Ok((off, len))
        })();
        match res {
            Ok((off, len)) => self.items.push(Item { label, xc, sec: want, off, len }),
            Err((site, kind, detail)) => {
                self.items.push(Item { label, xc, sec: want, off: usize::MAX, len: r.len() });
                self.fails.push((entry.to_string(), site.to_string(), kind.to_string(), detail));
            }
        }
    }

    /// A string-valued attribute (DIE or line header): the raw inline reader
    /// and the resolved string. `home` = section holding inline strings.
    fn string_attr(&mut self, dwarf: &Dwarf<R>, unit: Option<&gimli::Unit<R>>, val: &AttributeValue<R>, p: &str, xc_inline: &'static str, xc_strp: &'static str, xc_lstrp: &'static str, home: SectionId, reported: Option<(usize, Option<usize>)>) -> gimli::Result<()> {
        let resolve = |v: AttributeValue<R>| match unit {
            Some(u) => dwarf.attr_string(u, v),
            None => dwarf.attr_line_string(v),
        };
        let entry = if unit.is_some() { "Dwarf::attr_string" } else { "Dwarf::attr_line_string" };
        match val {
            AttributeValue::String(r) => {
                self.view(dwarf, "AttributeValue::String", format!("string-inline|{}", p), xc_inline, home, r, reported);
                let s = resolve(val.clone())?;
                self.view(dwarf, entry, format!("string-resolved-inline|{}", p), xc_inline, home, &s, reported);
                self.line(format!("{} = inline string len {}", p, r.len()));
            }
            AttributeValue::DebugStrRef(o) => {
                let s = resolve(val.clone())?;
                self.view(dwarf, entry, format!("strp|{}", p), xc_strp, SectionId::DebugStr, &s, Some((o.0, None)));
                self.line(format!("{} = strp {:#x}", p, o.0));
            }
            AttributeValue::DebugLineStrRef(o) => {
                let s = resolve(val.clone())?;
                self.view(dwarf, entry, format!("line_strp|{}", p), xc_lstrp, SectionId::DebugLineStr, &s, Some((o.0, None)));
                self.line(format!("{} = line_strp {:#x}", p, o.0));
            }
            other => self.line(format!("{} = non-string {}", p, variant_name(other))),
        }
        Ok(())
    }

    fn walk_expr(&mut self, dwarf: &Dwarf<R>, enc: Encoding, p: &str, sec: SectionId, e: &Expression<R>, depth: usize) -> gimli::Result<()> {
        let mut ops = e.clone().operations(enc);
        let mut i = 0;
        while let Some(op) = ops.next()? {
            let q = format!("{}#{}", p, i);
            match &op {
                Operation::ImplicitValue { data } => {
                    self.view(dwarf, "Operation::ImplicitValue", format!("implicit-value|{}", q), "implicit", sec, data, None);
                    self.line(format!("{} ImplicitValue len {}", q, data.len()));
                }
                Operation::EntryValue { expression } => {
                    self.view(dwarf, "Operation::EntryValue", format!("entry-value|{}", q), "entry", sec, expression, None);
                    self.line(format!("{} EntryValue len {}", q, expression.len()));
                    self.walk_expr(dwarf, enc, &q, sec, &Expression(expression.clone()), depth + 1)?;
                }
                Operation::TypedLiteral { base_type, value } => {
                    self.view(dwarf, "Operation::TypedLiteral", format!("typed-literal|{}", q), "typed", sec, value, None);
                    self.line(format!("{} TypedLiteral base {:#x} len {}", q, base_type.0, value.len()));
                }
                other => self.line(format!("{} {:?}", q, other)),
            }
            i += 1;
        }
        if depth == 0 {
            let mut ev = e.clone().evaluation(enc);
            match ev.evaluate() {
                Ok(EvaluationResult::Complete) => {
                    for (k, piece) in ev.result().iter().enumerate() {
                        let q = format!("{}/piece{}", p, k);
                        match &piece.location {
                            Location::Bytes { value } => {
                                self.view(dwarf, "Location::Bytes", format!("eval-bytes|{}", q), "implicit", sec, value, None);
                                self.line(format!("{} bits {:?} off {:?} Bytes len {}", q, piece.size_in_bits, piece.bit_offset, value.len()));
                            }
                            other => self.line(format!("{} bits {:?} off {:?} {:?}", q, piece.size_in_bits, piece.bit_offset, other)),
                        }
                    }
                }
                Ok(EvaluationResult::RequiresEntryValue(x)) => {
                    self.view(dwarf, "EvaluationResult::RequiresEntryValue", format!("eval-entry-value|{}", p), "entry", sec, &x.0, None);
                    self.line(format!("{} eval RequiresEntryValue len {}", p, x.0.len()));
                }
                Ok(other) => self.line(format!("{} eval {}", p, variant_name(&other))),
                Err(e) => self.line(format!("{} eval error {}", p, gv::err_name(&e))),
            }
        }
        Ok(())
    }

    fn walk_units(&mut self, dwarf: &Dwarf<R>) -> gimli::Result<()> {
        let mut units = dwarf.units();
        let mut ui = 0usize;
        while let Some(header) = units.next()? {
            let unit = dwarf.unit(header)?;
            let enc = unit.encoding();
            let uoff = unit.header.debug_info_offset().map(|o| o.0).unwrap_or(usize::MAX);
            self.line(format!("unit{} at {:#x} {:?} header_size {} root {:#x} low_pc {:#x}", ui, uoff, enc, unit.header.header_size(), unit.header.root_offset().0, unit.low_pc));
            // the raw DIE bytes of the unit
            let ro = unit.header.root_offset();
            let rf = unit.header.range_from(ro..)?;
            self.view(dwarf, "UnitHeader::range_from", format!("unit-range|u{}", ui), "", SectionId::DebugInfo, &rf, Some((uoff + ro.0, Some(unit.header.length_including_self() - ro.0))));
            // root attributes decide where Unit::name / comp_dir live
            let mut name_sec = None;
            let mut cd_sec = None;
            {
                let mut c = unit.entries();
                if let Some(root) = c.next_dfs()? {
                    let sec_of = |v: Option<AttributeValue<R>>| match v {
                        Some(AttributeValue::String(_)) => Some(SectionId::DebugInfo),
                        Some(AttributeValue::DebugStrRef(_)) => Some(SectionId::DebugStr),
                        Some(AttributeValue::DebugLineStrRef(_)) => Some(SectionId::DebugLineStr),
                        _ => None,
                    };
                    name_sec = sec_of(root.attr_value(gimli::DW_AT_name));
                    cd_sec = sec_of(root.attr_value(gimli::DW_AT_comp_dir));
                }
            }
            if let (Some(n), Some(s)) = (&unit.name, name_sec) {
                self.view(dwarf, "Unit::name", format!("unit-name|u{}", ui), "unit-str", s, n, None);
            }
            if let (Some(n), Some(s)) = (&unit.comp_dir, cd_sec) {
                self.view(dwarf, "Unit::comp_dir", format!("unit-comp-dir|u{}", ui), "unit-str", s, n, None);
            }
            self.line(format!("unit{} name {:?} comp_dir {:?}", ui, unit.name.as_ref().map(|r| r.len()), unit.comp_dir.as_ref().map(|r| r.len())));

            let mut cur = unit.entries();
            while let Some(die) = cur.next_dfs()? {
                let die = die.clone();
                self.line(format!("u{} die {:#x} depth {} {} children {}", ui, die.offset().0, die.depth(), die.tag(), die.has_children()));
                for attr in die.attrs() {
                    let val = attr.value();
                    let p = format!("u{}/{:x}/{}", ui, die.offset().0, attr.name());
                    match &val {
                        AttributeValue::String(_) | AttributeValue::DebugStrRef(_) | AttributeValue::DebugLineStrRef(_) => {
                            self.string_attr(dwarf, Some(&unit), &val, &p, "str-inline", "str-strp", "str-line_strp", SectionId::DebugInfo, None)?;
                            if let Some(s) = attr.string_value(&dwarf.debug_str) {
                                let (xc, sec) = if matches!(val, AttributeValue::String(_)) { ("str-inline", SectionId::DebugInfo) } else { ("str-strp", SectionId::DebugStr) };
                                self.view(dwarf, "Attribute::string_value", format!("string_value|{}", p), xc, sec, &s, None);
                            }
                        }
                        AttributeValue::Block(r) => {
                            self.view(dwarf, "AttributeValue::Block", format!("block|{}", p), "block", SectionId::DebugInfo, r, None);
                            self.line(format!("{} = block len {}", p, r.len()));
                        }
                        AttributeValue::Exprloc(e) => {
                            self.view(dwarf, "AttributeValue::Exprloc", format!("exprloc|{}", p), "expr", SectionId::DebugInfo, &e.0, None);
                            self.line(format!("{} = exprloc len {}", p, e.0.len()));
                            self.walk_expr(dwarf, enc, &p, SectionId::DebugInfo, e, 0)?;
                        }
                        AttributeValue::LocationListsRef(o) => {
                            self.line(format!("{} = loclist {:#x}", p, o.0));
                            let ls = loc_sec(enc);
                            if let Some(mut it) = dwarf.attr_locations(&unit, val.clone())? {
                                let mut k = 0;
                                while let Some(e) = it.next()? {
                                    let q = format!("{}/loc{}", p, k);
                                    self.view(dwarf, "LocListIter::next", format!("loclist-data|{}", q), "expr-loc", ls, &e.data.0, None);
                                    self.line(format!("{} {:?} len {}", q, e.range, e.data.0.len()));
                                    self.walk_expr(dwarf, enc, &q, ls, &e.data, 0)?;
                                    k += 1;
                                }
                            }
                            let mut raw = dwarf.raw_locations(&unit, *o)?;
                            let mut k = 0;
                            while let Some(e) = raw.next()? {
                                use gimli::RawLocListEntry as L;
                                let q = format!("{}/rawloc{}", p, k);
                                let data = match &e {
                                    L::AddressOrOffsetPair { data, .. } | L::StartxEndx { data, .. } | L::StartxLength { data, .. } | L::OffsetPair { data, .. } | L::DefaultLocation { data } | L::StartEnd { data, .. } | L::StartLength { data, .. } => Some(data.clone()),
                                    L::BaseAddress { .. } | L::BaseAddressx { .. } => None,
                                };
                                match data {
                                    Some(d) => {
                                        self.view(dwarf, "RawLocListIter::next", format!("loclist-raw-data|{}", q), "expr-loc", ls, &d.0, None);
                                        self.line(format!("{} {} len {}", q, variant_name(&e), d.0.len()));
                                    }
                                    None => self.line(format!("{} {:?}", q, e)),
                                }
                                k += 1;
                            }
                        }
                        AttributeValue::RangeListsRef(_) => {
                            if let Some(mut it) = dwarf.attr_ranges(&unit, val.clone())? {
                                while let Some(r) = it.next()? {
                                    self.line(format!("{} range {:?}", p, r));
                                }
                            }
                        }
                        other => self.line(format!("{} = {:?}", p, other)),
                    }
                }
            }

            // the same attributes through the raw entry reader
            let mut raw = unit.entries_raw(None)?;
            while !raw.is_empty() {
                let at = raw.next_offset();
                if let Some(abbrev) = raw.read_abbreviation()? {
                    for spec in abbrev.attributes() {
                        let attr = raw.read_attribute(*spec)?;
                        let p = format!("u{}/{:x}/{}", ui, at.0, attr.name());
                        match attr.value() {
                            AttributeValue::String(r) => self.view(dwarf, "EntriesRaw::read_attribute", format!("raw-string|{}", p), "str-inline", SectionId::DebugInfo, &r, None),
                            AttributeValue::Block(r) => self.view(dwarf, "EntriesRaw::read_attribute", format!("raw-block|{}", p), "block", SectionId::DebugInfo, &r, None),
                            AttributeValue::Exprloc(e) => self.view(dwarf, "EntriesRaw::read_attribute", format!("raw-exprloc|{}", p), "expr", SectionId::DebugInfo, &e.0, None),
                            _ => {}
                        }
                    }
                }
            }

            if let Some(lp) = unit.line_program.clone() {
                // version <= 4: directory(0) / file(0) are the unit's comp_dir / name
                self.walk_line(dwarf, Some(&unit), lp, &format!("u{}/line", ui), cd_sec, name_sec, None)?;
            }
            ui += 1;
        }
        Ok(())
    }

    fn walk_line(&mut self, dwarf: &Dwarf<R>, unit: Option<&gimli::Unit<R>>, prog: gimli::IncompleteLineProgram<R>, p: &str, cd_sec: Option<SectionId>, name_sec: Option<SectionId>, known: Option<&str>) -> gimli::Result<()> {
        let g = self.g;
        let kn = |k: &str| known.and_then(|pre| g.known(&format!("{}.{}", pre, k)));
        let h = prog.header().clone();
        let v = h.version();
        let isz = h.format().initial_length_size() as usize;
        let word = h.format().word_size() as usize;
        let fixed = isz + 2 + if v >= 5 { 2 } else { 0 } + word;
        self.line(format!("{} header at {:#x} unit_length {} v{} header_length {} {:?} opcode_base {} asize {}", p, h.offset().0, h.unit_length(), v, h.header_length(), h.line_encoding(), h.opcode_base(), h.address_size()));
        let buf = h.raw_program_buf();
        let start = h.offset().0 + fixed + h.header_length();
        let end = h.offset().0 + isz + h.unit_length();
        self.view(dwarf, "LineProgramHeader::raw_program_buf", format!("line-program-buf|{}", p), "", SectionId::DebugLine, &buf, Some((start, Some(end - start))));
        if let Some(k) = kn("progbuf") {
            self.view(dwarf, "LineProgramHeader::raw_program_buf", format!("line-program-buf-known|{}", p), "", SectionId::DebugLine, &buf, Some(k));
        }
        let sol = h.standard_opcode_lengths().clone();
        let sol_at = h.offset().0 + fixed + if v >= 4 { 6 } else { 5 };
        self.view(dwarf, "LineProgramHeader::standard_opcode_lengths", format!("line-std-opcode-lengths|{}", p), "", SectionId::DebugLine, &sol, Some((sol_at, Some(h.opcode_base() as usize - 1))));
        self.line(format!("{} dir format {:?} file format {:?}", p, h.directory_entry_format(), h.file_name_entry_format()));

        for (i, d) in h.include_directories().to_vec().iter().enumerate() {
            let key = format!("dir{}", if v >= 5 { i } else { i + 1 });
            self.string_attr(dwarf, unit, d, &format!("{}/include_directories[{}]", p, i), "line-path", "line-path", "line-path", SectionId::DebugLine, kn(&key))?;
        }
        let ndirs = h.include_directories().len() as u64;
        for i in 0..=ndirs + 1 {
            match h.directory(i) {
                Some(d) => {
                    let home = if v <= 4 && i == 0 { cd_sec.unwrap_or(SectionId::DebugLine) } else { SectionId::DebugLine };
                    self.string_attr(dwarf, unit, &d, &format!("{}/directory({})", p, i), "line-path", "line-path", "line-path", home, kn(&format!("dir{}", i)))?;
                }
                None => self.line(format!("{}/directory({}) = None", p, i)),
            }
        }
        let files = h.file_names().to_vec();
        for (i, f) in files.iter().enumerate() {
            let q = format!("{}/file_names[{}]", p, i);
            let key = format!("file{}", if v >= 5 { i } else { i + 1 });
            self.string_attr(dwarf, unit, &f.path_name(), &format!("{}.path", q), "line-path", "line-path", "line-path", SectionId::DebugLine, kn(&key))?;
            self.line(format!("{} dir {} time {} size {} md5 {}", q, f.directory_index(), f.timestamp(), f.size(), mcx::hex(f.md5())));
            if let Some(d) = f.directory(&h) {
                let home = if v <= 4 && f.directory_index() == 0 { cd_sec.unwrap_or(SectionId::DebugLine) } else { SectionId::DebugLine };
                self.string_attr(dwarf, unit, &d, &format!("{}.directory", q), "line-path", "line-path", "line-path", home, None)?;
            }
            if let Some(s) = f.source() {
                self.string_attr(dwarf, unit, &s, &format!("{}.source", q), "line-source", "line-source", "line-source", SectionId::DebugLine, None)?;
            }
        }
        for i in 0..=files.len() as u64 + 1 {
            match h.file(i) {
                Some(f) => {
                    let home = if v <= 4 && i == 0 { name_sec.unwrap_or(SectionId::DebugLine) } else { SectionId::DebugLine };
                    self.string_attr(dwarf, unit, &f.path_name(), &format!("{}/file({})", p, i), "line-path", "line-path", "line-path", home, kn(&format!("file{}", i)))?;
                }
                None => self.line(format!("{}/file({}) = None", p, i)),
            }
        }

        let mut ins = h.instructions();
        let mut k = 0;
        while let Some(i) = ins.next_instruction(&h)? {
            let q = format!("{}/ins{}", p, k);
            match &i {
                LineInstruction::UnknownStandardN(op, r) => {
                    self.view(dwarf, "LineInstruction::UnknownStandardN", format!("line-unknown-standard|{}", q), "", SectionId::DebugLine, r, kn("stdn"));
                    self.line(format!("{} UnknownStandardN({:?}) len {}", q, op, r.len()));
                }
                LineInstruction::UnknownExtended(op, r) => {
                    self.view(dwarf, "LineInstruction::UnknownExtended", format!("line-unknown-extended|{}", q), "", SectionId::DebugLine, r, kn("ext"));
                    self.line(format!("{} UnknownExtended({:?}) len {}", q, op, r.len()));
                }
                LineInstruction::DefineFile(f) => {
                    self.string_attr(dwarf, unit, &f.path_name(), &format!("{}.define_file", q), "", "", "", SectionId::DebugLine, kn("defile"))?;
                    self.line(format!("{} DefineFile dir {} time {} size {}", q, f.directory_index(), f.timestamp(), f.size()));
                }
                other => self.line(format!("{} {:?}", q, other)),
            }
            k += 1;
        }
        let mut rows = prog.rows();
        while let Some((_, row)) = rows.next_row()? {
            self.line(format!("{} row {:?}", p, row));
        }
        Ok(())
    }

    fn walk_strings(&mut self, dwarf: &Dwarf<R>) -> gimli::Result<()> {
        let b = self.g.img.get(SectionId::DebugStr);
        let mut off = 0;
        while off < b.len() {
            let s = dwarf.debug_str.get_str(DebugStrOffset(off))?;
            let n = s.len();
            self.view(dwarf, "DebugStr::get_str", format!("debug_str|{:#x}", off), "debug_str", SectionId::DebugStr, &s, Some((off, None)));
            // a view from the middle of a string
            if n > 2 {
                let m = dwarf.string(DebugStrOffset(off + 2))?;
                self.view(dwarf, "Dwarf::string", format!("debug_str-mid|{:#x}", off + 2), "", SectionId::DebugStr, &m, Some((off + 2, Some(n - 2))));
            }
            off += n + 1;
        }
        let b = self.g.img.get(SectionId::DebugLineStr);
        let mut off = 0;
        while off < b.len() {
            let s = dwarf.debug_line_str.get_str(DebugLineStrOffset(off))?;
            let n = s.len();
            self.view(dwarf, "DebugLineStr::get_str", format!("debug_line_str|{:#x}", off), "debug_line_str", SectionId::DebugLineStr, &s, Some((off, None)));
            off += n + 1;
        }
        Ok(())
    }

    fn walk_cfi<S: UnwindSection<R>>(&mut self, dwarf: &Dwarf<R>, sec: &S, id: SectionId) -> gimli::Result<()>
    where
        S::Offset: gimli::UnwindOffset<usize>,
    {
        let bases = BaseAddresses::default();
        let name = id.name();
        let mut it = sec.entries(&bases);
        let mut n = 0;
        while let Some(e) = it.next()? {
            let p = format!("{}/{}", name, n);
            match e {
                CieOrFde::Cie(cie) => {
                    self.line(format!("{} CIE at {:#x} len {} v{} caf {} daf {} ra {:?} aug {:?} lsda {:?} personality {:?} fde_enc {:?} sig {} asize {}", p, cie.offset(), cie.entry_len(), cie.version(), cie.code_alignment_factor(), cie.data_alignment_factor(), cie.return_address_register(), cie.augmentation(), cie.lsda_encoding(), cie.personality_with_encoding(), cie.fde_address_encoding(), cie.is_signal_trampoline(), cie.address_size()));
                    let mut ins = cie.instructions(sec, &bases);
                    self.walk_cfi_ins(dwarf, sec, id, &p, cie.encoding(), &mut ins)?;
                }
                CieOrFde::Fde(partial) => {
                    let fde = partial.parse(S::cie_from_offset)?;
                    self.line(format!("{} FDE at {:#x} len {} cie {:#x} pc {:#x}..{:#x} lsda {:?} personality {:?} sig {}", p, fde.offset(), fde.entry_len(), fde.cie().offset(), fde.initial_address(), fde.end_address(), fde.lsda(), fde.personality(), fde.is_signal_trampoline()));
                    let mut ins = fde.instructions(sec, &bases);
                    self.walk_cfi_ins(dwarf, sec, id, &p, fde.cie().encoding(), &mut ins)?;
                    let mut uctx = UnwindContext::new();
                    let mut table = fde.rows(sec, &bases, &mut uctx)?;
                    let mut k = 0;
                    while let Some(row) = table.next_row()? {
                        let q = format!("{}/row{}", p, k);
                        self.line(format!("{} {:#x}..{:#x} args {} cfa {:?}", q, row.start_address(), row.end_address(), row.saved_args_size(), row.cfa()));
                        let mut exprs = vec![];
                        if let CfaRule::Expression(ue) = row.cfa() {
                            exprs.push(("cfa".to_string(), *ue));
                        }
                        for (reg, rule) in row.registers() {
                            self.line(format!("{} {:?} = {:?}", q, reg, rule));
                            if let RegisterRule::Expression(ue) | RegisterRule::ValExpression(ue) = rule {
                                exprs.push((format!("r{}", reg.0), *ue));
                            }
                        }
                        for (w, ue) in exprs {
                            let x = ue.get(sec)?;
                            self.view(dwarf, "UnwindExpression::get", format!("cfi-row-expression|{}/{}", q, w), "expr-cfi", id, &x.0, Some((ue.offset, Some(ue.length))));
                        }
                        k += 1;
                    }
                }
            }
            n += 1;
        }
        Ok(())
    }

    fn walk_cfi_ins<S: UnwindSection<R>>(&mut self, dwarf: &Dwarf<R>, sec: &S, id: SectionId, p: &str, enc: Encoding, ins: &mut gimli::CallFrameInstructionIter<'_, R>) -> gimli::Result<()> {
        use gimli::CallFrameInstruction as I;
        let mut k = 0;
        while let Some(i) = ins.next()? {
            let q = format!("{}/cfa{}", p, k);
            self.line(format!("{} {:?}", q, i));
            if let I::DefCfaExpression { expression } | I::Expression { expression, .. } | I::ValExpression { expression, .. } = &i {
                let x = expression.get(sec)?;
                self.view(dwarf, "UnwindExpression::get", format!("cfi-expression|{}", q), "expr-cfi", id, &x.0, Some((expression.offset, Some(expression.length))));
                self.walk_expr(dwarf, enc, &q, id, &x, 0)?;
            }
            k += 1;
        }
        Ok(())
    }

    fn walk_lookup(&mut self, dwarf: &Dwarf<R>) -> gimli::Result<()> {
        let pn = gimli::DebugPubNames::from(self.root(SectionId::DebugPubNames).unwrap().clone());
        let mut it = pn.items();
        let mut k = 0;
        while let Some(e) = it.next()? {
            let key = self.g.known(&format!("pubnames.{}", k));
            self.view(dwarf, "PubNamesEntry::name", format!("pubnames-name|{}", k), "pubnames-name", SectionId::DebugPubNames, e.name(), key);
            self.line(format!("pubnames {} unit {:#x} die {:#x} len {}", k, e.unit_header_offset().0, e.die_offset().0, e.name().len()));
            k += 1;
        }
        let pt = gimli::DebugPubTypes::from(self.root(SectionId::DebugPubTypes).unwrap().clone());
        let mut it = pt.items();
        let mut k = 0;
        while let Some(e) = it.next()? {
            let key = self.g.known(&format!("pubtypes.{}", k));
            self.view(dwarf, "PubTypesEntry::name", format!("pubtypes-name|{}", k), "pubtypes-name", SectionId::DebugPubTypes, e.name(), key);
            self.line(format!("pubtypes {} unit {:#x} die {:#x} len {}", k, e.unit_header_offset().0, e.die_offset().0, e.name().len()));
            k += 1;
        }
        let mut hs = dwarf.debug_aranges.headers();
        while let Some(h) = hs.next()? {
            self.line(format!("aranges set at {:#x} len {} {:?} info {:#x}", h.offset().0, h.length(), h.encoding(), h.debug_info_offset().0));
            let mut es = h.entries();
            while let Some(e) = es.next()? {
                self.line(format!("  arange {:#x} +{:#x}", e.address(), e.length()));
            }
        }
        Ok(())
    }

    fn run(&mut self, dwarf: &Dwarf<R>) -> gimli::Result<()> {
        self.walk_units(dwarf)?;
        let x = dwarf.debug_line.program(DebugLineOffset(self.g.xline_off), self.cfg.asize, None, None)?;
        self.walk_line(dwarf, None, x, "xline", None, None, Some("xline"))?;
        self.walk_strings(dwarf)?;
        let mut df = gimli::DebugFrame::from(self.root(SectionId::DebugFrame).unwrap().clone());
        df.set_address_size(self.cfg.asize);
        self.walk_cfi(dwarf, &df, SectionId::DebugFrame)?;
        let mut eh = gimli::EhFrame::from(self.root(SectionId::EhFrame).unwrap().clone());
        eh.set_address_size(self.cfg.asize);
        self.walk_cfi(dwarf, &eh, SectionId::EhFrame)?;
        self.walk_lookup(dwarf)?;
        Ok(())
    }
}

// ---------------------------------------------------------------------------
// Reader kinds

#[derive(Clone, Debug)]
struct Buf(Rc<Vec<u8>>);
impl std::ops::Deref for Buf {
    type Target = [u8];
    fn deref(&self) -> &[u8] {
        &self.0[..]
    }
}
unsafe impl gimli::StableDeref for Buf {}
unsafe impl gimli::CloneStableDeref for Buf {}

#[derive(Clone, Copy, Debug)]
struct Identity;
impl gimli::Relocate<usize> for Identity {
    fn relocate_address(&self, _offset: usize, value: u64) -> gimli::Result<u64> {
        Ok(value)
    }
    fn relocate_offset(&self, _offset: usize, value: usize) -> gimli::Result<usize> {
        Ok(value)
    }
}

struct Out {
    items: Vec<Item>,
    dump: Vec<String>,
    fails: Vec<Fail>,
    err: Option<String>,
}

const ALL_SECTIONS: [SectionId; 4] = [SectionId::DebugFrame, SectionId::EhFrame, SectionId::DebugPubNames, SectionId::DebugPubTypes];

fn run_kind<'a, R, F>(g: &'a Gen, cfg: &Cfg, kind: &'static str, mk: F) -> Result<Out, mcx::engine::Panic>
where
    R: Reader<Offset = usize>,
    F: Fn(&'a [u8]) -> R,
{
    guard(|| {
        let mut roots: Vec<(SectionId, R)> = vec![];
        let dwarf: Dwarf<R> = Dwarf::load(|id| -> Result<R, ()> {
            let r = mk(g.img.get(id));
            roots.push((id, r.clone()));
            Ok(r)
        })
        .unwrap();
        for id in ALL_SECTIONS {
            roots.push((id, mk(g.img.get(id))));
        }
        let mut w = Walk { g, cfg: *cfg, kind, roots, items: vec![], dump: vec![], fails: vec![] };
        let err = w.run(&dwarf).err().map(|e| format!("{:?} ({}) after {} views, last dump line: {:?}", gv::err_name(&e), dwarf.format_error(e), w.items.len(), w.dump.last()));
        Out { items: w.items, dump: w.dump, fails: w.fails, err }
    })
}

const CLASSES: [&str; 26] = [
    "string-inline",
    "string-resolved-inline",
    "strp",
    "line_strp",
    "string_value",
    "block",
    "exprloc",
    "implicit-value",
    "entry-value",
    "typed-literal",
    "eval-bytes",
    "eval-entry-value",
    "loclist-data",
    "loclist-raw-data",
    "raw-string",
    "raw-block",
    "raw-exprloc",
    "unit-name",
    "unit-comp-dir",
    "unit-range",
    "line-program-buf",
    "line-std-opcode-lengths",
    "line-unknown-standard",
    "line-unknown-extended",
    "debug_str",
    "debug_line_str",
];

pub fn required_outcomes() -> Vec<String> {
    let mut v: Vec<String> = CLASSES.iter().map(|c| format!("views:{}", c)).collect();
    for c in ["cfi-expression", "cfi-row-expression", "pubnames-name", "pubtypes-name", "debug_str-mid", "line-program-buf-known"] {
        v.push(format!("views:{}", c));
    }
    for c in ["views:line-path:inline", "views:line-path:strp", "views:line-path:line_strp", "views:line-source", "views:define-file", "views:cfi-expression:.debug_frame", "views:cfi-expression:.eh_frame", "views:kinds-agree", "views:content-model-matched"] {
        v.push(c.to_string());
    }
    v
}

fn case(ctx: &mut Ctx, i: u64) {
    let cfg = Cfg::decode(i);
    let desc = format!("{:?}", cfg);
    let g = match guard(|| generate(&cfg)) {
        Ok(Ok(g)) => g,
        Ok(Err(e)) => {
            ctx.machinery(format!("generator failed for {}: {}", desc, e));
            return;
        }
        Err(p) => {
            ctx.machinery(format!("generator panicked for {}: {} at {}:{}", desc, p.msg, p.file, p.line));
            return;
        }
    };
    let e = cfg.endian();
    // leaked shared copies are avoided: every kind owns or borrows per section
    let outs: Vec<(&'static str, Result<Out, mcx::engine::Panic>)> = vec![
        ("EndianSlice", run_kind(&g, &cfg, "EndianSlice", |b| EndianSlice::new(b, e))),
        ("EndianRcSlice", run_kind(&g, &cfg, "EndianRcSlice", |b| gimli::EndianRcSlice::new(Rc::from(b), e))),
        ("EndianArcSlice", run_kind(&g, &cfg, "EndianArcSlice", |b| gimli::EndianArcSlice::new(Arc::from(b), e))),
        ("EndianReader<Buf>", run_kind(&g, &cfg, "EndianReader<Buf>", |b| EndianReader::new(Buf(Rc::new(b.to_vec())), e))),
        ("RelocateReader<EndianSlice,Identity>", run_kind(&g, &cfg, "RelocateReader<EndianSlice,Identity>", |b| RelocateReader::new(EndianSlice::new(b, e), Identity))),
    ];
    let mut good: Vec<(&'static str, Out)> = vec![];
    for (kind, o) in outs {
        match o {
            Err(p) => ctx.fail_panic(&format!("parse-walk/{}", kind), &p, desc.clone()),
            Ok(o) => {
                ctx.eval(o.items.len() as u64);
                for (entry, site, k, detail) in &o.fails {
                    ctx.fail(entry, site, k, format!("{}: {}", desc, detail));
                }
                if let Some(e) = &o.err {
                    ctx.fail(&format!("parse-walk/{}", kind), "well-formed-input", "parse-error", format!("{}: {}", desc, e));
                }
                good.push((kind, o));
            }
        }
    }
    if good.is_empty() || good[0].0 != "EndianSlice" {
        return;
    }
    ctx.nontriv(1);
    // (3) all kinds identical to the borrowed reader
    let mut agree = good.len() == 5;
    for (kind, o) in &good[1..] {
        let a = &good[0].1;
        let first_item = a.items.iter().zip(o.items.iter()).position(|(x, y)| x != y).or(if a.items.len() != o.items.len() { Some(a.items.len().min(o.items.len())) } else { None });
        if let Some(k) = first_item {
            agree = false;
            ctx.fail(&format!("parse-walk/{}", kind), "kinds", "reader-kinds-disagree", format!("{}: view #{}: EndianSlice {:?} vs {} {:?}", desc, k, a.items.get(k), kind, o.items.get(k)));
        }
        let first_line = a.dump.iter().zip(o.dump.iter()).position(|(x, y)| x != y).or(if a.dump.len() != o.dump.len() { Some(a.dump.len().min(o.dump.len())) } else { None });
        if let Some(k) = first_line {
            agree = false;
            ctx.fail(&format!("parse-walk/{}", kind), "kinds", "reader-kinds-disagree", format!("{}: result line #{}: EndianSlice {:?} vs {} {:?}", desc, k, a.dump.get(k), kind, o.dump.get(k)));
        }
    }
    if agree {
        ctx.outcome("views:kinds-agree");
    }
    // content model, both directions, on the borrowed reader's views
    let a = &good[0].1;
    let mut seen = vec![false; g.exp.wants.len()];
    let mut content_ok = a.err.is_none();
    for it in &a.items {
        if it.off == usize::MAX {
            content_ok = false;
            continue;
        }
        let class = it.label.split('|').next().unwrap_or("");
        ctx.outcome(&format!("views:{}", class));
        if class == "cfi-expression" {
            ctx.outcome(&format!("views:cfi-expression:{}", it.sec.name()));
        }
        if it.label.ends_with(".define_file") {
            ctx.outcome("views:define-file");
        }
        if it.xc == "line-path" || it.xc == "line-source" {
            if it.xc == "line-source" {
                ctx.outcome("views:line-source");
            } else {
                ctx.outcome(&format!("views:line-path:{}", if class.starts_with("string") { "inline" } else { class }));
            }
        }
        if it.xc.is_empty() {
            continue;
        }
        let bytes = &g.img.get(it.sec)[it.off..it.off + it.len];
        // unit-str views are the unit's name / comp_dir in whatever form they have
        let mut hit = false;
        for (k, w) in g.exp.wants.iter().enumerate() {
            let class_ok = w.class == it.xc || (it.xc == "unit-str" && matches!(w.class, "str-inline" | "str-strp" | "str-line_strp"));
            if class_ok && pat_match(&w.pat, bytes) {
                seen[k] = true;
                hit = true;
            }
        }
        if !hit {
            content_ok = false;
            ctx.fail(&format!("parse-walk/{}", it.label.split('|').next().unwrap_or("")), "content", "unexpected-content", format!("{}: {} in {} at {} len {} holds {} ({:?}), which is not a {} the generator put in", desc, it.label, it.sec.name(), it.off, it.len, mcx::hex(bytes), String::from_utf8_lossy(bytes), it.xc));
        }
    }
    if a.err.is_none() {
        for (k, w) in g.exp.wants.iter().enumerate() {
            if w.must_see && !seen[k] {
                content_ok = false;
                ctx.fail(&format!("parse-walk/{}", w.class), "content", "expected-view-missing", format!("{}: no {} view with contents {:?}", desc, w.class, w.pat));
            }
        }
    }
    if content_ok {
        ctx.outcome("views:content-model-matched");
    }
    if ctx.verbose {
        for it in &a.items {
            ctx.log(&format!("VIEW {:<60} {} @{:#x}+{}", it.label, it.sec.name(), it.off, it.len));
        }
        for l in &a.dump {
            ctx.log(&format!("DUMP {}", l));
        }
    }
    if ctx.want_sample() {
        let sizes: Vec<String> = g.img.secs.iter().map(|(s, b)| format!("{}={}", s.name(), b.len())).collect();
        let some: Vec<String> = a.items.iter().filter(|it| !it.xc.is_empty()).step_by(37).take(8).map(|it| format!("{} -> {}@{:#x}+{}", it.label, it.sec.name(), it.off, it.len)).collect();
        ctx.sample(format!("{} sections [{}]; {} views x 5 reader kinds, {} result lines; e.g. {}; .debug_info={}", desc, sizes.join(" "), a.items.len(), a.dump.len(), some.join("; "), mcx::hex(g.img.get(SectionId::DebugInfo))));
    }
}

pub fn subs(_tier: Tier) -> Vec<Sub> {
    vec![Sub::new(
        "parse-views",
        64 * NVAR,
        "DWARF version {2,3,4,5} x format {32,64} x address size {4,8} x byte order {LE,BE} x 3 content variants (line string forms, CIE/FDE shapes, nesting); per input two units (line program, DIE tree with strings in 3 forms, blocks, exprlocs with implicit_value/entry_value/const_type, location list, range list), .debug_frame + .eh_frame with expression-carrying CFIs, hand-encoded .debug_aranges/.debug_pubnames/.debug_pubtypes and an extra line program with define_file and unknown opcodes; every reader handed back by a full public-API walk is checked (offset id -> section+offset, offset_from, bytes == section[off..off+len], borrowed pointer == section start + off, clone independence, reported offsets, contents vs the generator's model) under 5 reader kinds whose view lists and result dumps must be identical",
        case,
    )
    .timeout(300)]
}
