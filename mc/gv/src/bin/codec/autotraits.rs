//! C10, memory-safety clause: which reader kinds may cross threads is part of what keeps the
//! shared-buffer reader safe (`SubRange` carries hand-written `unsafe impl Send/Sync`). A
//! reader over a non-atomically counted buffer (`Rc`) must be neither `Send` nor `Sync`; a
//! reader over `Arc<[u8]>` or a borrowed slice is both. These are compile-time facts, probed
//! with the "inherent associated const shadows the blanket trait const" idiom and reported as
//! one case each.
use gimli::{EndianArcSlice, EndianRcSlice, EndianReader, EndianSlice, LittleEndian};
use mcx::{Ctx, Sub};
use std::marker::PhantomData;
use std::rc::Rc;
use std::sync::Arc;

struct Probe<T>(PhantomData<T>);
trait Fallback {
    const IS_SEND: bool = false;
    const IS_SYNC: bool = false;
}
impl<T> Fallback for Probe<T> {}
#[allow(dead_code)]
impl<T: Send> Probe<T> {
    const IS_SEND: bool = true;
}
#[allow(dead_code)]
impl<T: Sync> Probe<T> {
    const IS_SYNC: bool = true;
}

/// A custom buffer type counted non-atomically.
#[derive(Clone, Debug)]
pub struct RcBuf(Rc<Vec<u8>>);
impl std::ops::Deref for RcBuf {
    type Target = [u8];
    fn deref(&self) -> &[u8] {
        &self.0
    }
}
unsafe impl gimli::StableDeref for RcBuf {}
unsafe impl gimli::CloneStableDeref for RcBuf {}

/// A custom buffer type that may be shared between threads.
#[derive(Clone, Debug)]
pub struct ArcBuf(Arc<Vec<u8>>);
impl std::ops::Deref for ArcBuf {
    type Target = [u8];
    fn deref(&self) -> &[u8] {
        &self.0
    }
}
unsafe impl gimli::StableDeref for ArcBuf {}
unsafe impl gimli::CloneStableDeref for ArcBuf {}

pub fn subs() -> Vec<Sub> {
    // (reader kind, is Send, is Sync, must be Send+Sync)
    let facts: Vec<(&'static str, bool, bool, bool)> = vec![
        ("EndianSlice<LittleEndian>", Probe::<EndianSlice<'static, LittleEndian>>::IS_SEND, Probe::<EndianSlice<'static, LittleEndian>>::IS_SYNC, true),
        ("EndianArcSlice<LittleEndian>", Probe::<EndianArcSlice<LittleEndian>>::IS_SEND, Probe::<EndianArcSlice<LittleEndian>>::IS_SYNC, true),
        ("EndianReader<LittleEndian, ArcBuf>", Probe::<EndianReader<LittleEndian, ArcBuf>>::IS_SEND, Probe::<EndianReader<LittleEndian, ArcBuf>>::IS_SYNC, true),
        ("EndianRcSlice<LittleEndian>", Probe::<EndianRcSlice<LittleEndian>>::IS_SEND, Probe::<EndianRcSlice<LittleEndian>>::IS_SYNC, false),
        ("EndianReader<LittleEndian, RcBuf>", Probe::<EndianReader<LittleEndian, RcBuf>>::IS_SEND, Probe::<EndianReader<LittleEndian, RcBuf>>::IS_SYNC, false),
    ];
    let n = facts.len() as u64;
    vec![Sub::new(
        "reader-auto-traits",
        n,
        "Send / Sync of each reader kind as the compiler derives them from gimli's (partly hand-written, unsafe) impls: readers over Rc-counted buffers (EndianRcSlice, EndianReader over a custom Rc-based buffer) must be neither, readers over a borrowed slice, Arc<[u8]> or a custom Arc-based buffer must be both",
        move |ctx: &mut Ctx, i| {
            let (name, send, sync, shareable) = facts[i as usize];
            ctx.eval(1);
            ctx.nontriv(1);
            if ctx.want_sample() {
                ctx.sample(format!("{}: Send={} Sync={}", name, send, sync));
            }
            if shareable {
                if !(send && sync) {
                    ctx.fail("SubRange/EndianReader auto traits", "thread-safety", "atomically-counted-reader-not-send-sync", format!("{}: Send={} Sync={}, expected both", name, send, sync));
                } else {
                    ctx.outcome("autotraits:shareable-ok");
                }
            } else if send || sync {
                ctx.fail("SubRange/EndianReader auto traits", "thread-safety", "rc-backed-reader-crosses-threads", format!("{}: Send={} Sync={}: clones of one Rc-counted buffer could be used and dropped on two threads (data race on the reference count)", name, send, sync));
            } else {
                ctx.outcome("autotraits:rc-backed-not-send-not-sync");
            }
        },
    )]
}
