//! C09 (primitive codecs, exhaustive) and C10 (reader views, explicit-state).
use gimli::leb128;
use gimli::write::Writer;
use gimli::{BigEndian, EndianSlice, Endianity, Format, LittleEndian, Reader, RunTimeEndian};
use mcx::leb::{self, Dec};
use mcx::{guard, CheckDef, Ctx, Sub, Tier};

#[path = "codec/c10.rs"]
mod c10;
#[path = "codec/views.rs"]
mod views;
#[path = "codec/autotraits.rs"]
mod autotraits;
#[path = "codec/ranges.rs"]
mod ranges;

fn main() {
    mcx::engine::main(|prop, tier| match prop {
        "C09" => Some(c09(tier)),
        "C10" => {
            // reader-operation histories + whole-section parse views
            let mut d = c10::def(tier);
            d.subs.extend(views::subs(tier));
            d.subs.extend(autotraits::subs());
            d.subs.extend(ranges::subs());
            d.required_outcomes.push("ranges:view-ok".into());
            d.required_outcomes.push("ranges:out-of-bounds-panics".into());
            d.required_outcomes.push("autotraits:rc-backed-not-send-not-sync".into());
            d.required_outcomes.push("autotraits:shareable-ok".into());
            d.required_outcomes.extend(views::required_outcomes());
            Some(d)
        }
        // the same exploration at a size an interpreter (Miri) can finish
        "C10M" => Some(c10::def_small()),
        _ => None,
    })
}

// ---------------------------------------------------------------------------
// C09

const ULEB_MAX_CANON: usize = 10;

/// Check the four u64-class LEB readers on one byte string.
fn check_leb64(ctx: &mut Ctx, b: &[u8]) {
    ctx.eval(4);
    let case = || mcx::hex(b);
    // unsigned
    let mut r = EndianSlice::new(b, LittleEndian);
    let got = guard(|| r.read_uleb128());
    let used = b.len() - r.len();
    let want = leb::uleb(b);
    match (&got, want) {
        (Err(p), _) => ctx.fail_panic("read_uleb128", p, case()),
        (Ok(Ok(v)), Dec::Ok(w, n)) => {
            if *v as u128 != w || used != n {
                ctx.fail("read_uleb128", "value", "wrong-value", format!("{}: got {} used {} want {} used {}", case(), v, used, w, n));
            }
            ctx.outcome("uleb:ok");
        }
        (Ok(Ok(v)), other) => ctx.fail("read_uleb128", "accept", "accepted-bad-encoding", format!("{}: got Ok({}) want {:?}", case(), v, other)),
        (Ok(Err(_)), Dec::Ok(w, n)) => {
            if w <= u64::MAX as u128 && n <= ULEB_MAX_CANON {
                ctx.fail("read_uleb128", "reject", "rejected-fitting-encoding", format!("{}: got Err want Ok({},{})", case(), w, n));
            }
            ctx.outcome("uleb:err-nofit");
        }
        (Ok(Err(_)), _) => ctx.outcome("uleb:err-incomplete"),
    }
    // u32 narrowing
    let mut r = EndianSlice::new(b, LittleEndian);
    let got = guard(|| r.read_uleb128_u32());
    let used = b.len() - r.len();
    match (&got, want) {
        (Err(p), _) => ctx.fail_panic("read_uleb128_u32", p, case()),
        (Ok(Ok(v)), Dec::Ok(w, n)) => {
            if *v as u128 != w || used != n {
                ctx.fail("read_uleb128_u32", "value", "wrong-value", format!("{}: got {} used {} want {} used {}", case(), v, used, w, n));
            }
        }
        (Ok(Ok(v)), other) => ctx.fail("read_uleb128_u32", "accept", "accepted-bad-encoding", format!("{}: got Ok({}) want {:?}", case(), v, other)),
        (Ok(Err(_)), Dec::Ok(w, n)) => {
            if w <= u32::MAX as u128 && n <= 5 {
                ctx.fail("read_uleb128_u32", "reject", "rejected-fitting-encoding", format!("{}: got Err want Ok({},{})", case(), w, n));
            }
        }
        (Ok(Err(_)), _) => {}
    }
    // signed
    let mut r = EndianSlice::new(b, LittleEndian);
    let got = guard(|| r.read_sleb128());
    let used = b.len() - r.len();
    let wants = leb::sleb(b);
    match (&got, wants) {
        (Err(p), _) => ctx.fail_panic("read_sleb128", p, case()),
        (Ok(Ok(v)), Dec::Ok(w, n)) => {
            if *v as i128 != w || used != n {
                ctx.fail("read_sleb128", "value", "wrong-value", format!("{}: got {} used {} want {} used {}", case(), v, used, w, n));
            }
            ctx.outcome("sleb:ok");
        }
        (Ok(Ok(v)), other) => ctx.fail("read_sleb128", "accept", "accepted-bad-encoding", format!("{}: got Ok({}) want {:?}", case(), v, other)),
        (Ok(Err(_)), Dec::Ok(w, n)) => {
            if w >= i64::MIN as i128 && w <= i64::MAX as i128 && n <= ULEB_MAX_CANON {
                ctx.fail("read_sleb128", "reject", "rejected-fitting-encoding", format!("{}: got Err want Ok({},{})", case(), w, n));
            }
            ctx.outcome("sleb:err-nofit");
        }
        (Ok(Err(_)), _) => ctx.outcome("sleb:err-incomplete"),
    }
    // skip: consumes exactly the encoding, whatever its value
    let mut r = EndianSlice::new(b, LittleEndian);
    let got = guard(|| r.skip_leb128());
    let used = b.len() - r.len();
    let end = b.iter().position(|x| x & 0x80 == 0).map(|p| p + 1);
    match (&got, end) {
        (Err(p), _) => ctx.fail_panic("skip_leb128", p, case()),
        (Ok(Ok(())), Some(n)) => {
            if used != n {
                ctx.fail("skip_leb128", "length", "wrong-length", format!("{}: used {} want {}", case(), used, n));
            }
        }
        (Ok(Ok(())), None) => ctx.fail("skip_leb128", "accept", "accepted-bad-encoding", format!("{}: Ok on incomplete", case())),
        (Ok(Err(_)), Some(n)) => ctx.fail("skip_leb128", "reject", "rejected-fitting-encoding", format!("{}: Err, want skip {}", case(), n)),
        (Ok(Err(_)), None) => {}
    }
}

fn check_leb16(ctx: &mut Ctx, b: &[u8]) {
    ctx.eval(1);
    let mut r = EndianSlice::new(b, LittleEndian);
    let got = guard(|| r.read_uleb128_u16());
    let used = b.len() - r.len();
    let want = leb::uleb(b);
    let case = || mcx::hex(b);
    match (&got, want) {
        (Err(p), _) => ctx.fail_panic("read_uleb128_u16", p, case()),
        (Ok(Ok(v)), Dec::Ok(w, n)) => {
            if *v as u128 != w || used != n {
                ctx.fail("read_uleb128_u16", "value", "wrong-value", format!("{}: got {} used {} want {} used {}", case(), v, used, w, n));
            }
            ctx.outcome("uleb16:ok");
        }
        (Ok(Ok(v)), other) => ctx.fail("read_uleb128_u16", "accept", "accepted-bad-encoding", format!("{}: got Ok({}) want {:?}", case(), v, other)),
        (Ok(Err(_)), Dec::Ok(w, n)) => {
            if w <= 0xffff && n <= 3 {
                ctx.fail("read_uleb128_u16", "reject", "rejected-fitting-encoding", format!("{}: got Err want Ok({},{})", case(), w, n));
            }
            ctx.outcome("uleb16:err-nofit");
        }
        (Ok(Err(_)), _) => ctx.outcome("uleb16:err-incomplete"),
    }
}

/// All strings with first byte `b0`, of length 1..=maxlen, via `f`.
fn strings_from(b0: u8, maxlen: usize, f: &mut dyn FnMut(&[u8])) {
    let mut buf = vec![b0];
    f(&buf);
    if maxlen < 2 {
        return;
    }
    for b1 in 0..=255u8 {
        buf.truncate(1);
        buf.push(b1);
        f(&buf);
        if maxlen < 3 {
            continue;
        }
        for b2 in 0..=255u8 {
            buf.truncate(2);
            buf.push(b2);
            f(&buf);
            if maxlen < 4 {
                continue;
            }
            for b3 in 0..=255u8 {
                buf.truncate(3);
                buf.push(b3);
                f(&buf);
            }
        }
    }
}

fn boundary_u64() -> Vec<u64> {
    let mut v = vec![0u64, 1, u64::MAX, u64::MAX - 1];
    for k in 1..64 {
        let p = 1u64 << k;
        v.extend([p - 1, p, p + 1, !p, p.wrapping_neg()]);
    }
    for k in 0..8 {
        v.push(0x0123_4567_89ab_cdefu64 >> (8 * k));
        v.push(0xfedc_ba98_7654_3210u64 >> (8 * k));
    }
    v.sort();
    v.dedup();
    v
}

fn check_write_leb(ctx: &mut Ctx, v: u64) {
    ctx.eval(2);
    // unsigned
    let l = leb128::write::Leb128::unsigned(v);
    let mut sink = Vec::new();
    let n = leb128::write::unsigned(&mut sink, v).unwrap();
    let mut ev = gimli::write::EndianVec::new(LittleEndian);
    ev.write_uleb128(v).unwrap();
    let mut want = vec![];
    leb::enc_uleb(v, &mut want);
    let sz = leb128::write::uleb128_size(v);
    if l.bytes() != &want[..] || sink != want || ev.slice() != &want[..] || n != want.len() || sz != want.len() || l.len() != want.len() {
        ctx.fail("write_uleb128", "bytes", "wrong-encoding", format!("v={:#x} Leb128={} io={} writer={} n={} size={} want {}", v, mcx::hex(l.bytes()), mcx::hex(&sink), mcx::hex(ev.slice()), n, sz, mcx::hex(&want)));
    }
    let mut r = EndianSlice::new(&sink, LittleEndian);
    if r.read_uleb128().ok() != Some(v) || !r.is_empty() {
        ctx.fail("write_uleb128", "roundtrip", "not-identity", format!("v={:#x} bytes {}", v, mcx::hex(&sink)));
    }
    // signed
    let s = v as i64;
    let l = leb128::write::Leb128::signed(s);
    let mut sink = Vec::new();
    let n = leb128::write::signed(&mut sink, s).unwrap();
    let mut ev = gimli::write::EndianVec::new(BigEndian);
    ev.write_sleb128(s).unwrap();
    let mut want = vec![];
    leb::enc_sleb(s, &mut want);
    let sz = leb128::write::sleb128_size(s);
    if l.bytes() != &want[..] || sink != want || ev.slice() != &want[..] || n != want.len() || sz != want.len() || l.len() != want.len() {
        ctx.fail("write_sleb128", "bytes", "wrong-encoding", format!("v={} Leb128={} io={} writer={} n={} size={} want {}", s, mcx::hex(l.bytes()), mcx::hex(&sink), mcx::hex(ev.slice()), n, sz, mcx::hex(&want)));
    }
    let mut r = EndianSlice::new(&sink, LittleEndian);
    if r.read_sleb128().ok() != Some(s) || !r.is_empty() {
        ctx.fail("write_sleb128", "roundtrip", "not-identity", format!("v={} bytes {}", s, mcx::hex(&sink)));
    }
    if v <= 0xffff {
        let mut r = EndianSlice::new(&want, LittleEndian);
        let mut u = vec![];
        leb::enc_uleb(v, &mut u);
        let mut r2 = EndianSlice::new(&u, LittleEndian);
        if r2.read_uleb128_u16().ok() != Some(v as u16) || !r2.is_empty() {
            ctx.fail("read_uleb128_u16", "roundtrip", "not-identity", format!("v={}", v));
        }
        let _ = &mut r;
    }
}

fn ref_uint(b: &[u8], big: bool) -> u128 {
    let mut v = 0u128;
    if big {
        for &x in b {
            v = (v << 8) | x as u128;
        }
    } else {
        for &x in b.iter().rev() {
            v = (v << 8) | x as u128;
        }
    }
    v
}

fn fixed_buffers() -> Vec<Vec<u8>> {
    vec![
        (1..=16u8).collect(),
        (0..16u8).map(|i| 0xf0 | i).collect(),
        vec![0xff; 16],
        vec![0x80, 0, 0, 0, 0, 0, 0, 0, 0, 0, 0, 0, 0, 0, 0, 0x80],
        vec![0, 0, 0, 0, 0, 0, 0, 0x80, 0x7f, 0xff, 0xff, 0xff, 0xff, 0xff, 0xff, 0xff],
        vec![0x00, 0x00, 0x80, 0x7f, 0x00, 0x00, 0xc0, 0x7f, 0, 0, 0, 0, 0, 0, 0xf0, 0x3f],
        vec![0; 16],
    ]
}

fn check_fixed<E: Endianity>(ctx: &mut Ctx, e: E, ename: &str, buf: &[u8]) {
    let big = e.is_big_endian();
    macro_rules! one {
        ($name:expr, $n:expr, $call:expr, $cmp:expr) => {{
            ctx.eval(1);
            let mut r = EndianSlice::new(buf, e);
            let got = guard(|| $call(&mut r));
            let used = buf.len() - r.len();
            let case = || format!("{} {} on {}", ename, $name, mcx::hex(buf));
            match got {
                Err(p) => ctx.fail_panic($name, &p, case()),
                Ok(Ok(v)) => {
                    if buf.len() < $n {
                        ctx.fail($name, "eof", "accepted-short-input", case());
                    } else {
                        let w = ref_uint(&buf[..$n], big);
                        #[allow(clippy::redundant_closure_call)]
                        if !($cmp)(v, w) || used != $n {
                            ctx.fail($name, "value", "wrong-value", format!("{}: want {:#x} used {} (got used {})", case(), w, $n, used));
                        }
                        ctx.outcome("fixed:ok");
                    }
                }
                Ok(Err(_)) => {
                    if buf.len() >= $n {
                        ctx.fail($name, "eof", "rejected-complete-input", case());
                    }
                    ctx.outcome("fixed:eof");
                }
            }
        }};
    }
    one!("read_u8", 1, |r: &mut EndianSlice<E>| r.read_u8(), |v: u8, w: u128| v as u128 == w);
    one!("read_i8", 1, |r: &mut EndianSlice<E>| r.read_i8(), |v: i8, w: u128| v == w as u8 as i8);
    one!("read_u16", 2, |r: &mut EndianSlice<E>| r.read_u16(), |v: u16, w: u128| v as u128 == w);
    one!("read_i16", 2, |r: &mut EndianSlice<E>| r.read_i16(), |v: i16, w: u128| v == w as u16 as i16);
    one!("read_u32", 4, |r: &mut EndianSlice<E>| r.read_u32(), |v: u32, w: u128| v as u128 == w);
    one!("read_i32", 4, |r: &mut EndianSlice<E>| r.read_i32(), |v: i32, w: u128| v == w as u32 as i32);
    one!("read_u64", 8, |r: &mut EndianSlice<E>| r.read_u64(), |v: u64, w: u128| v as u128 == w);
    one!("read_i64", 8, |r: &mut EndianSlice<E>| r.read_i64(), |v: i64, w: u128| v == w as u64 as i64);
    one!("read_u128", 16, |r: &mut EndianSlice<E>| r.read_u128(), |v: u128, w: u128| v == w);
    one!("read_f32", 4, |r: &mut EndianSlice<E>| r.read_f32(), |v: f32, w: u128| v.to_bits() == w as u32);
    one!("read_f64", 8, |r: &mut EndianSlice<E>| r.read_f64(), |v: f64, w: u128| v.to_bits() == w as u64);
    for n in 1..=8usize {
        one!("read_uint", n, |r: &mut EndianSlice<E>| r.read_uint(n), |v: u64, w: u128| v as u128 == w);
    }
    for s in [1u8, 2, 4, 8] {
        one!("read_address", s as usize, |r: &mut EndianSlice<E>| r.read_address(s), |v: u64, w: u128| v as u128 == w);
        one!("read_sized_offset", s as usize, |r: &mut EndianSlice<E>| r.read_sized_offset(s), |v: usize, w: u128| v as u128 == w);
    }
    one!("read_word32", 4, |r: &mut EndianSlice<E>| r.read_word(Format::Dwarf32), |v: usize, w: u128| v as u128 == w);
    one!("read_word64", 8, |r: &mut EndianSlice<E>| r.read_word(Format::Dwarf64), |v: usize, w: u128| v as u128 == w);
    one!("read_offset32", 4, |r: &mut EndianSlice<E>| r.read_offset(Format::Dwarf32), |v: usize, w: u128| v as u128 == w);
    one!("read_offset64", 8, |r: &mut EndianSlice<E>| r.read_offset(Format::Dwarf64), |v: usize, w: u128| v as u128 == w);
    one!("read_length32", 4, |r: &mut EndianSlice<E>| r.read_length(Format::Dwarf32), |v: usize, w: u128| v as u128 == w);
    one!("read_length64", 8, |r: &mut EndianSlice<E>| r.read_length(Format::Dwarf64), |v: usize, w: u128| v as u128 == w);
    let arr = |r: &mut EndianSlice<E>| r.read_u8_array::<[u8; 5]>();
    ctx.eval(1);
    let mut r = EndianSlice::new(buf, e);
    match guard(|| arr(&mut r)) {
        Err(p) => ctx.fail_panic("read_u8_array", &p, mcx::hex(buf)),
        Ok(Ok(a)) => {
            if buf.len() < 5 || a[..] != buf[..5] || r.len() != buf.len() - 5 {
                ctx.fail("read_u8_array", "value", "wrong-value", mcx::hex(buf));
            }
        }
        Ok(Err(_)) => {
            if buf.len() >= 5 {
                ctx.fail("read_u8_array", "eof", "rejected-complete-input", mcx::hex(buf));
            }
        }
    }
}

fn check_sized<E: Endianity>(ctx: &mut Ctx, e: E, s: u8) {
    let buf: Vec<u8> = (1..=16u8).map(|x| x.wrapping_mul(0x1d)).collect();
    let big = e.is_big_endian();
    ctx.eval(3);
    // read_address
    let mut r = EndianSlice::new(&buf, e);
    match guard(|| r.read_address(s)) {
        Err(p) => ctx.fail_panic("read_address", &p, format!("size {}", s)),
        Ok(Ok(v)) => {
            if !matches!(s, 1 | 2 | 4 | 8) || v as u128 != ref_uint(&buf[..s as usize], big) || r.len() != buf.len() - s as usize {
                ctx.fail("read_address", "value", "wrong-value", format!("size {} got {:#x}", s, v));
            }
            ctx.outcome("sized:ok");
        }
        Ok(Err(_)) => {
            if matches!(s, 1 | 2 | 4 | 8) {
                ctx.fail("read_address", "reject", "rejected-valid-size", format!("size {}", s));
            }
            ctx.outcome("sized:err");
        }
    }
    let mut r = EndianSlice::new(&buf, e);
    match guard(|| r.read_sized_offset(s)) {
        Err(p) => ctx.fail_panic("read_sized_offset", &p, format!("size {}", s)),
        Ok(Ok(v)) => {
            if !matches!(s, 1 | 2 | 4 | 8) || v as u128 != ref_uint(&buf[..s as usize], big) || r.len() != buf.len() - s as usize {
                ctx.fail("read_sized_offset", "value", "wrong-value", format!("size {} got {:#x}", s, v));
            }
        }
        Ok(Err(_)) => {
            if matches!(s, 1 | 2 | 4 | 8) {
                ctx.fail("read_sized_offset", "reject", "rejected-valid-size", format!("size {}", s));
            }
        }
    }
    // read_address_size on byte s
    let b = [s];
    let mut r = EndianSlice::new(&b[..], e);
    match guard(|| r.read_address_size()) {
        Err(p) => ctx.fail_panic("read_address_size", &p, format!("byte {}", s)),
        Ok(Ok(v)) => {
            if !matches!(s, 1 | 2 | 4 | 8) || v != s {
                ctx.fail("read_address_size", "accept", "accepted-bad-size", format!("byte {}", s));
            }
        }
        Ok(Err(_)) => {
            if matches!(s, 1 | 2 | 4 | 8) {
                ctx.fail("read_address_size", "reject", "rejected-valid-size", format!("byte {}", s));
            }
        }
    }
    // writer: write_udata / write_sdata with size s
    for &v in &[0u64, 1, 0x7f, 0x80, 0xff, 0x100, 0x7fff, 0x8000, 0xffff, 0x1_0000, 0x7fff_ffff, 0x8000_0000, 0xffff_ffff, 0x1_0000_0000, i64::MAX as u64, 1 << 63, u64::MAX] {
        ctx.eval(2);
        let mut w = gimli::write::EndianVec::new(e);
        let res = guard(|| w.write_udata(v, s));
        let fits = matches!(s, 1 | 2 | 4 | 8) && (s == 8 || v < (1u64 << (8 * s as u32)));
        match res {
            Err(p) => ctx.fail_panic("write_udata", &p, format!("v={:#x} size {}", v, s)),
            Ok(Ok(())) => {
                if !fits {
                    ctx.fail("write_udata", "accept", "accepted-unencodable", format!("v={:#x} size {} -> {}", v, s, mcx::hex(w.slice())));
                } else if w.slice().len() != s as usize || ref_uint(w.slice(), big) != v as u128 {
                    ctx.fail("write_udata", "bytes", "wrong-encoding", format!("v={:#x} size {} -> {}", v, s, mcx::hex(w.slice())));
                } else {
                    let mut r = EndianSlice::new(w.slice(), e);
                    if r.read_address(s).ok() != Some(v) {
                        ctx.fail("write_udata", "roundtrip", "not-identity", format!("v={:#x} size {}", v, s));
                    }
                }
            }
            Ok(Err(_)) => {
                if fits {
                    ctx.fail("write_udata", "reject", "rejected-encodable", format!("v={:#x} size {}", v, s));
                }
            }
        }
        let sv = v as i64;
        let mut w = gimli::write::EndianVec::new(e);
        let res = guard(|| w.write_sdata(sv, s));
        let fits = matches!(s, 1 | 2 | 4 | 8) && (s == 8 || (sv >= -(1i64 << (8 * s as u32 - 1)) && sv < (1i64 << (8 * s as u32 - 1))));
        match res {
            Err(p) => ctx.fail_panic("write_sdata", &p, format!("v={} size {}", sv, s)),
            Ok(Ok(())) => {
                if !fits {
                    ctx.fail("write_sdata", "accept", "accepted-unencodable", format!("v={} size {} -> {}", sv, s, mcx::hex(w.slice())));
                } else {
                    let raw = ref_uint(w.slice(), big) as u64;
                    let sh = 64 - 8 * s as u32;
                    let back = ((raw << sh) as i64) >> sh;
                    if w.slice().len() != s as usize || back != sv {
                        ctx.fail("write_sdata", "bytes", "wrong-encoding", format!("v={} size {} -> {}", sv, s, mcx::hex(w.slice())));
                    }
                }
            }
            Ok(Err(_)) => {
                if fits {
                    ctx.fail("write_sdata", "reject", "rejected-encodable", format!("v={} size {}", sv, s));
                }
            }
        }
        // write_udata_at
        if matches!(s, 1 | 2 | 4 | 8) {
            let mut w = gimli::write::EndianVec::new(e);
            w.write(&[0xaa; 12]).unwrap();
            let res = guard(|| w.write_udata_at(2, v, s));
            let fits = s == 8 || v < (1u64 << (8 * s as u32));
            match res {
                Err(p) => ctx.fail_panic("write_udata_at", &p, format!("v={:#x} size {}", v, s)),
                Ok(Ok(())) => {
                    let sl = w.slice();
                    if !fits || sl.len() != 12 || sl[..2] != [0xaa; 2] || sl[2 + s as usize..].iter().any(|&x| x != 0xaa) || ref_uint(&sl[2..2 + s as usize], big) != v as u128 {
                        ctx.fail("write_udata_at", "bytes", "wrong-encoding", format!("v={:#x} size {} -> {}", v, s, mcx::hex(sl)));
                    }
                }
                Ok(Err(_)) => {
                    if fits {
                        ctx.fail("write_udata_at", "reject", "rejected-encodable", format!("v={:#x} size {}", v, s));
                    }
                }
            }
        }
    }
}

fn check_initial_length<E: Endianity>(ctx: &mut Ctx, e: E, first: u32, follow: u64, avail: usize) {
    ctx.eval(1);
    let big = e.is_big_endian();
    let mut enc = mcx::enc::Enc::new(big);
    enc.u32(first).u64(follow);
    let buf = &enc.buf[..avail.min(enc.buf.len())];
    let mut r = EndianSlice::new(buf, e);
    let got = guard(|| r.read_initial_length());
    let used = buf.len() - r.len();
    let case = || format!("{} avail {}", mcx::hex(&enc.buf), avail);
    let want: Option<(u64, Format, usize)> = if avail < 4 {
        None
    } else if first < 0xffff_fff0 {
        Some((first as u64, Format::Dwarf32, 4))
    } else if first == 0xffff_ffff && avail >= 12 {
        Some((follow, Format::Dwarf64, 12))
    } else {
        None
    };
    match (got, want) {
        (Err(p), _) => ctx.fail_panic("read_initial_length", &p, case()),
        (Ok(Ok((l, f))), Some((wl, wf, wn))) => {
            if l as u64 != wl || f != wf || used != wn {
                ctx.fail("read_initial_length", "value", "wrong-value", format!("{}: got ({},{:?}) used {}", case(), l, f, used));
            }
            ctx.outcome("initlen:ok");
        }
        (Ok(Ok((l, f))), None) => ctx.fail("read_initial_length", "accept", "accepted-bad-encoding", format!("{}: got ({},{:?})", case(), l, f)),
        (Ok(Err(_)), Some(_)) => ctx.fail("read_initial_length", "reject", "rejected-valid", case()),
        (Ok(Err(_)), None) => ctx.outcome("initlen:err"),
    }
    // writer side: write_initial_length + _at, then read back
    if avail >= 12 {
        for fmt in [Format::Dwarf32, Format::Dwarf64] {
            let len = if fmt == Format::Dwarf32 { first as u64 } else { follow };
            if fmt == Format::Dwarf32 && first >= 0xffff_fff0 {
                continue; // not a representable 32-bit length (reserved values)
            }
            ctx.eval(1);
            let mut w = gimli::write::EndianVec::new(e);
            let res = guard(|| {
                let off = w.write_initial_length(fmt)?;
                w.write_initial_length_at(off, len, fmt)
            });
            match res {
                Err(p) => ctx.fail_panic("write_initial_length", &p, format!("{:?} {}", fmt, len)),
                Ok(Err(_)) => ctx.fail("write_initial_length", "reject", "rejected-encodable", format!("{:?} {}", fmt, len)),
                Ok(Ok(())) => {
                    let mut r = EndianSlice::new(w.slice(), e);
                    match r.read_initial_length() {
                        Ok((l, f)) if l as u64 == len && f == fmt && r.is_empty() => {}
                        other => ctx.fail("write_initial_length", "roundtrip", "not-identity", format!("{:?} {} -> {} reads {:?}", fmt, len, mcx::hex(w.slice()), other)),
                    }
                }
            }
        }
    }
}

fn check_write_fixed<E: Endianity>(ctx: &mut Ctx, e: E, v: u128) {
    ctx.eval(10);
    let big = e.is_big_endian();
    let mut w = gimli::write::EndianVec::new(e);
    w.write_u8(v as u8).unwrap();
    w.write_u16(v as u16).unwrap();
    w.write_u32(v as u32).unwrap();
    w.write_u64(v as u64).unwrap();
    w.write_u128(v).unwrap();
    let s = w.slice().to_vec();
    let ok = s.len() == 31
        && ref_uint(&s[0..1], big) == (v as u8) as u128
        && ref_uint(&s[1..3], big) == (v as u16) as u128
        && ref_uint(&s[3..7], big) == (v as u32) as u128
        && ref_uint(&s[7..15], big) == (v as u64) as u128
        && ref_uint(&s[15..31], big) == v;
    if !ok {
        ctx.fail("write_uN", "bytes", "wrong-encoding", format!("v={:#x} -> {}", v, mcx::hex(&s)));
    }
    let mut r = EndianSlice::new(&s, e);
    let back = (r.read_u8().ok(), r.read_u16().ok(), r.read_u32().ok(), r.read_u64().ok(), r.read_u128().ok());
    if back != (Some(v as u8), Some(v as u16), Some(v as u32), Some(v as u64), Some(v)) {
        ctx.fail("write_uN", "roundtrip", "not-identity", format!("v={:#x}", v));
    }
    // _at variants overwrite in place
    let mut w = gimli::write::EndianVec::new(e);
    w.write(&[0x55; 40]).unwrap();
    w.write_u8_at(1, v as u8).unwrap();
    w.write_u16_at(3, v as u16).unwrap();
    w.write_u32_at(6, v as u32).unwrap();
    w.write_u64_at(11, v as u64).unwrap();
    w.write_u128_at(20, v).unwrap();
    let s = w.slice();
    let ok = s.len() == 40
        && s[0] == 0x55 && s[2] == 0x55 && s[5] == 0x55 && s[10] == 0x55 && s[19] == 0x55 && s[36..] == [0x55; 4]
        && ref_uint(&s[1..2], big) == (v as u8) as u128
        && ref_uint(&s[3..5], big) == (v as u16) as u128
        && ref_uint(&s[6..10], big) == (v as u32) as u128
        && ref_uint(&s[11..19], big) == (v as u64) as u128
        && ref_uint(&s[20..36], big) == v;
    if !ok {
        ctx.fail("write_uN_at", "bytes", "wrong-encoding", format!("v={:#x} -> {}", v, mcx::hex(s)));
    }
    // out-of-range _at must be an error, not a panic
    let mut w = gimli::write::EndianVec::new(e);
    w.write(&[0; 4]).unwrap();
    match guard(|| w.write_u32_at(1, 7)) {
        Err(p) => ctx.fail_panic("write_u32_at", &p, "offset 1 len 4".into()),
        Ok(Ok(())) => ctx.fail("write_u32_at", "accept", "accepted-out-of-range", "offset 1 len 4".into()),
        Ok(Err(_)) => {}
    }
}

fn c09(tier: Tier) -> CheckDef {
    let mut subs = vec![];
    let l16 = tier.pick(3usize, 4usize);
    subs.push(
        Sub::new(&format!("uleb-u16-len<={}", l16), 257, "every byte string of that length fed to read_uleb128_u16 (index = first byte; 256 = empty string)", move |ctx, i| {
            if i == 256 {
                check_leb16(ctx, &[]);
                ctx.nontriv(1);
                return;
            }
            let mut n = 0u64;
            strings_from(i as u8, l16, &mut |b| {
                check_leb16(ctx, b);
                n += 1;
            });
            ctx.nontriv(n);
            if ctx.want_sample() {
                ctx.sample(format!("all {} strings starting {:02x}", n, i));
            }
        })
        .flavours(&["chk", "rel"]),
    );
    subs.push(
        Sub::new("leb-u64-len<=3", 257, "every byte string of length <= 3 fed to read_uleb128, read_uleb128_u32, read_sleb128, skip_leb128", move |ctx, i| {
            if i == 256 {
                check_leb64(ctx, &[]);
                ctx.nontriv(1);
                return;
            }
            let mut n = 0u64;
            strings_from(i as u8, 3, &mut |b| {
                check_leb64(ctx, b);
                n += 1;
            });
            ctx.nontriv(n);
        })
        .flavours(&["chk", "rel"]),
    );
    // long boundary strings: 8-byte prefix, then b8, b9 in all 256 values, b10 in a set, then a terminator
    let prefixes: Vec<[u8; 8]> = vec![
        [0x80; 8],
        [0xff; 8],
        [0x81; 8],
        [0xfe; 8],
        [0xaa, 0xd5, 0xaa, 0xd5, 0xaa, 0xd5, 0xaa, 0xd5],
        [0xd5, 0xaa, 0xd5, 0xaa, 0xd5, 0xaa, 0xd5, 0xaa],
        [0x80, 0x80, 0x80, 0x80, 0x80, 0x80, 0x80, 0xff],
        [0xff, 0x80, 0x80, 0x80, 0x80, 0x80, 0x80, 0x80],
        [0xc0; 8],
        [0xbf; 8],
        [0x80, 0x81, 0x82, 0x83, 0x84, 0x85, 0x86, 0x87],
        [0xf0, 0xe1, 0xd2, 0xc3, 0xb4, 0xa5, 0x96, 0x87],
    ];
    let b10s: Vec<u8> = tier.pick(vec![0x00, 0x01, 0x7f, 0x80], (0..=255u8).collect());
    let np = prefixes.len() as u64;
    subs.push(
        Sub::new("leb-u64-boundary-9..12", np * 256, "p.b8.b9.b10.00 for 12 eight-byte continuation prefixes p, all b8, all b9, b10 in {00,01,7f,80} (quick) or all 256 (thorough); also the 9- and 10-byte prefixes of each", move |ctx, i| {
            let p = &prefixes[(i / 256) as usize];
            let b8 = (i % 256) as u8;
            let mut buf = p.to_vec();
            buf.push(b8);
            check_leb64(ctx, &buf);
            ctx.nontriv(1);
            buf.push(0);
            for b9 in 0..=255u8 {
                buf.truncate(9);
                buf.push(b9);
                check_leb64(ctx, &buf);
                ctx.nontriv(1);
                for &b10 in &b10s {
                    buf.truncate(10);
                    buf.push(b10);
                    check_leb64(ctx, &buf);
                    buf.push(0);
                    check_leb64(ctx, &buf);
                    ctx.nontriv(2);
                }
            }
            if ctx.want_sample() {
                ctx.sample(format!("prefix {} b8={:02x} x all b9 x b10 set", mcx::hex(p), b8));
            }
        })
        .flavours(&["chk", "rel"]),
    );
    // every encoded length 1..=11: L-1 equal continuation bytes, then every last byte, then a
    // short tail; crosses the u16 (3 bytes), u32 (5 bytes) and u64 (10 bytes) width boundaries
    let fills: [u8; 6] = [0x80, 0x81, 0xff, 0xfe, 0xc0, 0xbf];
    subs.push(
        Sub::new("leb-every-length-1..11", 11 * 6, "for every length L in 1..=11 and fill byte f in {80,81,ff,fe,c0,bf}: f^(L-1) . b for all 256 b, alone and followed by 00 / 01 / 7f / 80 00; fed to read_uleb128, read_uleb128_u32, read_uleb128_u16, read_sleb128, skip_leb128", move |ctx, i| {
            let l = (i / 6) as usize + 1;
            let f = fills[(i % 6) as usize];
            let mut buf = vec![f; l - 1];
            for b in 0..=255u8 {
                buf.truncate(l - 1);
                buf.push(b);
                check_leb64(ctx, &buf);
                check_leb16(ctx, &buf);
                for tail in [&[0x00u8][..], &[0x01], &[0x7f], &[0x80, 0x00]] {
                    buf.truncate(l);
                    buf.extend_from_slice(tail);
                    check_leb64(ctx, &buf);
                    check_leb16(ctx, &buf);
                }
            }
            ctx.nontriv(256 * 5);
            if ctx.want_sample() {
                ctx.sample(format!("{:02x} x {} then every last byte", f, l - 1));
            }
        })
        .flavours(&["chk", "rel"]),
    );
    let bvals = boundary_u64();
    let nb = bvals.len() as u64;
    let wide = tier.pick(1u64 << 22, 1u64 << 22); // cheap: thorough bound in both tiers
    subs.push(Sub::new("leb-write-read", wide / 256 + 1, "write/size/read identity and minimality: all values < 2^22 and their negations, plus 2^k-1, 2^k, 2^k+1, !2^k, -2^k for k<64 and byte-shift patterns", move |ctx, i| {
        if i == wide / 256 {
            for &v in &bvals {
                check_write_leb(ctx, v);
            }
            ctx.nontriv(nb);
            return;
        }
        for v in i * 256..(i + 1) * 256 {
            check_write_leb(ctx, v);
            check_write_leb(ctx, v.wrapping_neg());
        }
        ctx.nontriv(512);
        if ctx.want_sample() {
            ctx.sample(format!("values {}..{} and negations", i * 256, (i + 1) * 256));
        }
    }));
    let bufs = fixed_buffers();
    let nbuf = bufs.len() as u64;
    subs.push(
        Sub::new("fixed-width", nbuf * 17 * 4, "read_u8..u128/i8..i64/f32/f64/read_uint(1..8)/read_address/read_sized_offset/read_word/offset/length/read_u8_array on 7 marker buffers truncated to every length 0..=16, for LittleEndian, BigEndian and RunTimeEndian both ways", move |ctx, i| {
            let mut m = mcx::space::Mix(i);
            let e = m.take(4);
            let len = m.take(17) as usize;
            let b = &bufs[m.take(nbuf) as usize][..len];
            match e {
                0 => check_fixed(ctx, LittleEndian, "LE", b),
                1 => check_fixed(ctx, BigEndian, "BE", b),
                2 => check_fixed(ctx, RunTimeEndian::Little, "RT-LE", b),
                _ => check_fixed(ctx, RunTimeEndian::Big, "RT-BE", b),
            }
            ctx.nontriv(1);
            if ctx.want_sample() {
                ctx.sample(format!("endian#{} buffer {}", e, mcx::hex(b)));
            }
        })
        .flavours(&["chk", "rel"]),
    );
    subs.push(Sub::new("sized-args", 256 * 2, "read_address(s), read_sized_offset(s), read_address_size(byte s), write_udata/write_sdata/write_udata_at(size s) for every s in 0..=255, 17 boundary values, both byte orders", move |ctx, i| {
        let s = (i / 2) as u8;
        if i % 2 == 0 {
            check_sized(ctx, LittleEndian, s)
        } else {
            check_sized(ctx, RunTimeEndian::Big, s)
        }
        ctx.nontriv(1);
        if ctx.want_sample() {
            ctx.sample(format!("size argument {}", s));
        }
    }));
    let firsts: Vec<u32> = {
        let mut v = vec![0u32, 1, 0x7fff_ffff, 0x8000_0000, 0xffff_ffef];
        v.extend(0xffff_fff0..=0xffff_ffffu32);
        v
    };
    let follows: Vec<u64> = vec![0, 1, 0xffff_ffff, 0x1_0000_0000, u64::MAX >> 1, u64::MAX];
    let nf = firsts.len() as u64;
    let nfo = follows.len() as u64;
    subs.push(Sub::new("initial-length", nf * nfo * 13 * 2, "read_initial_length on first word in {0,1,2^31-1,2^31,0xffffffef,0xfffffff0..=0xffffffff} x 6 follow-up words x every truncation 0..=12 x both byte orders; write_initial_length(+_at) round trip", move |ctx, i| {
        let mut m = mcx::space::Mix(i);
        let big = m.flag();
        let avail = m.take(13) as usize;
        let fo = follows[m.take(nfo) as usize];
        let fi = firsts[m.take(nf) as usize];
        if big {
            check_initial_length(ctx, BigEndian, fi, fo, avail)
        } else {
            check_initial_length(ctx, LittleEndian, fi, fo, avail)
        }
        ctx.nontriv(1);
        if ctx.want_sample() {
            ctx.sample(format!("first={:#x} follow={:#x} avail={} big={}", fi, fo, avail, big));
        }
    }));
    let wv: Vec<u128> = {
        let mut v: Vec<u128> = boundary_u64().into_iter().map(|x| x as u128).collect();
        v.extend([u128::MAX, 1u128 << 127, 0x0102_0304_0506_0708_090a_0b0c_0d0e_0f10]);
        v
    };
    let nwv = wv.len() as u64;
    subs.push(Sub::new("write-fixed", nwv * 2, "write_u8..u128 and the *_at variants for boundary values, both byte orders, read back", move |ctx, i| {
        let v = wv[(i / 2) as usize];
        if i % 2 == 0 {
            check_write_fixed(ctx, LittleEndian, v)
        } else {
            check_write_fixed(ctx, BigEndian, v)
        }
        ctx.nontriv(1);
    }));
    CheckDef {
        level: "exploration",
        rule: "exhaustive enumeration of the byte strings / values / size arguments stated per sub-space in coverage.bounds; every case is a distinct input by construction (indices are distinct); non-trivial = the case reached a comparison with the independent reference (mcx::leb in 128-bit arithmetic, from_le/be bytes)".into(),
        assumptions: vec![
            "reference LEB128 decoder/encoder in mcx::leb is correct (unit-tested, 128-bit arithmetic)".into(),
            "over-long but fitting LEB128 encodings may be accepted or rejected (property leaves it open); accepted ones must have the right value and length".into(),
            "Dwarf32 initial lengths >= 0xfffffff0 are not writable lengths (reserved escape codes)".into(),
        ],
        subs,
        required_outcomes: ["uleb:ok", "uleb:err-nofit", "uleb:err-incomplete", "sleb:ok", "sleb:err-nofit", "uleb16:ok", "uleb16:err-nofit", "fixed:ok", "fixed:eof", "sized:ok", "sized:err", "initlen:ok", "initlen:err"].iter().map(|s| s.to_string()).collect(),
    }
}
