//! Frame-table models for C18.
use super::super::model::*;
use super::Subject;
use gimli::write as w;
use gimli::{Encoding, Format, Register};

#[derive(Clone, Debug)]
pub enum MCfi {
    Cfa(u16, i32),
    CfaOffset(i32),
    Offset(u16, i32),
    Restore(u16),
    Remember,
    RestoreState,
    ValExpression(u16, Vec<MOp>),
    CfaExpression(Vec<MOp>),
}

#[derive(Clone, Debug)]
pub struct MCie {
    pub version: u16,
    pub fmt64: bool,
    pub asz: u8,
    pub code_align: u8,
    pub data_align: i8,
    pub ra: u16,
    pub personality: Option<(u8, MAddr)>,
    pub lsda_enc: Option<u8>,
    pub fde_enc: u8,
    pub signal: bool,
    pub insns: Vec<MCfi>,
}

#[derive(Clone, Debug)]
pub struct MFde {
    pub cie: usize,
    pub addr: MAddr,
    pub len: u32,
    pub lsda: Option<MAddr>,
    pub insns: Vec<(u32, MCfi)>,
}

#[derive(Clone, Debug)]
pub struct MFrame {
    pub cies: Vec<MCie>,
    pub fdes: Vec<MFde>,
}

fn expr(ops: &[MOp], syms: &[u64], o: BuildOpts) -> w::Expression {
    let ids: Vec<UnitIds> = vec![];
    let rc = RefCtx { u: 0, ids: &ids, unit_ids: None };
    build_expr(ops, &rc, syms, o)
}

fn cfi(i: &MCfi, syms: &[u64], o: BuildOpts) -> w::CallFrameInstruction {
    use w::CallFrameInstruction as C;
    match i {
        MCfi::Cfa(r, off) => C::Cfa(Register(*r), *off),
        MCfi::CfaOffset(off) => C::CfaOffset(*off),
        MCfi::Offset(r, off) => C::Offset(Register(*r), *off),
        MCfi::Restore(r) => C::Restore(Register(*r)),
        MCfi::Remember => C::RememberState,
        MCfi::RestoreState => C::RestoreState,
        MCfi::ValExpression(r, x) => C::ValExpression(Register(*r), expr(x, syms, o)),
        MCfi::CfaExpression(x) => C::CfaExpression(expr(x, syms, o)),
    }
}

pub fn build_frame(f: &MFrame, syms: &[u64], o: BuildOpts) -> w::FrameTable {
    let mut t = w::FrameTable::default();
    let mut ids = vec![];
    for c in &f.cies {
        let enc = Encoding { version: c.version, format: if c.fmt64 { Format::Dwarf64 } else { Format::Dwarf32 }, address_size: c.asz };
        let mut cie = w::CommonInformationEntry::new(enc, c.code_align, c.data_align, Register(c.ra));
        cie.personality = c.personality.as_ref().map(|(pe, a)| (gimli::DwEhPe(*pe), conv_addr(a, syms, o)));
        cie.lsda_encoding = c.lsda_enc.map(gimli::DwEhPe);
        cie.fde_address_encoding = gimli::DwEhPe(c.fde_enc);
        cie.signal_trampoline = c.signal;
        for i in &c.insns {
            cie.add_instruction(cfi(i, syms, o));
        }
        ids.push(t.add_cie(cie));
    }
    for d in &f.fdes {
        let mut fde = w::FrameDescriptionEntry::new(conv_addr(&d.addr, syms, o), d.len);
        fde.lsda = d.lsda.as_ref().map(|a| conv_addr(a, syms, o));
        for (off, i) in &d.insns {
            fde.add_instruction(*off, cfi(i, syms, o));
        }
        t.add_fde(ids[d.cie], fde);
    }
    t
}

type ExpRel = (String, String, u8, Option<i64>, Option<u8>);

fn pe_size(pe: u8, asz: u8) -> u8 {
    match pe & 0x0f {
        0x00 => asz,
        0x02 | 0x0a => 2,
        0x03 | 0x0b => 4,
        0x04 | 0x0c => 8,
        _ => 0,
    }
}

fn cfi_relocs(i: &MCfi, sec: &str, asz: u8, symbolic: bool, out: &mut Vec<ExpRel>) {
    if let MCfi::ValExpression(_, x) | MCfi::CfaExpression(x) = i {
        for op in x {
            if let MOp::Addr(MAddr::Sym { sym, addend }) = op {
                if symbolic {
                    out.push((sec.to_string(), format!("sym{}", sym), asz, Some(*addend), None));
                }
            }
        }
    }
}

/// The relocatable fields of a frame table: in .debug_frame every FDE's
/// CIE pointer (offset into .debug_frame) and every symbolic address; in
/// .eh_frame only symbolic addresses (the CIE pointer is self-relative).
/// CIEs are emitted when first referenced by an FDE, once.
pub fn frame_relocs(f: &MFrame, eh: bool, symbolic: bool, out: &mut Vec<ExpRel>) {
    let sec = if eh { ".eh_frame" } else { ".debug_frame" };
    let mut cie_done = vec![false; f.cies.len()];
    for d in &f.fdes {
        let c = &f.cies[d.cie];
        if !cie_done[d.cie] {
            cie_done[d.cie] = true;
            if let Some((pe, MAddr::Sym { sym, addend })) = &c.personality {
                if symbolic {
                    out.push((sec.into(), format!("sym{}", sym), pe_size(*pe, c.asz), Some(*addend), Some(*pe)));
                }
            }
            for i in &c.insns {
                cfi_relocs(i, sec, c.asz, symbolic, out);
            }
        }
        if !eh {
            out.push((sec.into(), ".debug_frame".into(), if c.fmt64 { 8 } else { 4 }, None, None));
        }
        if let MAddr::Sym { sym, addend } = &d.addr {
            if symbolic {
                if c.fde_enc != 0 {
                    out.push((sec.into(), format!("sym{}", sym), pe_size(c.fde_enc, c.asz), Some(*addend), Some(c.fde_enc)));
                } else {
                    out.push((sec.into(), format!("sym{}", sym), c.asz, Some(*addend), None));
                }
            }
        }
        if let (Some(MAddr::Sym { sym, addend }), Some(pe)) = (&d.lsda, c.lsda_enc) {
            if symbolic {
                out.push((sec.into(), format!("sym{}", sym), pe_size(pe, c.asz), Some(*addend), Some(pe)));
            }
        }
        for (_, i) in &d.insns {
            cfi_relocs(i, sec, c.asz, symbolic, out);
        }
    }
}

fn base_cie(version: u16, fmt64: bool, asz: u8) -> MCie {
    MCie { version, fmt64, asz, code_align: 1, data_align: -8, ra: 16, personality: None, lsda_enc: None, fde_enc: 0, signal: false, insns: vec![MCfi::Cfa(7, 8), MCfi::Offset(16, -8)] }
}

const SYMS: [u64; 3] = [0x10000, 0x20000, 0x30040];

fn fde(cie: usize, k: usize) -> MFde {
    let addr = match k % 3 {
        0 => MAddr::Sym { sym: 0, addend: 0 },
        1 => MAddr::Sym { sym: 1, addend: 0x40 },
        _ => MAddr::C(0x5000),
    };
    MFde { cie, addr, len: 0x30 + k as u32, lsda: None, insns: vec![(1, MCfi::CfaOffset(16)), (4, MCfi::Offset(6, -16)), (8, MCfi::Remember), (12, MCfi::Restore(6)), (16, MCfi::RestoreState)] }
}

pub fn frame_cases() -> Vec<(String, Subject)> {
    let mut v = vec![];
    let empty = || Model { units: vec![], syms: SYMS.to_vec() };
    // two-byte pointer formats need values below 2^16
    let small = || Model { units: vec![], syms: vec![0x1000, 0x2000, 0x3040] };
    // .debug_frame
    for version in [1u16, 3, 4] {
        for fmt64 in [false, true] {
            for asz in [4u8, 8] {
                for shape in 0..4 {
                    let mut cies = vec![base_cie(version, fmt64, asz)];
                    let mut fdes = vec![fde(0, 0)];
                    match shape {
                        0 => {}
                        1 => {
                            fdes.push(fde(0, 1));
                            fdes.push(fde(0, 2));
                        }
                        2 => {
                            // a second CIE at a non-zero offset, FDEs alternate
                            let mut c2 = base_cie(version, fmt64, asz);
                            c2.ra = 17;
                            c2.code_align = 4;
                            cies.push(c2);
                            fdes.push(fde(1, 1));
                            fdes.push(fde(0, 2));
                            fdes.push(MFde { insns: vec![(4, MCfi::CfaOffset(24))], ..fde(1, 0) });
                        }
                        _ => {
                            // relocatable address inside a CFI expression
                            let mut c2 = base_cie(version, fmt64, asz);
                            c2.ra = 18;
                            c2.insns.push(MCfi::ValExpression(3, vec![MOp::Addr(MAddr::Sym { sym: 2, addend: 8 }), MOp::Deref]));
                            cies.push(c2);
                            fdes.push(MFde { insns: vec![(2, MCfi::CfaExpression(vec![MOp::Breg(7, 8), MOp::Addr(MAddr::Sym { sym: 1, addend: 0 }), MOp::Deref])), (4, MCfi::ValExpression(5, vec![MOp::Addr(MAddr::C(0x99))]))], ..fde(1, 1) });
                        }
                    }
                    v.push((format!("debug_frame-v{}:{}-a{}-shape{}", version, if fmt64 { 64 } else { 32 }, asz, shape), Subject { model: empty(), debug_frame: Some(MFrame { cies, fdes }), eh_frame: None }));
                }
            }
        }
    }
    // .eh_frame: FDE pointer encodings
    let encs: [u8; 13] = [0x00, 0x02, 0x03, 0x04, 0x0b, 0x0c, 0x10, 0x12, 0x13, 0x14, 0x1a, 0x1b, 0x1c];
    for asz in [4u8, 8] {
        for &pe in &encs {
            // 8-byte values in a 4-byte address space are legal encodings too
            let mut c = base_cie(1, false, asz);
            c.fde_enc = pe;
            let mut c2 = c.clone();
            c2.ra = 17;
            let fdes = vec![fde(0, 0), fde(1, 1), fde(0, 2), fde(1, 0)];
            v.push((format!("eh_frame-fde-enc:{:#x}-a{}", pe, asz), Subject { model: if pe & 0x0f == 0x02 || pe & 0x0f == 0x0a { small() } else { empty() }, debug_frame: None, eh_frame: Some(MFrame { cies: vec![c, c2], fdes }) }));
        }
        // personality and LSDA
        for &ppe in &[0x00u8, 0x03, 0x1b, 0x9b, 0x80, 0x14] {
            let mut c = base_cie(1, false, asz);
            c.personality = Some((ppe, MAddr::Sym { sym: 2, addend: 0 }));
            c.fde_enc = 0x1b;
            let fdes = vec![fde(0, 0), fde(0, 1)];
            v.push((format!("eh_frame-personality:{:#x}-a{}", ppe, asz), Subject { model: empty(), debug_frame: None, eh_frame: Some(MFrame { cies: vec![c.clone()], fdes: fdes.clone() }) }));
            let mut c = c;
            c.personality = Some((ppe, MAddr::C(0x6000)));
            c.lsda_enc = Some(ppe & 0x7f);
            c.signal = true;
            let fdes: Vec<MFde> = fdes.into_iter().enumerate().map(|(k, f)| MFde { lsda: Some(if k == 0 { MAddr::Sym { sym: 1, addend: 0x10 } } else { MAddr::C(0x7000) }), ..f }).collect();
            v.push((format!("eh_frame-lsda:{:#x}-a{}", ppe & 0x7f, asz), Subject { model: empty(), debug_frame: None, eh_frame: Some(MFrame { cies: vec![c], fdes }) }));
        }
        // encodings that cannot carry a relocation (uleb128/sleb128): Err from the recording
        // writer, Ok from the direct writer is impossible to compare -> the direct write of the
        // same table with symbolic addresses resolved succeeds; counted separately
        for &pe in &[0x01u8, 0x09] {
            let mut c = base_cie(1, false, asz);
            c.fde_enc = pe;
            v.push((format!("eh_frame-unsupported:{:#x}-a{}", pe, asz), Subject { model: empty(), debug_frame: None, eh_frame: Some(MFrame { cies: vec![c], fdes: vec![fde(0, 2)] }) }));
        }
    }
    v
}
