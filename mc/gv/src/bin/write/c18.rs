//! C18: relocation is transparent on the writing and on the reading side.
use super::model::*;
use gimli::read as r;
use gimli::write as w;
use gimli::write::Writer;
use gimli::{RunTimeEndian, SectionId};
use mcx::space::Mix;
use mcx::{guard, CheckDef, Ctx, Sub, Tier};
use std::cell::RefCell;
use std::collections::{BTreeMap, BTreeSet};

#[path = "c18_dump.rs"]
mod dump;
#[path = "c18_frames.rs"]
mod frames;
#[path = "c18_readonly.rs"]
mod readonly;
use frames::*;

// ---------------------------------------------------------------------------
// Relocation-recording writer

#[derive(Clone)]
pub struct RelocSection {
    pub data: WV,
    pub relocs: Vec<w::Relocation>,
}

impl RelocSection {
    pub fn new(endian: RunTimeEndian) -> Self {
        RelocSection { data: w::EndianVec::new(endian), relocs: vec![] }
    }
}

impl w::RelocateWriter for RelocSection {
    type Writer = WV;
    fn writer(&self) -> &WV {
        &self.data
    }
    fn writer_mut(&mut self) -> &mut WV {
        &mut self.data
    }
    fn relocate(&mut self, relocation: w::Relocation) {
        self.relocs.push(relocation);
    }
}

/// One C18 subject: a unit table and/or a frame table.
#[derive(Clone, Debug)]
pub struct Subject {
    pub model: Model,
    pub debug_frame: Option<MFrame>,
    pub eh_frame: Option<MFrame>,
}

pub fn render_subject(s: &Subject) -> String {
    let mut out = String::new();
    if !s.model.units.is_empty() {
        out.push_str(&render(&s.model));
    } else {
        out.push_str(&format!("syms{:x?} ", s.model.syms));
    }
    if let Some(f) = &s.debug_frame {
        out.push_str(&format!(" debug_frame{:?}", f));
    }
    if let Some(f) = &s.eh_frame {
        out.push_str(&format!(" eh_frame{:?}", f));
    }
    out
}

pub type Bytes = BTreeMap<&'static str, Vec<u8>>;

fn write_subject<W: Writer<Endian = RunTimeEndian> + Clone>(s: &Subject, proto: W, symbolic: bool) -> Result<w::Sections<W>, w::Error> {
    let mut sections = w::Sections::new(proto);
    let o = BuildOpts { symbolic, churn: false };
    if !s.model.units.is_empty() {
        let mut d = build_dwarf(&s.model, o);
        d.write(&mut sections)?;
    }
    if let Some(f) = &s.debug_frame {
        build_frame(f, &s.model.syms, o).write_debug_frame(&mut sections.debug_frame)?;
    }
    if let Some(f) = &s.eh_frame {
        build_frame(f, &s.model.syms, o).write_eh_frame(&mut sections.eh_frame)?;
    }
    Ok(sections)
}

#[derive(Clone, Debug, PartialEq, Eq, PartialOrd, Ord)]
pub struct Rel {
    pub section: &'static str,
    pub offset: usize,
    pub size: u8,
    /// "sym3" or the name of the target section
    pub target: String,
    pub addend: i64,
    pub eh_pe: Option<u8>,
    /// The value the field holds once the relocation is applied (section
    /// bases 0, symbol values from the model), truncated to `size`.
    pub value: u64,
}

fn mask(size: u8) -> u64 {
    if size >= 8 {
        u64::MAX
    } else {
        (1u64 << (8 * size as u32)) - 1
    }
}

fn collect(sections: &w::Sections<RelocSection>, syms: &[u64]) -> (Bytes, Vec<Rel>) {
    let mut bytes = Bytes::new();
    let mut rels = vec![];
    let _ = sections.for_each(|id, s| -> Result<(), ()> {
        bytes.insert(id.name(), s.data.slice().to_vec());
        for rl in &s.relocs {
            let (target, base) = match rl.target {
                w::RelocationTarget::Symbol(i) => (format!("sym{}", i), syms.get(i).cloned().unwrap_or(0)),
                w::RelocationTarget::Section(t) => (t.name().to_string(), 0),
            };
            let mut value = base.wrapping_add(rl.addend as u64);
            if let Some(pe) = rl.eh_pe {
                // DW_EH_PE application bits 0x70: 0x10 = pcrel (relative to the field's own address)
                if pe.0 & 0x70 == 0x10 {
                    value = value.wrapping_sub(rl.offset as u64);
                }
            }
            rels.push(Rel { section: id.name(), offset: rl.offset, size: rl.size, target, addend: rl.addend, eh_pe: rl.eh_pe.map(|p| p.0), value: value & mask(rl.size) });
        }
        Ok(())
    });
    (bytes, rels)
}

fn put(buf: &mut [u8], off: usize, size: u8, v: u64, endian: RunTimeEndian) -> bool {
    let n = size as usize;
    if off + n > buf.len() || !(n == 1 || n == 2 || n == 4 || n == 8) {
        return false;
    }
    for k in 0..n {
        let byte = (v >> (8 * k)) as u8;
        match endian {
            RunTimeEndian::Little => buf[off + k] = byte,
            RunTimeEndian::Big => buf[off + n - 1 - k] = byte,
        }
    }
    true
}

fn apply(zeroed: &Bytes, rels: &[Rel], endian: RunTimeEndian, perturb: Option<(usize, u64)>) -> Option<Bytes> {
    let mut out = zeroed.clone();
    for (i, rl) in rels.iter().enumerate() {
        let mut v = rl.value;
        if let Some((pi, d)) = perturb {
            if pi == i {
                v = v.wrapping_add(d) & mask(rl.size);
            }
        }
        if !put(out.get_mut(rl.section)?, rl.offset, rl.size, v, endian) {
            return None;
        }
    }
    Some(out)
}

// ---------------------------------------------------------------------------
// Relocating reader

#[derive(Debug)]
pub struct MapData {
    pub relocs: BTreeMap<usize, u64>,
    pub asked: RefCell<BTreeSet<usize>>,
}

#[derive(Clone, Copy, Debug)]
pub struct Map<'a>(pub &'a MapData);

impl<'a> r::Relocate<usize> for Map<'a> {
    fn relocate_address(&self, offset: usize, value: u64) -> r::Result<u64> {
        match self.0.relocs.get(&offset) {
            Some(v) => {
                self.0.asked.borrow_mut().insert(offset);
                Ok(value.wrapping_add(*v))
            }
            None => Ok(value),
        }
    }
    fn relocate_offset(&self, offset: usize, value: usize) -> r::Result<usize> {
        match self.0.relocs.get(&offset) {
            Some(v) => {
                self.0.asked.borrow_mut().insert(offset);
                Ok(value.wrapping_add(*v as usize))
            }
            None => Ok(value),
        }
    }
}

pub type RR<'a> = r::RelocateReader<r::EndianSlice<'a, RunTimeEndian>, Map<'a>>;

pub const SECTION_NAMES: [&str; 17] = [
    ".debug_abbrev",
    ".debug_str",
    ".debug_line_str",
    ".debug_line",
    ".debug_ranges",
    ".debug_rnglists",
    ".debug_loc",
    ".debug_loclists",
    ".debug_info",
    ".debug_frame",
    ".eh_frame",
    ".debug_aranges",
    ".debug_pubnames",
    ".debug_pubtypes",
    ".debug_addr",
    ".debug_str_offsets",
    ".debug_macro",
];

fn make_maps(rels: &[Rel], perturb: Option<(usize, u64)>, with_relocs: bool) -> BTreeMap<&'static str, MapData> {
    let mut maps: BTreeMap<&'static str, MapData> = BTreeMap::new();
    for n in SECTION_NAMES {
        maps.insert(n, MapData { relocs: BTreeMap::new(), asked: RefCell::new(BTreeSet::new()) });
    }
    if with_relocs {
        for (i, rl) in rels.iter().enumerate() {
            let mut v = rl.value;
            if let Some((pi, d)) = perturb {
                if pi == i {
                    v = v.wrapping_add(d) & mask(rl.size);
                }
            }
            maps.get_mut(rl.section).unwrap().relocs.insert(rl.offset, v);
        }
    }
    maps
}

static EMPTY: [u8; 0] = [];

/// Semantic dump of every parser over the sections, read through RelocateReader
/// with the given maps.
fn dump_through<'a>(bytes: &'a Bytes, maps: &'a BTreeMap<&'static str, MapData>, endian: RunTimeEndian, frame_asz: u8) -> String {
    let empty_map = &maps[".debug_abbrev"]; // never used for unknown sections: they are empty
    let get = |id: SectionId| -> RR<'a> {
        let name = id.name();
        let data: &'a [u8] = bytes.get(name).map(|v| &v[..]).unwrap_or(&EMPTY);
        let map = maps.get(name).unwrap_or(empty_map);
        r::RelocateReader::new(r::EndianSlice::new(data, endian), Map(map))
    };
    let dwarf: r::Dwarf<RR<'a>> = r::Dwarf::load(|id| -> Result<RR<'a>, ()> { Ok(get(id)) }).unwrap();
    let mut debug_frame = r::DebugFrame::from(get(SectionId::DebugFrame));
    let mut eh_frame = r::EhFrame::from(get(SectionId::EhFrame));
    // CIE versions before 4 do not record the address size: the consumer supplies it
    debug_frame.set_address_size(frame_asz);
    eh_frame.set_address_size(frame_asz);
    dump::dump_all(&dwarf, &debug_frame, &eh_frame)
}

/// The same dump through plain `EndianSlice` readers.
fn dump_plain(bytes: &Bytes, endian: RunTimeEndian, frame_asz: u8) -> String {
    let get = |id: SectionId| -> r::EndianSlice<RunTimeEndian> { r::EndianSlice::new(bytes.get(id.name()).map(|v| &v[..]).unwrap_or(&EMPTY), endian) };
    let dwarf = r::Dwarf::load(|id| -> Result<_, ()> { Ok(get(id)) }).unwrap();
    let mut debug_frame = r::DebugFrame::from(get(SectionId::DebugFrame));
    let mut eh_frame = r::EhFrame::from(get(SectionId::EhFrame));
    debug_frame.set_address_size(frame_asz);
    eh_frame.set_address_size(frame_asz);
    dump::dump_all(&dwarf, &debug_frame, &eh_frame)
}

fn first_diff(a: &str, b: &str) -> String {
    let la: Vec<&str> = a.lines().collect();
    let lb: Vec<&str> = b.lines().collect();
    for i in 0..la.len().max(lb.len()) {
        let x = la.get(i).cloned().unwrap_or("<end>");
        let y = lb.get(i).cloned().unwrap_or("<end>");
        if x != y {
            return format!("line {}: pre-applied `{}` vs RelocateReader `{}`", i, x, y);
        }
    }
    "(equal)".into()
}

fn render_bytes(b: &Bytes) -> String {
    let mut s = String::new();
    for (n, d) in b {
        if !d.is_empty() {
            s.push_str(&format!("{}={} ", n, mcx::hex(d)));
        }
    }
    s
}

/// Classify a relocation for finding identity: which field it is.
fn field_class(rl: &Rel) -> String {
    match rl.eh_pe {
        Some(pe) if pe & 0x0f == 0 => format!("{}:eh-pointer-absptr", rl.section),
        Some(_) => format!("{}:eh-pointer-fixed-size-format", rl.section),
        None => {
            if rl.target.starts_with("sym") {
                format!("{}:address", rl.section)
            } else {
                format!("{}:offset-into-{}", rl.section, rl.target)
            }
        }
    }
}

// ---------------------------------------------------------------------------
// The C18 judgement of one subject

pub fn judge(ctx: &mut Ctx, s: &Subject, endian: RunTimeEndian, perturb: bool) {
    let case = || format!("{} {}", super::endian_name(endian), render_subject(s));
    let frame_asz = s.debug_frame.iter().chain(s.eh_frame.iter()).flat_map(|f| f.cies.first()).map(|c| c.asz).next().unwrap_or(8);
    // (i) direct, constant addresses
    ctx.eval(1);
    let direct = match guard(|| write_subject(s, w::EndianVec::new(endian), false)) {
        Err(p) => return super::fail_panic_rel(ctx, "write-direct", &p, case()),
        Ok(Err(e)) => {
            ctx.outcome(&format!("direct-err:{}", super::err_class(&e)));
            return;
        }
        Ok(Ok(x)) => section_map(&x),
    };
    // (ii) recording writer, symbolic addresses; (iii) recording writer, constant addresses
    for symbolic in [true, false] {
        ctx.eval(1);
        let label = if symbolic { "RelocateWriter(symbolic)" } else { "RelocateWriter(constant)" };
        let rec = match guard(|| write_subject(s, RelocSection::new(endian), symbolic)) {
            Err(p) => return super::fail_panic_rel(ctx, label, &p, case()),
            Ok(Err(e)) => {
                ctx.fail(label, "recording-write", &format!("rejected:{}", super::err_class(&e)), format!("{} => Err({:?}) although the direct write succeeds", case(), e));
                return;
            }
            Ok(Ok(x)) => x,
        };
        let (zeroed, rels) = collect(&rec, &s.model.syms);
        // fields do not overlap, hold zero before application
        let mut spans: Vec<(&str, usize, usize)> = rels.iter().map(|r| (r.section, r.offset, r.offset + r.size as usize)).collect();
        spans.sort();
        for k in 1..spans.len() {
            if spans[k].0 == spans[k - 1].0 && spans[k].1 < spans[k - 1].2 {
                ctx.fail(label, "relocation-set", "overlapping-relocations", format!("{}: {:?} and {:?}; relocations {:?}", case(), spans[k - 1], spans[k], rels));
                return;
            }
        }
        let applied = match apply(&zeroed, &rels, endian, None) {
            Some(a) => a,
            None => {
                ctx.fail(label, "relocation-set", "relocation-outside-section", format!("{}: relocations {:?}", case(), rels));
                return;
            }
        };
        if applied != direct {
            let sec = SECTION_NAMES.iter().find(|n| applied.get(*n) != direct.get(*n)).cloned().unwrap_or("?");
            ctx.fail(label, "bytes-after-applying-relocations", &format!("differs-from-direct-write:{}", sec), format!("{}: direct {} :: recorded+applied {} :: relocations {:?}", case(), render_bytes(&direct), render_bytes(&applied), rels));
            return;
        }
        // the recorded set is exactly the model's list of relocatable fields
        let mut got: Vec<(String, String, u8, Option<i64>, Option<u8>)> = rels.iter().map(|r| (r.section.to_string(), r.target.clone(), r.size, if r.target.starts_with("sym") { Some(r.addend) } else { None }, r.eh_pe)).collect();
        got.sort();
        let mut want = expected_relocs(s, symbolic);
        want.sort();
        if got != want {
            let extra: Vec<_> = got.iter().filter(|g| !want.contains(g)).collect();
            let missing: Vec<_> = want.iter().filter(|g| !got.contains(g)).collect();
            let kind = if !extra.is_empty() { format!("unexpected:{}:{}", extra[0].0, extra[0].1.trim_start_matches('.')) } else if !missing.is_empty() { format!("missing:{}:{}", missing[0].0, missing[0].1.trim_start_matches('.')) } else { "multiplicity".to_string() };
            let kind = if kind.contains(":sym") { kind.split(":sym").next().unwrap().to_string() + ":address" } else { kind };
            ctx.fail(label, "relocatable-field-list", &kind, format!("{}: recorded but not relocatable per model {:?}; relocatable per model but not recorded {:?}; all recorded {:?}", case(), extra, missing, rels));
            return;
        }
        ctx.outcome(if symbolic { "write:symbolic-equals-direct" } else { "write:constant-equals-direct" });
        for rl in &rels {
            match rl.eh_pe {
                Some(pe) => ctx.outcome(&format!("reloc:{}:eh-pointer-format-{:#x}", rl.section, pe & 0x0f)),
                None => ctx.outcome(&format!("reloc:{}", field_class(rl))),
            }
        }
        if !symbolic {
            continue;
        }
        let dump_rr = |b: &Bytes, maps: &BTreeMap<&'static str, MapData>| dump_through(b, maps, endian, frame_asz);
        let dump_pl = |b: &Bytes| dump_plain(b, endian, frame_asz);
        read_side(ctx, &case, &zeroed, &rels, Some(&direct), endian, perturb, &[], &dump_rr, &dump_pl);
    }
}

/// Reading side of C18 for one set of sections given as zero-filled bytes plus
/// relocations: (a) bytes with the relocations applied, read with an empty map,
/// versus (b) the zero-filled bytes read through `RelocateReader` holding the
/// relocations.
pub fn read_side(
    ctx: &mut Ctx,
    case: &dyn Fn() -> String,
    zeroed: &Bytes,
    rels: &[Rel],
    direct: Option<&Bytes>,
    endian: RunTimeEndian,
    perturb: bool,
    // relocations whose value no public API reports (they must still be consulted)
    unobservable: &[usize],
    dump_rr: &dyn Fn(&Bytes, &BTreeMap<&'static str, MapData>) -> String,
    dump_pl: &dyn Fn(&Bytes) -> String,
) {
    // `healed`: relocations already reported as never consulted are applied to the bytes of
    // the RelocateReader side too (and dropped from its map), so that the remaining
    // relocations are still compared and perturbed one defect at a time.
    let read_case = |p: Option<(usize, u64)>, healed: &BTreeSet<usize>| -> Result<(String, String, BTreeMap<&'static str, BTreeSet<usize>>), mcx::Panic> {
        guard(|| {
            let pre = apply(zeroed, rels, endian, p).unwrap();
            let none = make_maps(rels, None, false);
            let a = dump_rr(&pre, &none);
            let mut maps = make_maps(rels, p, true);
            let mut side_b = zeroed.clone();
            for &h in healed {
                let rl = &rels[h];
                let v = maps.get_mut(rl.section).unwrap().relocs.remove(&rl.offset).unwrap();
                put(side_b.get_mut(rl.section).unwrap(), rl.offset, rl.size, v, endian);
            }
            let b = dump_rr(&side_b, &maps);
            let asked = maps.iter().map(|(k, v)| (*k, v.asked.borrow().clone())).collect();
            (a, b, asked)
        })
    };
    ctx.eval(2);
    let (a0, b0, asked) = match read_case(None, &BTreeSet::new()) {
        Err(p) => return super::fail_panic_rel(ctx, "RelocateReader", &p, case()),
        Ok(x) => x,
    };
    // plain EndianSlice and RelocateReader-with-no-relocations agree
    let pre0 = apply(zeroed, rels, endian, None).unwrap();
    match guard(|| dump_pl(direct.unwrap_or(&pre0))) {
        Err(p) => return super::fail_panic_rel(ctx, "EndianSlice", &p, case()),
        Ok(pl) => {
            if pl != a0 {
                ctx.fail("RelocateReader", "empty-relocation-set", "differs-from-plain-reader", format!("{}: {}", case(), first_diff(&pl, &a0)));
                return;
            }
        }
    }
    let mut bad_fields: BTreeSet<usize> = BTreeSet::new();
    // every relocation is consulted by the reader
    for (i, rl) in rels.iter().enumerate() {
        if !asked.get(rl.section).map(|s| s.contains(&rl.offset)).unwrap_or(false) {
            bad_fields.insert(i);
            ctx.fail("RelocateReader", "relocation-never-consulted", &field_class(rl), format!("{}: relocation {:?} is never passed to relocate_address/relocate_offset; all relocations {:?}; zeroed sections {}", case(), rl, rels, render_bytes(zeroed)));
        }
    }
    let (a0, b0) = if bad_fields.is_empty() {
        (a0, b0)
    } else {
        ctx.eval(2);
        match read_case(None, &bad_fields) {
            Err(p) => return super::fail_panic_rel(ctx, "RelocateReader", &p, case()),
            Ok((a, b, _)) => (a, b),
        }
    };
    if a0 != b0 {
        ctx.fail("RelocateReader", "dump-equality", "differs-from-pre-applied", format!("{}: {}; relocations {:?}", case(), first_diff(&a0, &b0), rels));
        return;
    }
    ctx.outcome("read:relocating-equals-pre-applied");
    if ctx.want_sample() {
        ctx.sample(format!("{} => zeroed {} relocations {:?}", case(), render_bytes(zeroed), rels.iter().map(|r| (r.section, r.offset, r.size, &r.target, r.addend)).collect::<Vec<_>>()));
    }
    if !perturb {
        return;
    }
    for (i, rl) in rels.iter().enumerate() {
        for d in [1u64, 0x100] {
            if bad_fields.contains(&i) {
                continue; // already reported: the reader never looks at this relocation
            }
            ctx.eval(2);
            let (a, b, _) = match read_case(Some((i, d)), &bad_fields) {
                Err(p) => return super::fail_panic_rel(ctx, "RelocateReader", &p, format!("{} perturb {:?} by {}", case(), rl, d)),
                Ok(x) => x,
            };
            // A perturbed offset into a section that itself holds relocated fields makes the
            // consumer read across those fields at the wrong alignment; a relocation applies to a
            // field, not to its bytes, so equality is not defined there: only "both change".
            let misaligned = matches!(&rl.target[..], ".debug_line" | ".debug_ranges" | ".debug_rnglists" | ".debug_loc" | ".debug_loclists" | ".debug_frame" | ".debug_addr" | ".debug_str_offsets" | ".debug_macro") && rels.iter().any(|o| o.section == rl.target);
            if misaligned {
                if a == a0 || b == b0 {
                    ctx.fail("RelocateReader", "perturbation-invisible", &field_class(rl), format!("{}: addend of {:?} +{:#x}: pre-applied changed {} / RelocateReader changed {}", case(), rl, d, a != a0, b != b0));
                } else {
                    ctx.outcome("perturbation:both-sides-change(misaligned-target)");
                }
            } else if a != b {
                ctx.fail("RelocateReader", "perturbed-dump-equality", &field_class(rl), format!("{}: addend of {:?} +{:#x}: {}", case(), rl, d, first_diff(&a, &b)));
            } else if a == a0 && unobservable.contains(&i) {
                ctx.outcome("perturbation:value-not-reported-by-any-api");
            } else if a == a0 {
                ctx.fail("dump", "perturbation-invisible", &field_class(rl), format!("{}: addend of {:?} +{:#x} does not change the semantic dump (harness dump incomplete, or field not read at all)", case(), rl, d));
            } else {
                ctx.outcome("perturbation:both-sides-change-identically");
            }
        }
    }
}

// ---------------------------------------------------------------------------
// Independent list of relocatable fields of a subject

type ExpRel = (String, String, u8, Option<i64>, Option<u8>);

fn expected_relocs(s: &Subject, symbolic: bool) -> Vec<ExpRel> {
    let mut out: Vec<ExpRel> = vec![];
    let m = &s.model;
    fn addr(out: &mut Vec<ExpRel>, sec: &str, a: &MAddr, size: u8, extra: i64, symbolic: bool) {
        if let MAddr::Sym { sym, addend } = a {
            if symbolic {
                out.push((sec.to_string(), format!("sym{}", sym), size, Some(addend + extra), None));
            }
        }
    }
    fn ops(out: &mut Vec<ExpRel>, sec: &str, x: &[MOp], enc: &Enc, symbolic: bool) {
        for op in x {
            match op {
                MOp::Addr(a) => addr(out, sec, a, enc.asz, 0, symbolic),
                MOp::CallRef(_) | MOp::VariableValue(_) => out.push((sec.to_string(), ".debug_info".into(), enc.word(), None, None)),
                MOp::ImplicitPointer(..) => out.push((sec.to_string(), ".debug_info".into(), if enc.version == 2 { enc.asz } else { enc.word() }, None, None)),
                MOp::EntryValue(inner) => ops(out, sec, inner, enc, symbolic),
                _ => {}
            }
        }
    }
    for mu in &m.units {
        let enc = &mu.enc;
        let v5 = enc.version >= 5;
        let info = ".debug_info";
        out.push((info.into(), ".debug_abbrev".into(), enc.word(), None, None));
        if mu.line_in_use() {
            out.push((info.into(), ".debug_line".into(), enc.word(), None, None));
        }
        for e in &mu.entries {
            for (_, v) in &e.attrs {
                let sec_target = |t: &str| (info.to_string(), t.to_string(), enc.word(), None, None);
                match v {
                    MV::Addr(a) => addr(&mut out, info, a, enc.asz, 0, symbolic),
                    MV::Expr(x) => ops(&mut out, info, x, enc, symbolic),
                    MV::IRef(_) => out.push((info.into(), info.into(), if enc.version == 2 { enc.asz } else { enc.word() }, None, None)),
                    MV::LineRef => out.push(sec_target(".debug_line")),
                    MV::LocRef(_) => out.push(sec_target(if v5 { ".debug_loclists" } else { ".debug_loc" })),
                    MV::RngRef(_) => out.push(sec_target(if v5 { ".debug_rnglists" } else { ".debug_ranges" })),
                    MV::Macinfo(_) => out.push(sec_target(".debug_macinfo")),
                    MV::Macro(_) => out.push(sec_target(".debug_macro")),
                    MV::StrRef(_) => out.push(sec_target(".debug_str")),
                    MV::LineStrRef(_) => out.push(sec_target(".debug_line_str")),
                    _ => {}
                }
            }
        }
        // lists are de-duplicated by the tables
        let rsec = if v5 { ".debug_rnglists" } else { ".debug_ranges" };
        let mut seen: Vec<&Vec<MRange>> = vec![];
        for rl in &mu.ranges {
            if seen.contains(&rl) {
                continue;
            }
            seen.push(rl);
            for rg in rl {
                match rg {
                    MRange::Base(a) => addr(&mut out, rsec, a, enc.asz, 0, symbolic),
                    MRange::OffsetPair(..) => {}
                    MRange::StartEnd(a, b) => {
                        addr(&mut out, rsec, a, enc.asz, 0, symbolic);
                        addr(&mut out, rsec, b, enc.asz, 0, symbolic);
                    }
                    MRange::StartLength(a, l) => {
                        addr(&mut out, rsec, a, enc.asz, 0, symbolic);
                        if !v5 {
                            addr(&mut out, rsec, a, enc.asz, *l as i64, symbolic);
                        }
                    }
                }
            }
        }
        let lsec = if v5 { ".debug_loclists" } else { ".debug_loc" };
        let mut seen: Vec<&Vec<MLoc>> = vec![];
        for ll in &mu.locs {
            if seen.contains(&ll) {
                continue;
            }
            seen.push(ll);
            for l in ll {
                match l {
                    MLoc::Base(a) => addr(&mut out, lsec, a, enc.asz, 0, symbolic),
                    MLoc::OffsetPair(_, _, x) | MLoc::Default(x) => ops(&mut out, lsec, x, enc, symbolic),
                    MLoc::StartEnd(a, b, x) => {
                        addr(&mut out, lsec, a, enc.asz, 0, symbolic);
                        addr(&mut out, lsec, b, enc.asz, 0, symbolic);
                        ops(&mut out, lsec, x, enc, symbolic);
                    }
                    MLoc::StartLength(a, len, x) => {
                        addr(&mut out, lsec, a, enc.asz, 0, symbolic);
                        if !v5 {
                            addr(&mut out, lsec, a, enc.asz, *len as i64, symbolic);
                        }
                        ops(&mut out, lsec, x, enc, symbolic);
                    }
                }
            }
        }
        if let (Some(l), true) = (&mu.line, mu.line_in_use()) {
            let le = l.enc.unwrap_or(*enc);
            let lsec = ".debug_line";
            if l.str_form != 0 {
                let t = if l.str_form == 1 { ".debug_line_str" } else { ".debug_str" };
                // directory 0, primary file, added files
                for _ in 0..(2 + l.files.len()) {
                    out.push((lsec.into(), t.into(), le.word(), None, None));
                }
            }
            for sq in &l.seqs {
                if let Some(a) = &sq.start {
                    addr(&mut out, lsec, a, le.asz, 0, symbolic);
                }
            }
        }
    }
    if let Some(f) = &s.debug_frame {
        frame_relocs(f, false, symbolic, &mut out);
    }
    if let Some(f) = &s.eh_frame {
        frame_relocs(f, true, symbolic, &mut out);
    }
    out
}

// ---------------------------------------------------------------------------
// Spaces

fn sym_of(k: usize) -> MAddr {
    MAddr::Sym { sym: k % 3, addend: [0i64, 4, -8, 0x100][k % 4] }
}

/// A unit table with relocatable things of every kind.
fn rich_model(enc0: Enc, enc1: Enc, line_form: u8, feature: u64) -> Model {
    let forest0 = [usize::MAX, usize::MAX, 1, usize::MAX, usize::MAX];
    let tags0 = [TAG_COMPILE_UNIT, TAG_BASE_TYPE, TAG_SUBPROGRAM, TAG_FORMAL_PARAMETER, TAG_VARIABLE, TAG_VARIABLE];
    let mut u0 = MUnit::from_forest(0, enc0, &forest0, |i| tags0[i]);
    let mut u1 = MUnit::from_forest(1, enc1, &[usize::MAX], |_| TAG_VARIABLE);
    let b = Ref::E(0, 4);
    let d = Ref::E(1, 1);
    u0.entries[2].sibling = true;
    u0.entries[2].attrs.push((AT_LOW_PC, MV::Addr(sym_of(1))));
    u0.entries[5].attrs.push((AT_TYPE, MV::URef(b)));
    match feature {
        0 => {
            // addresses and strings
            u0.entries[0].attrs.push((AT_PRODUCER, MV::StrRef(b"producer".to_vec())));
            u0.entries[3].attrs.push((AT_LOW_PC, MV::Addr(MAddr::C(0x1234))));
            u0.entries[4].attrs.push((AT_LOCATION, MV::Expr(vec![MOp::Addr(sym_of(2)), MOp::PlusUconst(4)])));
            u0.entries[4].attrs.push((AT_DESCRIPTION, MV::LineStrRef(b"described".to_vec())));
            u1.entries[1].attrs.push((AT_PRODUCER, MV::StrRef(b"second".to_vec())));
            u1.entries[1].attrs.push((AT_LOW_PC, MV::Addr(sym_of(3))));
        }
        1 => {
            // references through fix-ups, in attributes and expressions
            u0.entries[3].attrs.push((AT_ABSTRACT_ORIGIN, MV::IRef(d)));
            u0.entries[4].attrs.push((AT_LOCATION, MV::Expr(vec![MOp::CallRef(d), MOp::ImplicitPointer(b, 1), MOp::VariableValue(Ref::E(0, 5))])));
            u1.entries[1].attrs.push((AT_ABSTRACT_ORIGIN, MV::IRef(b)));
            u1.entries[1].attrs.push((AT_LOCATION, MV::Expr(vec![MOp::EntryValue(vec![MOp::CallRef(Ref::E(0, 2))]), MOp::Addr(sym_of(0))])));
        }
        2 => {
            // line program, file index, macro offsets
            u0.line = Some(MLine { seqs: vec![MSeq { start: Some(sym_of(0)), rows: vec![(0, 1, usize::MAX), (8, 2, 0)], end: 0x10 }, MSeq { start: Some(MAddr::C(0x7000)), rows: vec![(0, 5, 1)], end: 4 }, MSeq { start: Some(sym_of(2)), rows: vec![(4, 9, usize::MAX)], end: 8 }], ..super::std_line(0, line_form) });
            u0.entries[3].attrs.push((AT_DECL_FILE, MV::FileIdx(Some(1))));
            u0.entries[4].attrs.push((AT_STMT_LIST, MV::LineRef));
            u0.entries[0].attrs.push((AT_MACRO_INFO, MV::Macinfo(0x40)));
            u0.entries[0].attrs.push((AT_MACROS, MV::Macro(0x80)));
            u1.line = Some(MLine { seqs: vec![MSeq { start: Some(sym_of(1)), rows: vec![(0, 1, usize::MAX)], end: 4 }], ..super::std_line(1, 0) });
        }
        3 => {
            // range lists
            u0.ranges = vec![
                vec![MRange::StartEnd(sym_of(0), sym_of(1)), MRange::StartLength(sym_of(2), 0x20), MRange::StartEnd(MAddr::C(0x100), MAddr::C(0x200)), MRange::Base(sym_of(3)), MRange::OffsetPair(0x10, 0x20)],
                vec![MRange::StartLength(MAddr::C(0x3000), 0x80)],
            ];
            u0.entries[2].attrs.push((AT_RANGES, MV::RngRef(0)));
            u0.entries[4].attrs.push((AT_RANGES, MV::RngRef(1)));
            // DW_AT_start_scope: the other rangelistptr-class attribute (DWARF 3: a data4/data8
            // section offset, read through the relocating primitive for versions 2 and 3 only)
            u0.entries[3].attrs.push((0x2c, MV::RngRef(1)));
            u1.ranges = vec![vec![MRange::Base(sym_of(1)), MRange::OffsetPair(1, 2)]];
            u1.entries[1].attrs.push((AT_RANGES, MV::RngRef(0)));
        }
        _ => {
            // location lists with relocatable contents
            u0.locs = vec![
                vec![MLoc::StartEnd(sym_of(0), sym_of(1), vec![MOp::Addr(sym_of(2))]), MLoc::StartLength(sym_of(2), 0x20, vec![MOp::CallRef(d), MOp::ConstType(Ref::E(0, 1), vec![7])]), MLoc::Base(sym_of(3)), MLoc::OffsetPair(0x10, 0x20, vec![MOp::ImplicitPointer(b, -1)])],
                vec![MLoc::StartEnd(MAddr::C(0x100), MAddr::C(0x200), vec![MOp::Reg(1)])],
            ];
            u0.entries[2].attrs.push((AT_LOCATION, MV::LocRef(0)));
            u0.entries[4].attrs.push((AT_LOCATION, MV::LocRef(1)));
            // every other loclistptr-class attribute of DWARF 3 (string_length, return_addr,
            // data_member_location, frame_base, segment, static_link, use_location,
            // vtable_elem_location)
            for (k, name) in [0x19u16, 0x2a, 0x38, 0x40, 0x46, 0x48, 0x4a, 0x4d].iter().enumerate() {
                u0.entries[[3usize, 5][k % 2]].attrs.push((*name, MV::LocRef(k % 2)));
            }
            u1.locs = vec![vec![MLoc::Base(sym_of(1)), MLoc::OffsetPair(1, 2, vec![MOp::VariableValue(b)])]];
            u1.entries[1].attrs.push((AT_LOCATION, MV::LocRef(0)));
        }
    }
    Model { units: vec![u0, u1], syms: vec![0x10000, 0x20000, 0x30040] }
}

fn flip(e: Enc) -> Enc {
    Enc { version: 7 - e.version, fmt64: !e.fmt64, asz: e.asz }
}

fn sub_units(_tier: Tier) -> Sub {
    let encs = Enc::all16();
    let len = 16 * 2 * 5 * 3 * 2;
    Sub::new(
        "units-rich",
        len,
        "two-unit tables holding every relocatable kind (symbolic and constant DW_FORM_addr, DW_OP_addr, strp, line_strp, ref_addr and DW_OP_call_ref/implicit_pointer/GNU_variable_value fix-ups within and across units, stmt_list, macro offsets, file index, range lists and location lists with every entry kind and relocatable expression contents, line sequences with symbolic starts) x 16 encodings x second unit same/flipped encoding x line string form x endian; every recorded relocation perturbed by +1 and +0x100",
        move |ctx, idx| {
            let mut mx = Mix(idx);
            let e0 = *mx.pick(&encs);
            let e1 = if mx.flag() { flip(e0) } else { e0 };
            let feature = mx.take(5);
            let form = mx.take(3) as u8;
            let endian = if mx.flag() { RunTimeEndian::Big } else { RunTimeEndian::Little };
            let form = if e0.version >= 5 { form } else { 0 };
            let s = Subject { model: rich_model(e0, e1, form, feature), debug_frame: None, eh_frame: None };
            ctx.nontriv(1);
            judge(ctx, &s, endian, true);
        },
    )
}

fn sub_variants(tier: Tier) -> Sub {
    let payloads = super::variant_payloads();
    let encs = Enc::all16();
    let len = payloads.len() as u64 * 16;
    let perturb = tier == Tier::Thorough;
    Sub::new(
        "units-variants",
        len,
        "the C11 (a) space (every write::AttributeValue variant x boundary payloads in front of referenced entries, 16 encodings, endianness alternating) written directly and through the recording writer; perturbations of every relocation in the thorough tier",
        move |ctx, idx| {
            let mut mx = Mix(idx);
            let e0 = *mx.pick(&encs);
            let p = mx.pick(&payloads);
            let endian = if (idx / 16) % 2 == 1 { RunTimeEndian::Big } else { RunTimeEndian::Little };
            let mut model = super::variant_model(e0, e0, p);
            // every list is referenced, so that the dump visits every relocatable field
            model.units[0].entries[3].attrs.push((AT_LOCATION, MV::LocRef(1)));
            model.units[0].entries[3].attrs.push((AT_RANGES, MV::RngRef(1)));
            model.units[0].entries[4].attrs.push((AT_LOCATION, MV::LocRef(0)));
            model.units[0].entries[4].attrs.push((AT_RANGES, MV::RngRef(0)));
            let s = Subject { model, debug_frame: None, eh_frame: None };
            ctx.nontriv(1);
            judge(ctx, &s, endian, perturb);
        },
    )
}

fn sub_frames(_tier: Tier) -> Sub {
    let cases = frame_cases();
    let len = cases.len() as u64 * 2;
    Sub::new(
        "frames",
        len,
        ".debug_frame tables (CIE versions 1/3/4 x format x address size, 1-2 CIEs, 1-3 FDEs with symbolic and constant addresses, a CFI expression containing DW_OP_addr) and .eh_frame tables (FDE pointer encodings absptr/udata2/udata4/udata8/sdata4/sdata8 plain and pc-relative, personality and LSDA pointers with their own encodings incl. indirect) x endian; every recorded relocation perturbed by +1 and +0x100",
        move |ctx, idx| {
            let mut mx = Mix(idx);
            let endian = if mx.flag() { RunTimeEndian::Big } else { RunTimeEndian::Little };
            let (name, s) = &cases[mx.take(cases.len() as u64) as usize];
            ctx.nontriv(1);
            ctx.outcome(&format!("frame-case:{}", name.split(':').next().unwrap()));
            judge(ctx, s, endian, true);
        },
    )
}

fn sub_forest(tier: Tier) -> Sub {
    let nmax = if mcx::deep() { 4 } else { tier.pick(2usize, 3) };
    let shapes = super::shapes_upto(nmax);
    let encs = Enc::all16();
    let len = (shapes.len() * shapes.len()) as u64 * 16;
    let perturb = tier == Tier::Thorough;
    Sub::new(
        &format!("forest-refs-n<={}", nmax),
        len,
        "two units (every forest shape with <= N entries each, flipped encodings, sibling flags on) x 16 encodings; inside a case every cross-unit and same-unit pair as DebugInfoRef and as DW_OP_call_ref (fix-ups written with write_offset_at) and every same-unit pair as UnitRef (must not be relocated)",
        move |ctx, idx| {
            let mut mx = Mix(idx);
            let e0 = *mx.pick(&encs);
            let s0 = mx.pick(&shapes).clone();
            let s1 = mx.pick(&shapes).clone();
            let endian = if (idx / 16) % 2 == 1 { RunTimeEndian::Big } else { RunTimeEndian::Little };
            let mut u0 = MUnit::from_forest(0, e0, &s0, |i| super::tag_for(1, i));
            let mut u1 = MUnit::from_forest(1, flip(e0), &s1, |i| super::tag_for(1, i));
            super::apply_siblings(&mut u0, u64::MAX);
            super::apply_siblings(&mut u1, u64::MAX);
            let units = [u0, u1];
            let mut n = 0u64;
            for su in 0..2 {
                for tu in 0..2 {
                    for i in 0..units[su].entries.len() {
                        for j in 0..units[tu].entries.len() {
                            let mut vals = vec![(AT_ABSTRACT_ORIGIN, MV::IRef(Ref::E(tu, j))), (AT_LOCATION, MV::Expr(vec![MOp::CallRef(Ref::E(tu, j))]))];
                            if su == tu {
                                vals.push((AT_TYPE, MV::URef(Ref::E(tu, j))));
                            }
                            for v in vals {
                                let mut us = units.clone();
                                us[su].entries[i].attrs.push(v);
                                let s = Subject { model: Model { units: us.to_vec(), syms: vec![] }, debug_frame: None, eh_frame: None };
                                judge(ctx, &s, endian, perturb);
                                n += 1;
                            }
                        }
                    }
                }
            }
            ctx.nontriv(n);
        },
    )
}

/// Every sequence of range / location list entries over a 7-symbol alphabet.
fn sub_lists(tier: Tier) -> Sub {
    let maxlen = if mcx::deep() { 4 } else { tier.pick(2u32, 3) };
    let nseq = mcx::space::seq_count(7, 1, maxlen);
    let encs = Enc::all16();
    let len = nseq * 16 * 2 * 2 * 3;
    Sub::new(
        &format!("lists-seq-len<={}", maxlen),
        len,
        "every sequence of 1..=L list entries over {BaseAddress(symbol), BaseAddress(constant), OffsetPair, StartEnd(symbols), StartEnd(constants), StartLength(symbol), StartLength(constant)} as a range list and as a location list (expressions: DW_OP_addr(symbol) / DW_OP_call_ref) x 16 encodings x endian x root DW_AT_low_pc {absent, constant, symbol} (the unit base address that lets offset pairs stand without a base entry before v5), referenced from a DIE next to a second, constant list; sequences gimli rejects (offset pair without base before v5, ...) are counted and skipped; every relocation perturbed",
        move |ctx, idx| {
            let mut mx = Mix(idx);
            let enc = *mx.pick(&encs);
            let as_loc = mx.flag();
            let endian = if mx.flag() { RunTimeEndian::Big } else { RunTimeEndian::Little };
            let root_low = mx.take(3);
            let seq = mcx::space::seq_decode(7, 1, maxlen, mx.0);
            let mut u = MUnit::from_forest(0, enc, &[usize::MAX, usize::MAX], |i| super::tag_for(1, i));
            match root_low {
                1 => u.entries[0].attrs.push((AT_LOW_PC, MV::Addr(MAddr::C(0x5000)))),
                2 => u.entries[0].attrs.push((AT_LOW_PC, MV::Addr(sym_of(1)))),
                _ => {}
            }
            let x = |k: usize| -> Vec<MOp> {
                if k % 2 == 0 {
                    vec![MOp::Addr(sym_of(k))]
                } else {
                    vec![MOp::CallRef(Ref::E(0, 2)), MOp::Reg(k as u16)]
                }
            };
            if as_loc {
                let l: Vec<MLoc> = seq
                    .iter()
                    .enumerate()
                    .map(|(k, &c)| match c {
                        0 => MLoc::Base(sym_of(k)),
                        1 => MLoc::Base(MAddr::C(0x1000 + k as u64)),
                        2 => MLoc::OffsetPair(0x10 + k as u64, 0x20 + k as u64, x(k)),
                        3 => MLoc::StartEnd(sym_of(k), sym_of(k + 1), x(k)),
                        4 => MLoc::StartEnd(MAddr::C(0x100), MAddr::C(0x200 + k as u64), x(k)),
                        5 => MLoc::StartLength(sym_of(k + 2), 0x30, x(k)),
                        _ => MLoc::StartLength(MAddr::C(0x400), 0x40 + k as u64, x(k)),
                    })
                    .collect();
                u.locs = vec![l, vec![if root_low != 0 { MLoc::OffsetPair(1, 2, vec![MOp::Reg(0)]) } else { MLoc::StartEnd(MAddr::C(1), MAddr::C(2), vec![MOp::Reg(0)]) }]];
                u.entries[1].attrs.push((AT_LOCATION, MV::LocRef(0)));
                u.entries[2].attrs.push((AT_LOCATION, MV::LocRef(1)));
            } else {
                let l: Vec<MRange> = seq
                    .iter()
                    .enumerate()
                    .map(|(k, &c)| match c {
                        0 => MRange::Base(sym_of(k)),
                        1 => MRange::Base(MAddr::C(0x1000 + k as u64)),
                        2 => MRange::OffsetPair(0x10 + k as u64, 0x20 + k as u64),
                        3 => MRange::StartEnd(sym_of(k), sym_of(k + 1)),
                        4 => MRange::StartEnd(MAddr::C(0x100), MAddr::C(0x200 + k as u64)),
                        5 => MRange::StartLength(sym_of(k + 2), 0x30),
                        _ => MRange::StartLength(MAddr::C(0x400), 0x40 + k as u64),
                    })
                    .collect();
                u.ranges = vec![l, vec![if root_low != 0 { MRange::OffsetPair(1, 2) } else { MRange::StartEnd(MAddr::C(1), MAddr::C(2)) }]];
                u.entries[1].attrs.push((AT_RANGES, MV::RngRef(0)));
                u.entries[2].attrs.push((AT_RANGES, MV::RngRef(1)));
            }
            let s = Subject { model: Model { units: vec![u], syms: vec![0x10000, 0x20000, 0x30040] }, debug_frame: None, eh_frame: None };
            ctx.nontriv(1);
            judge(ctx, &s, endian, true);
        },
    )
}

fn sub_readonly(_tier: Tier) -> Sub {
    const KINDS: [&str; 6] = ["aranges", "pubnames", "pubtypes", "addr", "str_offsets", "macro"];
    let len = 6 * 2 * 2 * 2;
    Sub::new(
        "read-only-sections",
        len,
        "sections gimli reads but does not write, hand-encoded from DWARF 5 6.1.1/6.1.2/6.3.1/7.26/7.27 with a relocation on every section offset and address (.debug_aranges: debug_info_offset + tuple addresses; .debug_pubnames/.debug_pubtypes: debug_info_offset; .debug_addr entries; .debug_str_offsets entries; .debug_macro: debug_line_offset, define_strp/undef_strp offsets, import offsets) x format x address size x endian; every relocation perturbed by +1 and +0x100",
        move |ctx, idx| {
            let mut mx = Mix(idx);
            let kind = mx.take(6) as usize;
            let p = readonly::Params { fmt64: mx.flag(), asz: if mx.flag() { 8 } else { 4 }, big: mx.flag() };
            let endian = if p.big { RunTimeEndian::Big } else { RunTimeEndian::Little };
            let (zeroed, rels, unobservable) = readonly::build(kind, p);
            let case = || format!("{} {:?} {}", KINDS[kind], p, render_bytes(&zeroed));
            ctx.nontriv(1);
            ctx.outcome(&format!("read-only:{}", KINDS[kind]));
            for rl in &rels {
                ctx.outcome(&format!("reloc:{}", field_class(rl)));
            }
            let drr = |b: &Bytes, maps: &BTreeMap<&'static str, MapData>| readonly::dump_rr(b, maps, endian, p);
            let dpl = |b: &Bytes| readonly::dump_plain(b, endian, p);
            read_side(ctx, &case, &zeroed, &rels, None, endian, true, &unobservable, &drr, &dpl);
        },
    )
}

pub fn def(_cli_tier: Tier) -> CheckDef {
    // the whole thorough space costs ~10 s: both tiers run it
    let tier = Tier::Thorough;
    let mut required: Vec<String> = vec!["write:symbolic-equals-direct".into(), "write:constant-equals-direct".into(), "read:relocating-equals-pre-applied".into(), "perturbation:both-sides-change-identically".into()];
    for c in [
        ".debug_info:address",
        ".debug_info:offset-into-.debug_abbrev",
        ".debug_info:offset-into-.debug_str",
        ".debug_info:offset-into-.debug_line_str",
        ".debug_info:offset-into-.debug_line",
        ".debug_info:offset-into-.debug_info",
        ".debug_info:offset-into-.debug_ranges",
        ".debug_info:offset-into-.debug_rnglists",
        ".debug_info:offset-into-.debug_loc",
        ".debug_info:offset-into-.debug_loclists",
        ".debug_info:offset-into-.debug_macinfo",
        ".debug_info:offset-into-.debug_macro",
        ".debug_line:address",
        ".debug_line:offset-into-.debug_line_str",
        ".debug_line:offset-into-.debug_str",
        ".debug_ranges:address",
        ".debug_rnglists:address",
        ".debug_loc:address",
        ".debug_loclists:address",
        ".debug_loc:offset-into-.debug_info",
        ".debug_loclists:offset-into-.debug_info",
        ".debug_frame:address",
        ".debug_frame:offset-into-.debug_frame",
        ".eh_frame:address",
        ".eh_frame:eh-pointer-format-0x0",
        ".eh_frame:eh-pointer-format-0x3",
        ".eh_frame:eh-pointer-format-0xb",
        ".eh_frame:eh-pointer-format-0x4",
        ".eh_frame:eh-pointer-format-0xc",
        ".eh_frame:eh-pointer-format-0x2",
    ] {
        required.push(format!("reloc:{}", c));
    }
    for c in ["aranges", "pubnames", "pubtypes", "addr", "str_offsets", "macro"] {
        required.push(format!("read-only:{}", c));
    }
    for c in [".debug_aranges:address", ".debug_aranges:offset-into-.debug_info", ".debug_pubnames:offset-into-.debug_info", ".debug_addr:address", ".debug_str_offsets:offset-into-.debug_str", ".debug_macro:offset-into-.debug_str", ".debug_macro:offset-into-.debug_macro", ".debug_macro:offset-into-.debug_line"] {
        required.push(format!("reloc:{}", c));
    }
    for c in ["debug_frame-v1", "debug_frame-v3", "debug_frame-v4", "eh_frame-fde-enc", "eh_frame-personality", "eh_frame-lsda", "eh_frame-unsupported"] {
        required.push(format!("frame-case:{}", c));
    }
    CheckDef {
        level: "exploration",
        rule: "one evaluation = one write or one full semantic dump; a subject (unit table and/or frame table) is written (i) with EndianVec and constant addresses, (ii) with a recording write::RelocateWriter and Address::Symbol, (iii) with the recording writer and constant addresses; recorded relocations are applied by the harness (S+A, S+A-P for pc-relative eh pointers, section bases 0) and compared byte for byte with (i); the recorded set is compared with the model's own list of relocatable fields; the zeroed bytes are read through RelocateReader (map = recorded relocations) and the pre-applied bytes through RelocateReader with an empty map and through EndianSlice; semantic dumps of all parsers (units, DIEs, attribute values, strings, expressions, range/location lists raw and cooked, line headers and rows, CIEs, FDEs, CFI instructions, unwind rows) must be equal, every relocation must be consulted, and each addend perturbed by +1 and +0x100 must change both dumps identically and visibly".into(),
        assumptions: vec![
            "section base addresses are 0 when relocations are applied (section-relative offsets are then the addends themselves); symbol values come from the model".into(),
            "the Relocate implementation adds the recorded value to the (zero) field content, like object::read::RelocationMap with explicit addends".into(),
            "models are encodable by construction (C11 decides the error cases); a direct write that fails is counted and skipped".into(),
        ],
        subs: vec![sub_units(tier), sub_variants(tier), sub_frames(tier), sub_forest(tier), sub_lists(tier), sub_readonly(tier)],
        required_outcomes: required,
    }
}
