//! Abstract model of a unit table for C11/C18: plain data describing what is
//! requested from `gimli::write`, a builder that issues exactly those requests,
//! and an oracle that reads the emitted sections back with `gimli::read` and
//! compares with the model (forms and DWARF constants come from the tables in
//! this file, transcribed from the DWARF 5 standard, not from gimli).
#![allow(dead_code)]

use gimli::read as r;
use gimli::write as w;
use gimli::{constants as k, Encoding, Format, LineEncoding, Register, RunTimeEndian, SectionId};
use std::collections::BTreeMap;

pub type WV = w::EndianVec<RunTimeEndian>;

// ---------------------------------------------------------------------------
// DWARF constants used by the oracle (DWARF 5, section 7.5.6, table 7.6)

pub const F_ADDR: u16 = 0x01;
pub const F_DATA2: u16 = 0x05;
pub const F_DATA4: u16 = 0x06;
pub const F_DATA8: u16 = 0x07;
pub const F_STRING: u16 = 0x08;
pub const F_BLOCK: u16 = 0x09;
pub const F_DATA1: u16 = 0x0b;
pub const F_FLAG: u16 = 0x0c;
pub const F_SDATA: u16 = 0x0d;
pub const F_STRP: u16 = 0x0e;
pub const F_UDATA: u16 = 0x0f;
pub const F_REF_ADDR: u16 = 0x10;
pub const F_REF4: u16 = 0x13;
pub const F_REF8: u16 = 0x14;
pub const F_SEC_OFFSET: u16 = 0x17;
pub const F_EXPRLOC: u16 = 0x18;
pub const F_FLAG_PRESENT: u16 = 0x19;
pub const F_REF_SUP4: u16 = 0x1c;
pub const F_STRP_SUP: u16 = 0x1d;
pub const F_DATA16: u16 = 0x1e;
pub const F_LINE_STRP: u16 = 0x1f;
pub const F_REF_SIG8: u16 = 0x20;
pub const F_IMPLICIT_CONST: u16 = 0x21;
pub const F_REF_SUP8: u16 = 0x24;

// Attribute names (table 7.5); only used as labels handed to the writer and
// looked for in the reader, except where the reader's legacy data4/data8
// section-offset rule depends on them.
pub const AT_SIBLING: u16 = 0x01;
pub const AT_LOCATION: u16 = 0x02;
pub const AT_NAME: u16 = 0x03;
pub const AT_ORDERING: u16 = 0x09;
pub const AT_STMT_LIST: u16 = 0x10;
pub const AT_LOW_PC: u16 = 0x11;
pub const AT_LANGUAGE: u16 = 0x13;
pub const AT_VISIBILITY: u16 = 0x17;
pub const AT_IMPORT: u16 = 0x18;
pub const AT_CONST_VALUE: u16 = 0x1c;
pub const AT_INLINE: u16 = 0x20;
pub const AT_PRODUCER: u16 = 0x25;
pub const AT_ABSTRACT_ORIGIN: u16 = 0x31;
pub const AT_ACCESSIBILITY: u16 = 0x32;
pub const AT_ADDRESS_CLASS: u16 = 0x33;
pub const AT_CALLING_CONVENTION: u16 = 0x36;
pub const AT_DECL_FILE: u16 = 0x3a;
pub const AT_ENCODING: u16 = 0x3e;
pub const AT_EXTERNAL: u16 = 0x3f;
pub const AT_FRAME_BASE: u16 = 0x40;
pub const AT_IDENTIFIER_CASE: u16 = 0x42;
pub const AT_MACRO_INFO: u16 = 0x43;
pub const AT_SPECIFICATION: u16 = 0x47;
pub const AT_TYPE: u16 = 0x49;
pub const AT_VIRTUALITY: u16 = 0x4c;
pub const AT_RANGES: u16 = 0x55;
pub const AT_DESCRIPTION: u16 = 0x5a;
pub const AT_DECIMAL_SIGN: u16 = 0x5e;
pub const AT_ENDIANITY: u16 = 0x65;
pub const AT_SIGNATURE: u16 = 0x69;
pub const AT_LINKAGE_NAME: u16 = 0x6e;
pub const AT_MACROS: u16 = 0x79;

pub const TAG_COMPILE_UNIT: u16 = 0x11;
pub const TAG_BASE_TYPE: u16 = 0x24;
pub const TAG_SUBPROGRAM: u16 = 0x2e;
pub const TAG_VARIABLE: u16 = 0x34;
pub const TAG_LEXICAL_BLOCK: u16 = 0x0b;
pub const TAG_STRUCTURE_TYPE: u16 = 0x13;
pub const TAG_MEMBER: u16 = 0x0d;
pub const TAG_TYPEDEF: u16 = 0x16;
pub const TAG_FORMAL_PARAMETER: u16 = 0x05;

// ---------------------------------------------------------------------------
// Model

#[derive(Clone, Copy, Debug, PartialEq, Eq)]
pub struct Enc {
    pub version: u16,
    pub fmt64: bool,
    pub asz: u8,
}

impl Enc {
    pub fn gimli(&self) -> Encoding {
        Encoding { version: self.version, format: if self.fmt64 { Format::Dwarf64 } else { Format::Dwarf32 }, address_size: self.asz }
    }
    pub fn word(&self) -> u8 {
        if self.fmt64 {
            8
        } else {
            4
        }
    }
    pub fn short(&self) -> String {
        format!("v{}/{}/a{}", self.version, if self.fmt64 { 64 } else { 32 }, self.asz)
    }
    /// All 16 supported encodings: versions 2-5 x format x address size 4/8.
    pub fn all16() -> Vec<Enc> {
        let mut v = vec![];
        for version in 2..=5u16 {
            for fmt64 in [false, true] {
                for asz in [4u8, 8] {
                    v.push(Enc { version, fmt64, asz });
                }
            }
        }
        v
    }
}

/// A reference to an entry of the model: `E(unit, preorder index)` or a
/// reserved-never-added id `Phantom(unit, k)`.
#[derive(Clone, Copy, Debug, PartialEq, Eq)]
pub enum Ref {
    E(usize, usize),
    Phantom(usize, usize),
}

#[derive(Clone, Copy, Debug, PartialEq, Eq)]
pub enum MAddr {
    C(u64),
    Sym { sym: usize, addend: i64 },
}

#[derive(Clone, Debug, PartialEq)]
pub enum MOp {
    Addr(MAddr),
    Constu(u64),
    Consts(i64),
    Fbreg(i64),
    PlusUconst(u64),
    StackValue,
    Deref,
    Reg(u16),
    Breg(u16, i64),
    Piece(u64),
    ImplicitValue(Vec<u8>),
    ConstType(Ref, Vec<u8>),
    RegvalType(u16, Ref),
    DerefType(u8, Ref),
    Convert(Option<Ref>),
    Reinterpret(Option<Ref>),
    Call4(Ref),
    ParameterRef(Ref),
    CallRef(Ref),
    CallRefSym(usize),
    ImplicitPointer(Ref, i64),
    VariableValue(Ref),
    EntryValue(Vec<MOp>),
}

#[derive(Clone, Debug, PartialEq)]
pub enum MV {
    Addr(MAddr),
    Block(Vec<u8>),
    D1(u8),
    D2(u16),
    D4(u32),
    D8(u64),
    D16(u128),
    S(i64),
    U(u64),
    Implicit(i64),
    Expr(Vec<MOp>),
    Flag(bool),
    FlagPresent,
    URef(Ref),
    IRef(Ref),
    IRefSym(usize),
    IRefSup(u64),
    LineRef,
    LocRef(usize),
    Macinfo(u64),
    Macro(u64),
    RngRef(usize),
    Sig(u64),
    StrRef(Vec<u8>),
    StrSup(u64),
    LineStrRef(Vec<u8>),
    Str(Vec<u8>),
    Encoding(u8),
    DecimalSign(u8),
    Endianity(u8),
    Access(u8),
    Vis(u8),
    Virt(u8),
    Lang(u16),
    AddrClass(u64),
    IdCase(u8),
    CC(u8),
    Inline(u8),
    Ordering(u8),
    FileIdx(Option<usize>),
}

impl MV {
    /// Name of the `write::AttributeValue` variant (for vacuity guards).
    pub fn variant(&self) -> &'static str {
        match self {
            MV::Addr(_) => "Address",
            MV::Block(_) => "Block",
            MV::D1(_) => "Data1",
            MV::D2(_) => "Data2",
            MV::D4(_) => "Data4",
            MV::D8(_) => "Data8",
            MV::D16(_) => "Data16",
            MV::S(_) => "Sdata",
            MV::U(_) => "Udata",
            MV::Implicit(_) => "ImplicitConst",
            MV::Expr(_) => "Exprloc",
            MV::Flag(_) => "Flag",
            MV::FlagPresent => "FlagPresent",
            MV::URef(_) => "UnitRef",
            MV::IRef(_) | MV::IRefSym(_) => "DebugInfoRef",
            MV::IRefSup(_) => "DebugInfoRefSup",
            MV::LineRef => "LineProgramRef",
            MV::LocRef(_) => "LocationListRef",
            MV::Macinfo(_) => "DebugMacinfoRef",
            MV::Macro(_) => "DebugMacroRef",
            MV::RngRef(_) => "RangeListRef",
            MV::Sig(_) => "DebugTypesRef",
            MV::StrRef(_) => "StringRef",
            MV::StrSup(_) => "DebugStrRefSup",
            MV::LineStrRef(_) => "LineStringRef",
            MV::Str(_) => "String",
            MV::Encoding(_) => "Encoding",
            MV::DecimalSign(_) => "DecimalSign",
            MV::Endianity(_) => "Endianity",
            MV::Access(_) => "Accessibility",
            MV::Vis(_) => "Visibility",
            MV::Virt(_) => "Virtuality",
            MV::Lang(_) => "Language",
            MV::AddrClass(_) => "AddressClass",
            MV::IdCase(_) => "IdentifierCase",
            MV::CC(_) => "CallingConvention",
            MV::Inline(_) => "Inline",
            MV::Ordering(_) => "Ordering",
            MV::FileIdx(_) => "FileIndex",
        }
    }
}

pub const ALL_VARIANTS: [&str; 38] = [
    "Address", "Block", "Data1", "Data2", "Data4", "Data8", "Data16", "Sdata", "Udata", "ImplicitConst", "Exprloc", "Flag", "FlagPresent", "UnitRef", "DebugInfoRef", "DebugInfoRefSup", "LineProgramRef", "LocationListRef", "DebugMacinfoRef", "DebugMacroRef", "RangeListRef",
    "DebugTypesRef", "StringRef", "DebugStrRefSup", "LineStringRef", "String", "Encoding", "DecimalSign", "Endianity", "Accessibility", "Visibility", "Virtuality", "Language", "AddressClass", "IdentifierCase", "CallingConvention", "Inline", "Ordering",
];
// (FileIndex is the 39th variant of this gimli version; it is required separately.)

#[derive(Clone, Debug, PartialEq)]
pub enum MRange {
    Base(MAddr),
    OffsetPair(u64, u64),
    StartEnd(MAddr, MAddr),
    StartLength(MAddr, u64),
}

#[derive(Clone, Debug, PartialEq)]
pub enum MLoc {
    Base(MAddr),
    OffsetPair(u64, u64, Vec<MOp>),
    StartEnd(MAddr, MAddr, Vec<MOp>),
    StartLength(MAddr, u64, Vec<MOp>),
    Default(Vec<MOp>),
}

#[derive(Clone, Debug, PartialEq)]
pub struct MSeq {
    pub start: Option<MAddr>,
    /// (address offset, line, file: index among added files or usize::MAX = keep default)
    pub rows: Vec<(u64, u64, usize)>,
    pub end: u64,
}

#[derive(Clone, Debug, PartialEq)]
pub struct MLine {
    /// Encoding of the line program if different from the unit's.
    pub enc: Option<Enc>,
    /// 0 = DW_FORM_string, 1 = DW_FORM_line_strp, 2 = DW_FORM_strp (1/2 need v5).
    pub str_form: u8,
    pub comp_dir: Vec<u8>,
    pub comp_file: Vec<u8>,
    /// Extra files (beyond the v5 primary file).
    pub files: Vec<Vec<u8>>,
    pub seqs: Vec<MSeq>,
}

#[derive(Clone, Copy, Debug, PartialEq, Eq)]
pub enum AddMode {
    /// `Unit::add`
    Plain,
    /// id taken with `Unit::reserve` before any entry is added, `add_reserved` at its tree position
    ReservedEarly,
}

#[derive(Clone, Debug, PartialEq)]
pub struct MEntry {
    pub parent: usize,
    pub tag: u16,
    pub sibling: bool,
    pub mode: AddMode,
    pub attrs: Vec<(u16, MV)>,
}

#[derive(Clone, Debug, PartialEq)]
pub struct MUnit {
    pub enc: Enc,
    /// Preorder; entries[0] is the root (parent = usize::MAX).
    pub entries: Vec<MEntry>,
    /// false: entries are added in preorder; true: level by level (ids in BFS order;
    /// the order of children under each parent is the same).
    pub add_bfs: bool,
    /// Number of ids reserved before all adds and never added.
    pub phantoms_early: usize,
    /// Number of entries added under the root and removed again with `delete_child`.
    pub phantoms_deleted: usize,
    /// Number of ids reserved after all adds and never added.
    pub phantoms_late: usize,
    pub line: Option<MLine>,
    pub ranges: Vec<Vec<MRange>>,
    pub locs: Vec<Vec<MLoc>>,
}

#[derive(Clone, Debug, PartialEq)]
pub struct Model {
    pub units: Vec<MUnit>,
    /// Symbol values for `MAddr::Sym`.
    pub syms: Vec<u64>,
}

pub fn ident(u: usize, e: usize) -> Vec<u8> {
    format!("u{}e{}", u, e).into_bytes()
}

impl MUnit {
    /// A unit whose tree is `root + forest` (forest given as parent vector
    /// over the non-root entries, roots = usize::MAX), every entry carrying
    /// its identity name.
    pub fn from_forest(u: usize, enc: Enc, forest: &[usize], tag_of: impl Fn(usize) -> u16) -> MUnit {
        let mut entries = vec![MEntry { parent: usize::MAX, tag: TAG_COMPILE_UNIT, sibling: false, mode: AddMode::Plain, attrs: vec![(AT_NAME, MV::Str(ident(u, 0)))] }];
        for (i, &p) in forest.iter().enumerate() {
            let parent = if p == usize::MAX { 0 } else { p + 1 };
            entries.push(MEntry { parent, tag: tag_of(i + 1), sibling: false, mode: AddMode::Plain, attrs: vec![(AT_NAME, MV::Str(ident(u, i + 1)))] });
        }
        MUnit { enc, entries, add_bfs: false, phantoms_early: 0, phantoms_deleted: 0, phantoms_late: 0, line: None, ranges: vec![], locs: vec![] }
    }

    pub fn children(&self, i: usize) -> Vec<usize> {
        (0..self.entries.len()).filter(|&c| self.entries[c].parent == i).collect()
    }

    pub fn depth(&self, mut i: usize) -> isize {
        let mut d = 0;
        while self.entries[i].parent != usize::MAX {
            i = self.entries[i].parent;
            d += 1;
        }
        d
    }

    /// Children of `i` in the order in which they must be emitted: for the
    /// root, DW_TAG_base_type children first (stable), as gimli documents for
    /// typed DWARF expression operations.
    pub fn emit_children(&self, i: usize) -> Vec<usize> {
        let ch = self.children(i);
        if i != 0 {
            return ch;
        }
        let mut out: Vec<usize> = ch.iter().cloned().filter(|&c| self.entries[c].tag == TAG_BASE_TYPE).collect();
        out.extend(ch.iter().cloned().filter(|&c| self.entries[c].tag != TAG_BASE_TYPE));
        out
    }

    /// Model indices in expected emission (DFS) order.
    pub fn emit_order(&self) -> Vec<usize> {
        fn rec(u: &MUnit, i: usize, out: &mut Vec<usize>) {
            out.push(i);
            for c in u.emit_children(i) {
                rec(u, c, out);
            }
        }
        let mut out = vec![];
        rec(self, 0, &mut out);
        out
    }

    pub fn line_enc(&self) -> Option<Enc> {
        self.line.as_ref().map(|l| l.enc.unwrap_or(self.enc))
    }

    /// gimli emits the line program (and DW_AT_stmt_list on the root) iff the
    /// program has instructions or some DIE uses a file index of it.
    pub fn line_in_use(&self) -> bool {
        match &self.line {
            None => false,
            Some(l) => !l.seqs.is_empty() || self.entries.iter().any(|e| e.attrs.iter().any(|(_, v)| matches!(v, MV::FileIdx(Some(_))))),
        }
    }
}

pub fn render_ops(ops: &[MOp]) -> String {
    format!("{:?}", ops)
}

pub fn render(m: &Model) -> String {
    let mut s = String::new();
    for (u, mu) in m.units.iter().enumerate() {
        s.push_str(&format!("unit{} {} ", u, mu.enc.short()));
        if mu.phantoms_early + mu.phantoms_late + mu.phantoms_deleted > 0 {
            s.push_str(&format!("phantoms(early {},deleted {},late {}) ", mu.phantoms_early, mu.phantoms_deleted, mu.phantoms_late));
        }
        if mu.add_bfs {
            s.push_str("added-level-by-level ");
        }
        if let Some(l) = &mu.line {
            s.push_str(&format!("line{{enc {:?} form {} files {} seqs {:?}}} ", l.enc.map(|e| e.short()), l.str_form, l.files.len(), l.seqs));
        }
        if !mu.ranges.is_empty() {
            s.push_str(&format!("ranges{:?} ", mu.ranges));
        }
        if !mu.locs.is_empty() {
            s.push_str(&format!("locs{:?} ", mu.locs));
        }
        s.push('[');
        for (i, e) in mu.entries.iter().enumerate() {
            let p = if e.parent == usize::MAX { "-".to_string() } else { e.parent.to_string() };
            s.push_str(&format!("{}:^{} tag{:#x}{}{}", i, p, e.tag, if e.sibling { " sib" } else { "" }, if e.mode == AddMode::ReservedEarly { " rsv" } else { "" }));
            for (n, v) in &e.attrs {
                if *n == AT_NAME {
                    continue;
                }
                let mut vs = format!("{:?}", v);
                if vs.len() > 120 {
                    vs.truncate(120);
                    vs.push_str("..");
                }
                s.push_str(&format!(" at{:#x}={}", n, vs));
            }
            s.push_str("; ");
        }
        s.push_str("] ");
    }
    if !m.syms.is_empty() {
        s.push_str(&format!("syms{:x?}", m.syms));
    }
    s
}

// ---------------------------------------------------------------------------
// Builder: issue the model's requests to gimli::write

pub struct UnitIds {
    pub entries: Vec<w::UnitEntryId>,
    pub phantoms: Vec<w::UnitEntryId>,
    pub files: Vec<w::FileId>,
}

#[derive(Clone, Copy)]
pub struct BuildOpts {
    /// true: `MAddr::Sym` becomes `Address::Symbol`; false: the constant
    /// `syms[sym] + addend`.
    pub symbolic: bool,
    /// true: every attribute is first set to a placeholder and then replaced, and a
    /// scratch attribute is set and deleted again (`set` replaces in place, `delete` removes).
    pub churn: bool,
}

pub fn conv_addr(a: &MAddr, syms: &[u64], o: BuildOpts) -> w::Address {
    match *a {
        MAddr::C(v) => w::Address::Constant(v),
        MAddr::Sym { sym, addend } => {
            if o.symbolic {
                w::Address::Symbol { symbol: sym, addend }
            } else {
                w::Address::Constant(syms[sym].wrapping_add(addend as u64))
            }
        }
    }
}

pub fn resolve_addr(a: &MAddr, syms: &[u64]) -> u64 {
    match *a {
        MAddr::C(v) => v,
        MAddr::Sym { sym, addend } => syms[sym].wrapping_add(addend as u64),
    }
}

fn line_string(s: &[u8], form: u8, strings: &mut w::StringTable, line_strings: &mut w::LineStringTable) -> w::LineString {
    match form {
        0 => w::LineString::String(s.to_vec()),
        1 => w::LineString::LineStringRef(line_strings.add(s.to_vec())),
        _ => w::LineString::StringRef(strings.add(s.to_vec())),
    }
}

fn build_line(mu: &MUnit, syms: &[u64], o: BuildOpts, strings: &mut w::StringTable, line_strings: &mut w::LineStringTable) -> (w::LineProgram, Vec<w::FileId>) {
    let Some(ml) = &mu.line else { return (w::LineProgram::none(), vec![]) };
    let enc = ml.enc.unwrap_or(mu.enc);
    let wd = line_string(&ml.comp_dir, ml.str_form, strings, line_strings);
    let sf = line_string(&ml.comp_file, ml.str_form, strings, line_strings);
    let mut lp = w::LineProgram::new(enc.gimli(), LineEncoding::default(), wd, None, sf, None);
    let dir = lp.default_directory();
    let mut files = vec![];
    for f in &ml.files {
        let ls = line_string(f, ml.str_form, strings, line_strings);
        files.push(lp.add_file(ls, dir, None));
    }
    for seq in &ml.seqs {
        lp.begin_sequence(seq.start.as_ref().map(|a| conv_addr(a, syms, o)));
        for &(off, line, file) in &seq.rows {
            lp.row().address_offset = off;
            lp.row().line = line;
            if file != usize::MAX {
                lp.row().file = files[file];
            }
            lp.generate_row();
        }
        lp.end_sequence(seq.end);
    }
    (lp, files)
}

/// Pass 1: the unit with its line program and its entry tree (no attributes).
pub fn build_unit_tree(mu: &MUnit, syms: &[u64], o: BuildOpts, strings: &mut w::StringTable, line_strings: &mut w::LineStringTable) -> (w::Unit, UnitIds) {
    let (lp, files) = build_line(mu, syms, o, strings, line_strings);
    let mut unit = w::Unit::new(mu.enc.gimli(), lp);
    let n = mu.entries.len();
    let mut ids: Vec<Option<w::UnitEntryId>> = vec![None; n];
    ids[0] = Some(unit.root());
    let mut phantoms = vec![];
    // Early reservations, in reverse model order so that ids and tree order disagree.
    for _ in 0..mu.phantoms_early {
        phantoms.push(unit.reserve());
    }
    for i in (1..n).rev() {
        if mu.entries[i].mode == AddMode::ReservedEarly {
            ids[i] = Some(unit.reserve());
        }
    }
    let mut add_order: Vec<usize> = (1..n).collect();
    if mu.add_bfs {
        add_order.sort_by_key(|&i| (mu.depth(i), i));
    }
    for i in add_order {
        let e = &mu.entries[i];
        let parent = ids[e.parent].expect("parents are added before their children");
        match e.mode {
            AddMode::Plain => ids[i] = Some(unit.add(parent, gimli::DwTag(e.tag))),
            AddMode::ReservedEarly => unit.add_reserved(ids[i].unwrap(), parent, gimli::DwTag(e.tag)),
        }
    }
    for _ in 0..mu.phantoms_deleted {
        let root = unit.root();
        let id = unit.add(root, gimli::DwTag(TAG_VARIABLE));
        unit.get_mut(root).delete_child(id);
        phantoms.push(id);
    }
    for _ in 0..mu.phantoms_late {
        phantoms.push(unit.reserve());
    }
    let entries: Vec<w::UnitEntryId> = ids.into_iter().map(|x| x.unwrap()).collect();
    for i in 0..n {
        if mu.entries[i].sibling {
            unit.get_mut(entries[i]).set_sibling(true);
        }
    }
    (unit, UnitIds { entries, phantoms, files })
}

pub struct RefCtx<'a> {
    pub u: usize,
    pub ids: &'a [UnitIds],
    /// `UnitId`s when the units live in a `UnitTable`; None for `DwarfUnit`.
    pub unit_ids: Option<&'a [w::UnitId]>,
}

impl<'a> RefCtx<'a> {
    fn local(&self, r: &Ref) -> w::UnitEntryId {
        match *r {
            Ref::E(u, e) => {
                assert_eq!(u, self.u, "model error: unit-local reference to another unit");
                self.ids[u].entries[e]
            }
            Ref::Phantom(u, k) => {
                assert_eq!(u, self.u);
                self.ids[u].phantoms[k]
            }
        }
    }
    fn global(&self, r: &Ref) -> w::DebugInfoRef {
        let unit_ids = self.unit_ids.expect("model error: DebugInfoRef::Entry needs a UnitTable");
        match *r {
            Ref::E(u, e) => w::DebugInfoRef::Entry(unit_ids[u], self.ids[u].entries[e]),
            Ref::Phantom(u, k) => w::DebugInfoRef::Entry(unit_ids[u], self.ids[u].phantoms[k]),
        }
    }
}

pub fn build_expr(ops: &[MOp], rc: &RefCtx, syms: &[u64], o: BuildOpts) -> w::Expression {
    let mut x = w::Expression::new();
    for op in ops {
        match op {
            MOp::Addr(a) => x.op_addr(conv_addr(a, syms, o)),
            MOp::Constu(v) => x.op_constu(*v),
            MOp::Consts(v) => x.op_consts(*v),
            MOp::Fbreg(v) => x.op_fbreg(*v),
            MOp::PlusUconst(v) => x.op_plus_uconst(*v),
            MOp::StackValue => x.op(k::DW_OP_stack_value),
            MOp::Deref => x.op_deref(),
            MOp::Reg(r) => x.op_reg(Register(*r)),
            MOp::Breg(r, v) => x.op_breg(Register(*r), *v),
            MOp::Piece(v) => x.op_piece(*v),
            MOp::ImplicitValue(d) => x.op_implicit_value(d.clone().into_boxed_slice()),
            MOp::ConstType(r, d) => x.op_const_type(rc.local(r), d.clone().into_boxed_slice()),
            MOp::RegvalType(reg, r) => x.op_regval_type(Register(*reg), rc.local(r)),
            MOp::DerefType(sz, r) => x.op_deref_type(*sz, rc.local(r)),
            MOp::Convert(r) => x.op_convert(r.as_ref().map(|r| rc.local(r))),
            MOp::Reinterpret(r) => x.op_reinterpret(r.as_ref().map(|r| rc.local(r))),
            MOp::Call4(r) => x.op_call(rc.local(r)),
            MOp::ParameterRef(r) => x.op_gnu_parameter_ref(rc.local(r)),
            MOp::CallRef(r) => x.op_call_ref(rc.global(r)),
            MOp::CallRefSym(s) => x.op_call_ref(w::DebugInfoRef::Symbol(*s)),
            MOp::ImplicitPointer(r, off) => x.op_implicit_pointer(rc.global(r), *off),
            MOp::VariableValue(r) => x.op_variable_value(rc.global(r)),
            MOp::EntryValue(inner) => x.op_entry_value(build_expr(inner, rc, syms, o)),
        }
    }
    x
}

pub struct ListIds {
    pub ranges: Vec<w::RangeListId>,
    pub locs: Vec<w::LocationListId>,
}

/// Pass 2: range/location lists and attributes (needs the ids of all units).
pub fn build_unit_attrs(mu: &MUnit, unit: &mut w::Unit, rc: &RefCtx, syms: &[u64], o: BuildOpts, strings: &mut w::StringTable, line_strings: &mut w::LineStringTable) {
    let ca = |a: &MAddr| conv_addr(a, syms, o);
    let mut lists = ListIds { ranges: vec![], locs: vec![] };
    for rl in &mu.ranges {
        let v: Vec<w::Range> = rl
            .iter()
            .map(|r| match r {
                MRange::Base(a) => w::Range::BaseAddress { address: ca(a) },
                MRange::OffsetPair(b, e) => w::Range::OffsetPair { begin: *b, end: *e },
                MRange::StartEnd(b, e) => w::Range::StartEnd { begin: ca(b), end: ca(e) },
                MRange::StartLength(b, l) => w::Range::StartLength { begin: ca(b), length: *l },
            })
            .collect();
        lists.ranges.push(unit.ranges.add(w::RangeList(v)));
    }
    for ll in &mu.locs {
        let v: Vec<w::Location> = ll
            .iter()
            .map(|l| match l {
                MLoc::Base(a) => w::Location::BaseAddress { address: ca(a) },
                MLoc::OffsetPair(b, e, x) => w::Location::OffsetPair { begin: *b, end: *e, data: build_expr(x, rc, syms, o) },
                MLoc::StartEnd(b, e, x) => w::Location::StartEnd { begin: ca(b), end: ca(e), data: build_expr(x, rc, syms, o) },
                MLoc::StartLength(b, l, x) => w::Location::StartLength { begin: ca(b), length: *l, data: build_expr(x, rc, syms, o) },
                MLoc::Default(x) => w::Location::DefaultLocation { data: build_expr(x, rc, syms, o) },
            })
            .collect();
        lists.locs.push(unit.locations.add(w::LocationList(v)));
    }
    let my = &rc.ids[rc.u];
    if o.churn {
        for (i, e) in mu.entries.iter().enumerate() {
            let we = unit.get_mut(my.entries[i]);
            we.set(gimli::DwAt(0x2fff), w::AttributeValue::Data8(0x1122_3344_5566_7788));
            for (name, _) in &e.attrs {
                we.set(gimli::DwAt(*name), w::AttributeValue::Udata(0x5555));
            }
            we.delete(gimli::DwAt(0x2fff));
        }
    }
    for (i, e) in mu.entries.iter().enumerate() {
        for (name, v) in &e.attrs {
            use w::AttributeValue as A;
            let val = match v {
                MV::Addr(a) => A::Address(ca(a)),
                MV::Block(b) => A::Block(b.clone()),
                MV::D1(x) => A::Data1(*x),
                MV::D2(x) => A::Data2(*x),
                MV::D4(x) => A::Data4(*x),
                MV::D8(x) => A::Data8(*x),
                MV::D16(x) => A::Data16(*x),
                MV::S(x) => A::Sdata(*x),
                MV::U(x) => A::Udata(*x),
                MV::Implicit(x) => A::ImplicitConst(*x),
                MV::Expr(ops) => A::Exprloc(build_expr(ops, rc, syms, o)),
                MV::Flag(b) => A::Flag(*b),
                MV::FlagPresent => A::FlagPresent,
                MV::URef(r) => A::UnitRef(rc.local(r)),
                MV::IRef(r) => A::DebugInfoRef(rc.global(r)),
                MV::IRefSym(s) => A::DebugInfoRef(w::DebugInfoRef::Symbol(*s)),
                MV::IRefSup(x) => A::DebugInfoRefSup(gimli::DebugInfoOffset(*x as usize)),
                MV::LineRef => A::LineProgramRef,
                MV::LocRef(k) => A::LocationListRef(lists.locs[*k]),
                MV::Macinfo(x) => A::DebugMacinfoRef(gimli::DebugMacinfoOffset(*x as usize)),
                MV::Macro(x) => A::DebugMacroRef(gimli::DebugMacroOffset(*x as usize)),
                MV::RngRef(k) => A::RangeListRef(lists.ranges[*k]),
                MV::Sig(x) => A::DebugTypesRef(gimli::DebugTypeSignature(*x)),
                MV::StrRef(s) => A::StringRef(strings.add(s.clone())),
                MV::StrSup(x) => A::DebugStrRefSup(gimli::DebugStrOffset(*x as usize)),
                MV::LineStrRef(s) => A::LineStringRef(line_strings.add(s.clone())),
                MV::Str(s) => A::String(s.clone()),
                MV::Encoding(x) => A::Encoding(gimli::DwAte(*x)),
                MV::DecimalSign(x) => A::DecimalSign(gimli::DwDs(*x)),
                MV::Endianity(x) => A::Endianity(gimli::DwEnd(*x)),
                MV::Access(x) => A::Accessibility(gimli::DwAccess(*x)),
                MV::Vis(x) => A::Visibility(gimli::DwVis(*x)),
                MV::Virt(x) => A::Virtuality(gimli::DwVirtuality(*x)),
                MV::Lang(x) => A::Language(gimli::DwLang(*x)),
                MV::AddrClass(x) => A::AddressClass(gimli::DwAddr(*x)),
                MV::IdCase(x) => A::IdentifierCase(gimli::DwId(*x)),
                MV::CC(x) => A::CallingConvention(gimli::DwCc(*x)),
                MV::Inline(x) => A::Inline(gimli::DwInl(*x)),
                MV::Ordering(x) => A::Ordering(gimli::DwOrd(*x)),
                MV::FileIdx(f) => A::FileIndex(f.map(|f| my.files[f])),
            };
            unit.get_mut(my.entries[i]).set(gimli::DwAt(*name), val);
        }
    }
}

/// Build the whole model as a `write::Dwarf`.
pub fn build_dwarf(m: &Model, o: BuildOpts) -> w::Dwarf {
    let mut dwarf = w::Dwarf::new();
    let mut ids = vec![];
    let mut unit_ids = vec![];
    for mu in &m.units {
        let (unit, uids) = build_unit_tree(mu, &m.syms, o, &mut dwarf.strings, &mut dwarf.line_strings);
        unit_ids.push(dwarf.units.add(unit));
        ids.push(uids);
    }
    for (u, mu) in m.units.iter().enumerate() {
        let rc = RefCtx { u, ids: &ids, unit_ids: Some(&unit_ids) };
        let unit = dwarf.units.get_mut(unit_ids[u]);
        build_unit_attrs(mu, unit, &rc, &m.syms, o, &mut dwarf.strings, &mut dwarf.line_strings);
    }
    dwarf
}

/// Build a single-unit model as a `write::DwarfUnit`.
pub fn build_dwarf_unit(m: &Model, o: BuildOpts) -> w::DwarfUnit {
    assert_eq!(m.units.len(), 1);
    let mu = &m.units[0];
    let mut du = w::DwarfUnit::new(mu.enc.gimli());
    let (unit, uids) = build_unit_tree(mu, &m.syms, o, &mut du.strings, &mut du.line_strings);
    du.unit = unit;
    let ids = vec![uids];
    let rc = RefCtx { u: 0, ids: &ids, unit_ids: None };
    build_unit_attrs(mu, &mut du.unit, &rc, &m.syms, o, &mut du.strings, &mut du.line_strings);
    du
}

// ---------------------------------------------------------------------------
// Expectation: is the request encodable?

/// Why a model cannot be encoded (None = it can).
pub fn unencodable(m: &Model, plain_writer: bool) -> Option<&'static str> {
    for (u, mu) in m.units.iter().enumerate() {
        if mu.enc.version < 2 || mu.enc.version > 5 {
            return Some("version");
        }
        if let Some(le) = mu.line_enc() {
            if mu.line_in_use() {
                if le.version < 2 || le.version > 5 {
                    return Some("line-version");
                }
                if (mu.enc.version < 5 && le.version >= 5) || le.asz != mu.enc.asz {
                    return Some("line-incompatible");
                }
                let l = mu.line.as_ref().unwrap();
                if l.str_form != 0 && le.version < 5 {
                    return Some("line-string-form");
                }
            }
        }
        let order = mu.emit_order();
        let pos = |e: usize| order.iter().position(|&x| x == e).unwrap();
        let amax: u64 = if mu.enc.asz >= 8 { u64::MAX } else { (1u64 << (8 * mu.enc.asz as u32)) - 1 };
        let addr_bad = |a: &MAddr| -> Option<&'static str> {
            match a {
                MAddr::C(v) => {
                    if *v > amax {
                        Some("address-too-large")
                    } else {
                        None
                    }
                }
                MAddr::Sym { sym, addend } => {
                    if plain_writer {
                        Some("symbolic-address")
                    } else if m.syms[*sym].wrapping_add(*addend as u64) > amax {
                        None
                    } else {
                        None
                    }
                }
            }
        };
        // `at`: Some(position of the entry whose attribute holds the expression) when
        // offsets are computed incrementally (attribute expressions); None when all
        // offsets are known (location lists).
        fn ops_bad(ops: &[MOp], u: usize, at: Option<usize>, pos: &dyn Fn(usize) -> usize, m: &Model, addr_bad: &dyn Fn(&MAddr) -> Option<&'static str>, plain: bool) -> Option<&'static str> {
            for op in ops {
                let local = |r: &Ref| -> Option<&'static str> {
                    match r {
                        Ref::Phantom(..) => Some("ref-never-added"),
                        Ref::E(_, e) => match at {
                            Some(p) if pos(*e) > p => Some("expr-forward-ref"),
                            _ => None,
                        },
                    }
                };
                let global = |r: &Ref| -> Option<&'static str> {
                    match r {
                        Ref::Phantom(..) => Some("ref-never-added"),
                        Ref::E(ru, re) => {
                            let _ = (ru, re, m);
                            None
                        }
                    }
                };
                let bad = match op {
                    MOp::Addr(a) => addr_bad(a),
                    MOp::ConstType(r, d) => local(r).or(if d.len() > 255 { Some("const-type-len") } else { None }),
                    MOp::RegvalType(_, r) | MOp::DerefType(_, r) => local(r),
                    // DW_OP_call4 / DW_OP_GNU_parameter_ref hold a fixed 4-byte unit offset that is
                    // filled in when all offsets are known: any direction is encodable.
                    MOp::Call4(r) | MOp::ParameterRef(r) => match r {
                        Ref::Phantom(..) => Some("ref-never-added"),
                        _ => None,
                    },
                    MOp::Convert(Some(r)) | MOp::Reinterpret(Some(r)) => local(r),
                    MOp::CallRef(r) | MOp::ImplicitPointer(r, _) | MOp::VariableValue(r) => global(r),
                    MOp::CallRefSym(_) => {
                        if plain {
                            Some("symbolic-reference")
                        } else {
                            None
                        }
                    }
                    MOp::EntryValue(inner) => ops_bad(inner, u, at, pos, m, addr_bad, plain),
                    _ => None,
                };
                if bad.is_some() {
                    return bad;
                }
            }
            None
        }
        for (i, e) in mu.entries.iter().enumerate() {
            for (_, v) in &e.attrs {
                let bad = match v {
                    MV::Addr(a) => addr_bad(a),
                    MV::Expr(ops) => ops_bad(ops, u, Some(pos(i)), &pos, m, &addr_bad, plain_writer),
                    MV::URef(Ref::Phantom(..)) | MV::IRef(Ref::Phantom(..)) => Some("ref-never-added"),
                    MV::IRefSym(_) => {
                        if plain_writer {
                            Some("symbolic-reference")
                        } else {
                            None
                        }
                    }
                    MV::IRefSup(x) | MV::StrSup(x) | MV::Macinfo(x) | MV::Macro(x) => {
                        if !mu.enc.fmt64 && *x > u32::MAX as u64 {
                            Some("offset-too-large-for-format")
                        } else {
                            None
                        }
                    }
                    MV::LineRef => {
                        if mu.line_in_use() {
                            None
                        } else {
                            Some("lineref-without-program")
                        }
                    }
                    _ => None,
                };
                if bad.is_some() {
                    return bad;
                }
            }
        }
        for rl in &mu.ranges {
            for r in rl {
                let bad = match r {
                    MRange::Base(a) => addr_bad(a),
                    MRange::StartEnd(a, b) => addr_bad(a).or(addr_bad(b)),
                    MRange::StartLength(a, _) => addr_bad(a),
                    MRange::OffsetPair(..) => None,
                };
                if bad.is_some() {
                    return bad;
                }
            }
        }
        for ll in &mu.locs {
            for l in ll {
                let (a, b, ops): (Option<&MAddr>, Option<&MAddr>, Option<&Vec<MOp>>) = match l {
                    MLoc::Base(a) => (Some(a), None, None),
                    MLoc::OffsetPair(_, _, x) => (None, None, Some(x)),
                    MLoc::StartEnd(a, b, x) => (Some(a), Some(b), Some(x)),
                    MLoc::StartLength(a, _, x) => (Some(a), None, Some(x)),
                    MLoc::Default(x) => {
                        if mu.enc.version < 5 {
                            return Some("default-location-pre-v5");
                        }
                        (None, None, Some(x))
                    }
                };
                // before DWARF 5 the expression length of a location list entry is a 2-byte field
                let too_long = match ops {
                    Some(x) if mu.enc.version < 5 => {
                        let sz: usize = x.iter().map(|o| if let MOp::ImplicitValue(d) = o { 1 + mcx::leb::uleb_len(d.len() as u64) + d.len() } else { 1 }).sum();
                        if sz > 0xffff {
                            Some("loc-expression-too-long")
                        } else {
                            None
                        }
                    }
                    _ => None,
                };
                let bad = a.and_then(|a| addr_bad(a)).or(b.and_then(|b| addr_bad(b))).or(ops.and_then(|x| ops_bad(x, u, None, &pos, m, &addr_bad, plain_writer))).or(too_long);
                if bad.is_some() {
                    return bad;
                }
            }
        }
        if let Some(l) = &mu.line {
            if mu.line_in_use() {
                for s in &l.seqs {
                    if let Some(a) = &s.start {
                        if let Some(b) = addr_bad(a) {
                            return Some(b);
                        }
                    }
                }
            }
        }
    }
    None
}

// ---------------------------------------------------------------------------
// Oracle: read the sections back and compare with the model

pub type Slice<'a> = r::EndianSlice<'a, RunTimeEndian>;

pub struct Fail {
    pub site: &'static str,
    pub kind: &'static str,
    pub detail: String,
}

fn fail<T>(site: &'static str, kind: &'static str, detail: String) -> Result<T, Fail> {
    Err(Fail { site, kind, detail })
}

pub fn load<'a>(get: &dyn Fn(SectionId) -> &'a [u8], endian: RunTimeEndian) -> r::Dwarf<Slice<'a>> {
    r::Dwarf::load(|id| -> Result<Slice<'a>, ()> { Ok(r::EndianSlice::new(get(id), endian)) }).unwrap()
}

pub struct ReadEntry<'a> {
    pub off: usize,
    pub depth: isize,
    pub tag: u16,
    pub has_children: bool,
    pub attrs: Vec<r::Attribute<Slice<'a>>>,
}

pub struct ReadUnit<'a> {
    pub unit: r::Unit<Slice<'a>>,
    pub sec_off: usize,
    pub end: usize, // unit-relative offset of the end of the unit
    pub entries: Vec<ReadEntry<'a>>,
}

impl<'a> ReadUnit<'a> {
    pub fn entry_at(&self, off: usize) -> Option<&ReadEntry<'a>> {
        self.entries.iter().find(|e| e.off == off)
    }
}

pub fn entry_name<'a>(dwarf: &r::Dwarf<Slice<'a>>, ru: &ReadUnit<'a>, e: &ReadEntry<'a>) -> Option<Vec<u8>> {
    let a = e.attrs.iter().find(|a| a.name().0 == AT_NAME)?;
    dwarf.attr_string(&ru.unit, a.value()).ok().map(|s| s.slice().to_vec())
}

pub fn read_units<'a>(dwarf: &r::Dwarf<Slice<'a>>) -> Result<Vec<ReadUnit<'a>>, Fail> {
    let mut out = vec![];
    let mut it = dwarf.units();
    loop {
        let h = match it.next() {
            Ok(Some(h)) => h,
            Ok(None) => break,
            Err(e) => return fail("unit-headers", "read-error", format!("units().next(): {:?}", e)),
        };
        let sec_off = h.debug_info_offset().map(|o| o.0).unwrap_or(usize::MAX);
        let end = h.length_including_self();
        let unit = match dwarf.unit(h) {
            Ok(u) => u,
            Err(e) => return fail("unit", "read-error", format!("Dwarf::unit at {:#x}: {:?}", sec_off, e)),
        };
        let mut entries = vec![];
        {
            let mut cur = unit.entries();
            loop {
                match cur.next_dfs() {
                    Ok(Some(e)) => entries.push(ReadEntry { off: e.offset().0, depth: e.depth(), tag: e.tag().0, has_children: e.has_children(), attrs: e.attrs().to_vec() }),
                    Ok(None) => break,
                    Err(e) => return fail("entries", "read-error", format!("next_dfs in unit at {:#x} after {} entries: {:?}", sec_off, entries.len(), e)),
                }
            }
        }
        out.push(ReadUnit { unit, sec_off, end, entries });
    }
    Ok(out)
}

pub struct Cx<'a, 'm> {
    pub m: &'m Model,
    pub dwarf: &'m r::Dwarf<Slice<'a>>,
    pub units: &'m [ReadUnit<'a>],
}

impl<'a, 'm> Cx<'a, 'm> {
    /// Identity of the entry at a `.debug_info` section offset.
    fn ident_at_section(&self, off: usize) -> Option<(usize, Vec<u8>)> {
        for (u, ru) in self.units.iter().enumerate() {
            if off >= ru.sec_off && off < ru.sec_off + ru.end {
                let e = ru.entry_at(off - ru.sec_off)?;
                return entry_name(self.dwarf, ru, e).map(|n| (u, n));
            }
        }
        None
    }
    fn ident_at_unit(&self, u: usize, off: usize) -> Option<Vec<u8>> {
        let ru = &self.units[u];
        let e = ru.entry_at(off)?;
        entry_name(self.dwarf, ru, e)
    }
    fn want_ident(&self, r: &Ref) -> Vec<u8> {
        match r {
            Ref::E(u, e) => match &self.m.units[*u].entries[*e].attrs[0] {
                (AT_NAME, MV::Str(s)) => s.clone(),
                (AT_NAME, MV::StrRef(s)) => s.clone(),
                (AT_NAME, MV::LineStrRef(s)) => s.clone(),
                _ => panic!("model entry without identity name"),
            },
            Ref::Phantom(..) => panic!("phantom reference in an encodable model"),
        }
    }

    fn check_local_ref(&self, u: usize, off: usize, r: &Ref, what: &str) -> Result<(), String> {
        let want = self.want_ident(r);
        match self.ident_at_unit(u, off) {
            Some(n) if n == want => Ok(()),
            got => Err(format!("{}: unit offset {:#x} resolves to {:?}, want entry {:?}", what, off, got.map(|n| String::from_utf8_lossy(&n).to_string()), String::from_utf8_lossy(&want))),
        }
    }
    fn check_global_ref(&self, off: usize, r: &Ref, what: &str) -> Result<(), String> {
        let want = self.want_ident(r);
        let wu = match r {
            Ref::E(u, _) => *u,
            _ => unreachable!(),
        };
        match self.ident_at_section(off) {
            Some((u, n)) if n == want && u == wu => Ok(()),
            got => Err(format!("{}: .debug_info offset {:#x} resolves to {:?}, want entry {:?} of unit {}", what, off, got.map(|(u, n)| (u, String::from_utf8_lossy(&n).to_string())), String::from_utf8_lossy(&want), wu)),
        }
    }

    /// Compare a decoded expression with the model operations.
    pub fn check_expr(&self, u: usize, expr: r::Expression<Slice<'a>>, enc: Encoding, ops: &[MOp]) -> Result<(), String> {
        let mut it = expr.operations(enc);
        for (n, want) in ops.iter().enumerate() {
            let got = match it.next() {
                Ok(Some(op)) => op,
                other => return Err(format!("expression op {}: reader gave {:?}, want {:?} (bytes {})", n, other, want, mcx::hex(expr.0.slice()))),
            };
            use r::Operation as O;
            let asz = enc.address_size;
            let ok: Result<(), String> = match (want, &got) {
                (MOp::Addr(a), O::Address { address }) if *address == resolve_addr(a, &self.m.syms) => Ok(()),
                (MOp::Constu(v), O::UnsignedConstant { value }) if value == v => Ok(()),
                (MOp::Consts(v), O::SignedConstant { value }) if value == v => Ok(()),
                (MOp::Fbreg(v), O::FrameOffset { offset }) if offset == v => Ok(()),
                (MOp::PlusUconst(v), O::PlusConstant { value }) if value == v => Ok(()),
                (MOp::StackValue, O::StackValue) => Ok(()),
                (MOp::Deref, O::Deref { base_type, size, space }) if base_type.0 == 0 && *size == asz && !*space => Ok(()),
                (MOp::Reg(r), O::Register { register }) if register.0 == *r => Ok(()),
                (MOp::Breg(r, v), O::RegisterOffset { register, offset, base_type }) if register.0 == *r && offset == v && base_type.0 == 0 => Ok(()),
                (MOp::Piece(v), O::Piece { size_in_bits, bit_offset: None }) if *size_in_bits == v.wrapping_mul(8) => Ok(()),
                (MOp::ImplicitValue(d), O::ImplicitValue { data }) if data.slice() == &d[..] => Ok(()),
                (MOp::ConstType(r, d), O::TypedLiteral { base_type, value }) if value.slice() == &d[..] => self.check_local_ref(u, base_type.0, r, "const_type base"),
                (MOp::RegvalType(reg, r), O::RegisterOffset { register, offset: 0, base_type }) if register.0 == *reg => self.check_local_ref(u, base_type.0, r, "regval_type base"),
                (MOp::DerefType(sz, r), O::Deref { base_type, size, space: false }) if size == sz => self.check_local_ref(u, base_type.0, r, "deref_type base"),
                (MOp::Convert(Some(r)), O::Convert { base_type }) => self.check_local_ref(u, base_type.0, r, "convert base"),
                (MOp::Convert(None), O::Convert { base_type }) if base_type.0 == 0 => Ok(()),
                (MOp::Reinterpret(Some(r)), O::Reinterpret { base_type }) => self.check_local_ref(u, base_type.0, r, "reinterpret base"),
                (MOp::Reinterpret(None), O::Reinterpret { base_type }) if base_type.0 == 0 => Ok(()),
                (MOp::Call4(r), O::Call { offset: r::DieReference::UnitRef(o) }) => self.check_local_ref(u, o.0, r, "call4"),
                (MOp::ParameterRef(r), O::ParameterRef { offset }) => self.check_local_ref(u, offset.0, r, "parameter_ref"),
                (MOp::CallRef(r), O::Call { offset: r::DieReference::DebugInfoRef(o) }) => self.check_global_ref(o.0, r, "call_ref"),
                (MOp::ImplicitPointer(r, bo), O::ImplicitPointer { value, byte_offset }) if byte_offset == bo => self.check_global_ref(value.0, r, "implicit_pointer"),
                (MOp::VariableValue(r), O::VariableValue { offset }) => self.check_global_ref(offset.0, r, "variable_value"),
                (MOp::EntryValue(inner), O::EntryValue { expression }) => self.check_expr(u, r::Expression(*expression), enc, inner),
                _ => Err("operation mismatch".to_string()),
            };
            if let Err(e) = ok {
                return Err(format!("expression op {}: {} (reader gave {:?}, want {:?}; bytes {})", n, e, got, want, mcx::hex(expr.0.slice())));
            }
        }
        match it.next() {
            Ok(None) => Ok(()),
            other => Err(format!("expression has trailing operations: {:?} (bytes {})", other, mcx::hex(expr.0.slice()))),
        }
    }

    fn check_ranges(&self, u: usize, attr: r::AttributeValue<Slice<'a>>, k: usize) -> Result<(), String> {
        let ru = &self.units[u];
        let mu = &self.m.units[u];
        let off = match self.dwarf.attr_ranges_offset(&ru.unit, attr) {
            Ok(Some(o)) => o,
            other => return Err(format!("attr_ranges_offset gave {:?}", other)),
        };
        let mut it = self.dwarf.raw_ranges(&ru.unit, off).map_err(|e| format!("raw_ranges: {:?}", e))?;
        let v5 = mu.enc.version >= 5;
        let s = &self.m.syms;
        for (n, want) in mu.ranges[k].iter().enumerate() {
            let got = it.next().map_err(|e| format!("range {}: {:?}", n, e))?;
            use r::RawRngListEntry as E;
            let ok = match (want, &got) {
                (MRange::Base(a), Some(E::BaseAddress { addr })) => *addr == resolve_addr(a, s),
                (MRange::OffsetPair(b, e), Some(E::OffsetPair { begin, end })) if v5 => begin == b && end == e,
                (MRange::OffsetPair(b, e), Some(E::AddressOrOffsetPair { begin, end })) if !v5 => begin == b && end == e,
                (MRange::StartEnd(b, e), Some(E::StartEnd { begin, end })) if v5 => *begin == resolve_addr(b, s) && *end == resolve_addr(e, s),
                (MRange::StartEnd(b, e), Some(E::AddressOrOffsetPair { begin, end })) if !v5 => *begin == resolve_addr(b, s) && *end == resolve_addr(e, s),
                (MRange::StartLength(b, l), Some(E::StartLength { begin, length })) if v5 => *begin == resolve_addr(b, s) && length == l,
                (MRange::StartLength(b, l), Some(E::AddressOrOffsetPair { begin, end })) if !v5 => *begin == resolve_addr(b, s) && *end == resolve_addr(b, s).wrapping_add(*l),
                _ => false,
            };
            if !ok {
                return Err(format!("range list {} entry {}: reader gave {:?}, want {:?}", k, n, got, want));
            }
        }
        match it.next() {
            Ok(None) => Ok(()),
            other => Err(format!("range list {}: trailing {:?}", k, other)),
        }
    }

    fn check_locs(&self, u: usize, attr: r::AttributeValue<Slice<'a>>, k: usize) -> Result<(), String> {
        let ru = &self.units[u];
        let mu = &self.m.units[u];
        let off = match self.dwarf.attr_locations_offset(&ru.unit, attr) {
            Ok(Some(o)) => o,
            other => return Err(format!("attr_locations_offset gave {:?}", other)),
        };
        let mut it = self.dwarf.raw_locations(&ru.unit, off).map_err(|e| format!("raw_locations: {:?}", e))?;
        let v5 = mu.enc.version >= 5;
        let s = &self.m.syms;
        let enc = mu.enc.gimli();
        for (n, want) in mu.locs[k].iter().enumerate() {
            let got = it.next().map_err(|e| format!("location {}: {:?}", n, e))?;
            use r::RawLocListEntry as E;
            let res: Result<(), String> = match (want, &got) {
                (MLoc::Base(a), Some(E::BaseAddress { addr })) if *addr == resolve_addr(a, s) => Ok(()),
                (MLoc::OffsetPair(b, e, x), Some(E::OffsetPair { begin, end, data })) if v5 && begin == b && end == e => self.check_expr(u, *data, enc, x),
                (MLoc::OffsetPair(b, e, x), Some(E::AddressOrOffsetPair { begin, end, data })) if !v5 && begin == b && end == e => self.check_expr(u, *data, enc, x),
                (MLoc::StartEnd(b, e, x), Some(E::StartEnd { begin, end, data })) if v5 && *begin == resolve_addr(b, s) && *end == resolve_addr(e, s) => self.check_expr(u, *data, enc, x),
                (MLoc::StartEnd(b, e, x), Some(E::AddressOrOffsetPair { begin, end, data })) if !v5 && *begin == resolve_addr(b, s) && *end == resolve_addr(e, s) => self.check_expr(u, *data, enc, x),
                (MLoc::StartLength(b, l, x), Some(E::StartLength { begin, length, data })) if v5 && *begin == resolve_addr(b, s) && length == l => self.check_expr(u, *data, enc, x),
                (MLoc::StartLength(b, l, x), Some(E::AddressOrOffsetPair { begin, end, data })) if !v5 && *begin == resolve_addr(b, s) && *end == resolve_addr(b, s).wrapping_add(*l) => self.check_expr(u, *data, enc, x),
                (MLoc::Default(x), Some(E::DefaultLocation { data })) if v5 => self.check_expr(u, *data, enc, x),
                _ => Err("entry mismatch".into()),
            };
            if let Err(e) = res {
                return Err(format!("location list {} entry {}: {}; reader gave {:?}, want {:?}", k, n, e, got, want));
            }
        }
        match it.next() {
            Ok(None) => Ok(()),
            other => Err(format!("location list {}: trailing {:?}", k, other)),
        }
    }

    fn check_line(&self, u: usize, off: usize) -> Result<(), String> {
        let ru = &self.units[u];
        let mu = &self.m.units[u];
        let ml = mu.line.as_ref().ok_or("model has no line program")?;
        let lenc = ml.enc.unwrap_or(mu.enc);
        let prog = self.dwarf.debug_line.program(gimli::DebugLineOffset(off), mu.enc.asz, None, None).map_err(|e| format!("debug_line.program({:#x}): {:?}", off, e))?;
        let h = prog.header();
        if h.version() != lenc.version || h.format() != lenc.gimli().format || h.address_size() != lenc.asz {
            return Err(format!("line header encoding {:?}, want {:?}", h.encoding(), lenc));
        }
        // File table: v5: [comp_file] + files (0-based); v<=4: files (1-based).
        let mut want_files: Vec<&Vec<u8>> = vec![];
        if lenc.version >= 5 {
            want_files.push(&ml.comp_file);
        }
        want_files.extend(ml.files.iter());
        let got_files = h.file_names();
        if got_files.len() != want_files.len() {
            return Err(format!("line header has {} files, want {}", got_files.len(), want_files.len()));
        }
        let want_form = match ml.str_form {
            0 => F_STRING,
            1 => F_LINE_STRP,
            _ => F_STRP,
        };
        for (i, f) in got_files.iter().enumerate() {
            let name = self.dwarf.attr_string(&ru.unit, f.path_name()).map_err(|e| format!("file {} name: {:?}", i, e))?;
            if name.slice() != &want_files[i][..] {
                return Err(format!("file {} name {:?}, want {:?}", i, String::from_utf8_lossy(name.slice()), String::from_utf8_lossy(want_files[i])));
            }
            let form_ok = match (want_form, f.path_name()) {
                (F_STRING, r::AttributeValue::String(_)) => true,
                (F_LINE_STRP, r::AttributeValue::DebugLineStrRef(_)) => true,
                (F_STRP, r::AttributeValue::DebugStrRef(_)) => true,
                _ => false,
            };
            if !form_ok {
                return Err(format!("file {} name has value {:?}, want form {:#x}", i, f.path_name(), want_form));
            }
        }
        if lenc.version >= 5 {
            let d0 = h.directory(0).ok_or("no directory 0")?;
            let d0 = self.dwarf.attr_string(&ru.unit, d0).map_err(|e| format!("dir 0: {:?}", e))?;
            if d0.slice() != &ml.comp_dir[..] {
                return Err(format!("directory 0 {:?}, want {:?}", String::from_utf8_lossy(d0.slice()), String::from_utf8_lossy(&ml.comp_dir)));
            }
        }
        // Rows.
        let base_file = if lenc.version >= 5 { 0u64 } else { 1u64 };
        let default_file = 1u64; // the line machine's initial file register
        let mut want_rows: Vec<(u64, Option<u64>, u64, bool)> = vec![];
        for seq in &ml.seqs {
            let start = seq.start.as_ref().map(|a| resolve_addr(a, &self.m.syms)).unwrap_or(0);
            let mut file = default_file;
            for &(o, line, f) in &seq.rows {
                if f != usize::MAX {
                    // k-th added file: v5 index k+1 (0 is the primary file), v<=4 index k+1 (1-based)
                    file = if lenc.version >= 5 { f as u64 + 1 } else { f as u64 + base_file };
                }
                want_rows.push((start.wrapping_add(o), if line == 0 { None } else { Some(line) }, file, false));
            }
            want_rows.push((start.wrapping_add(seq.end), None, 0, true));
        }
        let mut rows = prog.rows();
        for (n, want) in want_rows.iter().enumerate() {
            let (_, row) = match rows.next_row() {
                Ok(Some(x)) => x,
                other => return Err(format!("line row {}: reader gave {:?}, want {:?}", n, other.map(|o| o.map(|(_, r)| *r)), want)),
            };
            if want.3 {
                if !row.end_sequence() || row.address() != want.0 {
                    return Err(format!("line row {}: got {:?}, want end_sequence at {:#x}", n, row, want.0));
                }
            } else if row.end_sequence() || row.address() != want.0 || row.line().map(|l| l.get()) != want.1 || row.file_index() != want.2 {
                return Err(format!("line row {}: got {:?}, want addr {:#x} line {:?} file {}", n, row, want.0, want.1, want.2));
            }
        }
        match rows.next_row() {
            Ok(None) => Ok(()),
            other => Err(format!("line program has trailing rows: {:?}", other.map(|o| o.map(|(_, r)| *r)))),
        }
    }

    /// Expected form code of a value under an encoding (DWARF 5 table 7.6 and
    /// the per-version fallbacks documented on `write::AttributeValue`).
    pub fn want_form(v: &MV, enc: &Enc) -> u16 {
        let legacy = enc.version <= 3;
        let secoff = if legacy {
            if enc.fmt64 {
                F_DATA8
            } else {
                F_DATA4
            }
        } else {
            F_SEC_OFFSET
        };
        match v {
            MV::Addr(_) => F_ADDR,
            MV::Block(_) => F_BLOCK,
            MV::D1(_) => F_DATA1,
            MV::D2(_) => F_DATA2,
            MV::D4(_) => F_DATA4,
            MV::D8(_) => F_DATA8,
            MV::D16(_) => F_DATA16,
            MV::S(_) => F_SDATA,
            MV::U(_) => F_UDATA,
            MV::Implicit(_) => {
                if enc.version >= 5 {
                    F_IMPLICIT_CONST
                } else {
                    F_SDATA
                }
            }
            MV::Expr(_) => {
                if enc.version >= 4 {
                    F_EXPRLOC
                } else {
                    F_BLOCK
                }
            }
            MV::Flag(_) => F_FLAG,
            MV::FlagPresent => {
                if enc.version >= 4 {
                    F_FLAG_PRESENT
                } else {
                    F_FLAG
                }
            }
            MV::URef(_) => {
                if enc.fmt64 {
                    F_REF8
                } else {
                    F_REF4
                }
            }
            MV::IRef(_) | MV::IRefSym(_) => F_REF_ADDR,
            MV::IRefSup(_) => {
                if enc.fmt64 {
                    F_REF_SUP8
                } else {
                    F_REF_SUP4
                }
            }
            MV::LineRef | MV::LocRef(_) | MV::Macinfo(_) | MV::Macro(_) | MV::RngRef(_) => secoff,
            MV::Sig(_) => F_REF_SIG8,
            MV::StrRef(_) => F_STRP,
            MV::StrSup(_) => F_STRP_SUP,
            MV::LineStrRef(_) => F_LINE_STRP,
            MV::Str(_) => F_STRING,
            MV::Encoding(_) | MV::DecimalSign(_) | MV::Endianity(_) | MV::Access(_) | MV::Vis(_) | MV::Virt(_) | MV::Lang(_) | MV::AddrClass(_) | MV::IdCase(_) | MV::CC(_) | MV::Inline(_) | MV::Ordering(_) | MV::FileIdx(_) => F_UDATA,
        }
    }

    fn check_value(&self, u: usize, name: u16, want: &MV, attr: &r::Attribute<Slice<'a>>) -> Result<(), String> {
        let mu = &self.m.units[u];
        let ru = &self.units[u];
        let enc = mu.enc;
        let wf = Self::want_form(want, &enc);
        if attr.form().0 != wf {
            return Err(format!("form {:#x}, want {:#x}", attr.form().0, wf));
        }
        use r::AttributeValue as A;
        let raw = attr.raw_value();
        let val = attr.value();
        let simple = |ok: bool| if ok { Ok(()) } else { Err(format!("value {:?}", raw)) };
        // Section-offset class: raw is SecOffset both for DW_FORM_sec_offset and
        // for the legacy data4/data8 under the attribute names used here.
        match want {
            MV::Addr(a) => simple(raw == A::Addr(resolve_addr(a, &self.m.syms))),
            MV::Block(b) => simple(matches!(raw, A::Block(x) if x.slice() == &b[..])),
            MV::D1(x) => simple(raw == A::Data1(*x)),
            MV::D2(x) => simple(raw == A::Data2(*x)),
            MV::D4(x) => simple(raw == A::Data4(*x)),
            MV::D8(x) => simple(raw == A::Data8(*x)),
            MV::D16(x) => simple(raw == A::Data16(*x)),
            MV::S(x) | MV::Implicit(x) => simple(raw == A::Sdata(*x)),
            MV::U(x) => simple(raw == A::Udata(*x)),
            MV::Expr(ops) => {
                let expr = match raw {
                    A::Exprloc(e) if enc.version >= 4 => e,
                    A::Block(b) if enc.version < 4 => r::Expression(b),
                    _ => return Err(format!("value {:?}", raw)),
                };
                self.check_expr(u, expr, enc.gimli(), ops)
            }
            MV::Flag(b) => simple(raw == A::Flag(*b)),
            MV::FlagPresent => simple(raw == A::Flag(true)),
            MV::URef(r) => match raw {
                A::UnitRef(o) => self.check_local_ref(u, o.0, r, "UnitRef"),
                _ => Err(format!("value {:?}", raw)),
            },
            MV::IRef(r) => match raw {
                A::DebugInfoRef(o) => self.check_global_ref(o.0, r, "DebugInfoRef"),
                _ => Err(format!("value {:?}", raw)),
            },
            MV::IRefSym(_) => Ok(()),
            MV::IRefSup(x) => simple(raw == A::DebugInfoRefSup(gimli::DebugInfoOffset(*x as usize))),
            MV::LineRef => match val {
                A::DebugLineRef(o) if name == AT_STMT_LIST => self.check_line(u, o.0),
                _ => Err(format!("value {:?}", val)),
            },
            MV::LocRef(k) => match val {
                A::LocationListsRef(_) if name == AT_LOCATION => self.check_locs(u, val, *k),
                _ => Err(format!("value {:?}", val)),
            },
            MV::RngRef(k) => match val {
                A::RangeListsRef(_) if name == AT_RANGES => self.check_ranges(u, val, *k),
                _ => Err(format!("value {:?}", val)),
            },
            MV::Macinfo(x) => simple(raw == A::SecOffset(*x as usize) && (name != AT_MACRO_INFO || val == A::DebugMacinfoRef(gimli::DebugMacinfoOffset(*x as usize)))),
            MV::Macro(x) => simple(raw == A::SecOffset(*x as usize) && (name != AT_MACROS || val == A::DebugMacroRef(gimli::DebugMacroOffset(*x as usize)))),
            MV::Sig(x) => simple(raw == A::DebugTypesRef(gimli::DebugTypeSignature(*x))),
            MV::StrRef(s) => match raw {
                A::DebugStrRef(_) => match self.dwarf.attr_string(&ru.unit, raw) {
                    Ok(g) if g.slice() == &s[..] => Ok(()),
                    other => Err(format!("attr_string gave {:?}, want {:?}", other.map(|g| String::from_utf8_lossy(g.slice()).to_string()), String::from_utf8_lossy(s))),
                },
                _ => Err(format!("value {:?}", raw)),
            },
            MV::LineStrRef(s) => match raw {
                A::DebugLineStrRef(_) => match self.dwarf.attr_string(&ru.unit, raw) {
                    Ok(g) if g.slice() == &s[..] => Ok(()),
                    other => Err(format!("attr_string gave {:?}, want {:?}", other.map(|g| String::from_utf8_lossy(g.slice()).to_string()), String::from_utf8_lossy(s))),
                },
                _ => Err(format!("value {:?}", raw)),
            },
            MV::StrSup(x) => simple(raw == A::DebugStrRefSup(gimli::DebugStrOffset(*x as usize))),
            MV::Str(s) => simple(matches!(raw, A::String(x) if x.slice() == &s[..])),
            MV::Encoding(x) | MV::DecimalSign(x) | MV::Endianity(x) | MV::Access(x) | MV::Vis(x) | MV::Virt(x) | MV::IdCase(x) | MV::CC(x) | MV::Inline(x) | MV::Ordering(x) => simple(raw == A::Udata(*x as u64)),
            MV::Lang(x) => simple(raw == A::Udata(*x as u64)),
            MV::AddrClass(x) => simple(raw == A::Udata(*x)),
            MV::FileIdx(None) => simple(raw == A::Udata(0)),
            MV::FileIdx(Some(f)) => {
                // Resolve through the unit's line program: the file entry selected by
                // the written index must be the k-th added file.
                let A::Udata(idx) = raw else { return Err(format!("value {:?}", raw)) };
                let ml = mu.line.as_ref().ok_or("model has no line program")?;
                let lp = ru.unit.line_program.as_ref().ok_or("unit has no line program")?;
                let fe = lp.header().file(idx).ok_or(format!("file index {} not in line header", idx))?;
                let name = self.dwarf.attr_string(&ru.unit, fe.path_name()).map_err(|e| format!("{:?}", e))?;
                if name.slice() == &ml.files[*f][..] {
                    Ok(())
                } else {
                    Err(format!("file index {} selects {:?}, want {:?}", idx, String::from_utf8_lossy(name.slice()), String::from_utf8_lossy(&ml.files[*f])))
                }
            }
        }
    }
}

/// Full read-back comparison of emitted sections with the model.
pub fn check_sections<'a>(m: &Model, get: &dyn Fn(SectionId) -> &'a [u8], endian: RunTimeEndian) -> Result<(), Fail> {
    let dwarf = load(get, endian);
    let units = read_units(&dwarf)?;
    if units.len() != m.units.len() {
        return fail("unit-count", "wrong-forest", format!("read {} units, want {}", units.len(), m.units.len()));
    }
    let cx = Cx { m, dwarf: &dwarf, units: &units };
    // Pass 1: structure.
    for (u, (mu, ru)) in m.units.iter().zip(units.iter()).enumerate() {
        let h = &ru.unit.header;
        if h.version() != mu.enc.version || h.format() != mu.enc.gimli().format || h.address_size() != mu.enc.asz {
            return fail("unit-header", "wrong-encoding", format!("unit {}: header {:?}, want {:?}", u, h.encoding(), mu.enc));
        }
        let order = mu.emit_order();
        if ru.entries.len() != order.len() {
            return fail("entry-count", "wrong-forest", format!("unit {}: read {} entries, want {}", u, ru.entries.len(), order.len()));
        }
        for (p, &mi) in order.iter().enumerate() {
            let me = &mu.entries[mi];
            let re = &ru.entries[p];
            let has_children = !mu.children(mi).is_empty();
            if re.tag != me.tag || re.depth != mu.depth(mi) || re.has_children != has_children {
                return fail("tree", "wrong-forest", format!("unit {} position {}: read tag {:#x} depth {} children {}, want entry {} tag {:#x} depth {} children {}", u, p, re.tag, re.depth, re.has_children, mi, me.tag, mu.depth(mi), has_children));
            }
            let want = cx.want_ident(&Ref::E(u, mi));
            let got = entry_name(&dwarf, ru, re);
            if got.as_deref() != Some(&want[..]) {
                return fail("tree", "wrong-identity", format!("unit {} position {}: name {:?}, want {:?}", u, p, got.map(|g| String::from_utf8_lossy(&g).to_string()), String::from_utf8_lossy(&want)));
            }
        }
    }
    // Pass 2: attributes, references, sibling pointers.
    for (u, (mu, ru)) in m.units.iter().zip(units.iter()).enumerate() {
        let order = mu.emit_order();
        for (p, &mi) in order.iter().enumerate() {
            let me = &mu.entries[mi];
            let re = &ru.entries[p];
            let has_children = !mu.children(mi).is_empty();
            let mut want: Vec<(u16, Option<&MV>)> = vec![];
            if me.sibling && has_children {
                want.push((AT_SIBLING, None));
            }
            for (n, v) in &me.attrs {
                want.push((*n, Some(v)));
            }
            let lineref = MV::LineRef;
            if mi == 0 && mu.line_in_use() {
                want.push((AT_STMT_LIST, Some(&lineref)));
            }
            if re.attrs.len() != want.len() {
                return fail("attributes", "wrong-attribute-list", format!("unit {} entry {}: read attrs {:?}, want names {:?}", u, mi, re.attrs.iter().map(|a| (a.name().0, a.form().0)).collect::<Vec<_>>(), want.iter().map(|w| w.0).collect::<Vec<_>>()));
            }
            for (ai, (wn, wv)) in want.iter().enumerate() {
                let a = &re.attrs[ai];
                if a.name().0 != *wn {
                    return fail("attributes", "wrong-attribute-list", format!("unit {} entry {} attr {}: name {:#x}, want {:#x}", u, mi, ai, a.name().0, wn));
                }
                match wv {
                    None => {
                        // DW_AT_sibling: unit-relative offset of the entry following the subtree.
                        let wf = if mu.enc.fmt64 { F_REF8 } else { F_REF4 };
                        let d = re.depth;
                        let target = match ru.entries[p + 1..].iter().find(|e| e.depth <= d) {
                            Some(nx) => nx.off as isize - (d - nx.depth),
                            None => ru.end as isize - d,
                        };
                        let got = match a.raw_value() {
                            r::AttributeValue::UnitRef(o) => o.0 as isize,
                            _ => -1,
                        };
                        if a.form().0 != wf || got != target {
                            return fail("sibling", "wrong-sibling-pointer", format!("unit {} entry {}: DW_AT_sibling form {:#x} value {:?}, want form {:#x} offset {:#x}", u, mi, a.form().0, a.raw_value(), wf, target));
                        }
                    }
                    Some(v) => {
                        if let Err(e) = cx.check_value(u, *wn, v, a) {
                            let site: &'static str = match v {
                                MV::URef(_) => "unit-ref",
                                MV::IRef(_) => "debug-info-ref",
                                MV::Expr(_) => "expression",
                                MV::LineRef => "line-program",
                                MV::LocRef(_) => "location-list",
                                MV::RngRef(_) => "range-list",
                                MV::StrRef(_) | MV::LineStrRef(_) => "string-ref",
                                MV::FileIdx(_) => "file-index",
                                _ => "attribute-value",
                            };
                            let kind: &'static str = match (v, mu.line_enc()) {
                                // numbering of DW_AT_decl_file depends on the line program's version
                                (MV::FileIdx(Some(_)), Some(le)) if (mu.enc.version >= 5) != (le.version >= 5) => "wrong-file:unit-and-line-version-differ",
                                _ => "wrong-readback",
                            };
                            return fail(site, kind, format!("unit {} entry {} attr {:#x} ({}): {}", u, mi, wn, v.variant(), e));
                        }
                    }
                }
            }
        }
    }
    Ok(())
}

pub fn section_map(s: &w::Sections<WV>) -> BTreeMap<&'static str, Vec<u8>> {
    let mut m = BTreeMap::new();
    let _ = s.for_each(|id, w| -> Result<(), ()> {
        m.insert(id.name(), w.slice().to_vec());
        Ok(())
    });
    m
}

pub fn render_sections(s: &w::Sections<WV>) -> String {
    let mut out = String::new();
    for (n, d) in section_map(s) {
        if !d.is_empty() {
            out.push_str(&format!("{}={} ", n, mcx::hex(&d)));
        }
    }
    out
}
