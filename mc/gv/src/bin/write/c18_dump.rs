//! Semantic dump of everything gimli's parsers report for a set of sections,
//! generic over the reader so that the same text is produced through
//! `EndianSlice` and through `RelocateReader`.
use gimli::read as r;
use gimli::read::UnwindSection;
use gimli::Reader;
use std::fmt::Write;

fn hex<R: Reader>(x: &R) -> String {
    match x.to_slice() {
        Ok(s) => mcx::hex(&s),
        Err(e) => format!("<{:?}>", e),
    }
}

/// Byte containers that may hold relocatable fields are reported by length
/// only; their contents are reported through the decoding iterators.
fn len_of<R: Reader<Offset = usize>>(x: &R) -> String {
    format!("len {}", x.len())
}

fn dump_expr<R: Reader<Offset = usize>>(out: &mut String, expr: r::Expression<R>, enc: gimli::Encoding, indent: &str) {
    let _ = writeln!(out, "{}expr {}", indent, len_of(&expr.0));
    let mut it = expr.operations(enc);
    loop {
        match it.next() {
            Ok(Some(op)) => {
                let s = match &op {
                    r::Operation::ImplicitValue { data } => format!("ImplicitValue {}", hex(data)),
                    r::Operation::TypedLiteral { base_type, value } => format!("TypedLiteral {:?} {}", base_type, hex(value)),
                    r::Operation::EntryValue { expression } => {
                        let _ = writeln!(out, "{}  op EntryValue", indent);
                        dump_expr(out, r::Expression(expression.clone()), enc, &format!("{}    ", indent));
                        continue;
                    }
                    other => format!("{:?}", other),
                };
                let _ = writeln!(out, "{}  op {}", indent, s);
            }
            Ok(None) => break,
            Err(e) => {
                let _ = writeln!(out, "{}  op-error {:?}", indent, e);
                break;
            }
        }
    }
}

fn value_str<R: Reader<Offset = usize>>(v: &r::AttributeValue<R>) -> String {
    use r::AttributeValue as A;
    match v {
        A::Block(b) => format!("Block {}", len_of(b)),
        A::Exprloc(e) => format!("Exprloc {}", len_of(&e.0)),
        A::String(s) => format!("String {}", hex(s)),
        other => format!("{:?}", other),
    }
}

fn dump_line<R: Reader<Offset = usize>>(out: &mut String, dwarf: &r::Dwarf<R>, unit: &r::Unit<R>, prog: r::IncompleteLineProgram<R>) {
    let h = prog.header().clone();
    let _ = writeln!(out, "    line header off {:?} enc {:?} len {:?} hlen {:?} min_inst {} max_ops {} default_is_stmt {} base {} range {} opcode_base {}", h.offset(), h.encoding(), h.unit_length(), h.header_length(), h.minimum_instruction_length(), h.maximum_operations_per_instruction(), h.default_is_stmt(), h.line_base(), h.line_range(), h.opcode_base());
    for (i, d) in h.include_directories().iter().enumerate() {
        let s = dwarf.attr_string(unit, d.clone()).map(|s| hex(&s));
        let _ = writeln!(out, "    dir {} {} => {:?}", i, value_str(d), s);
    }
    for (i, f) in h.file_names().iter().enumerate() {
        let s = dwarf.attr_string(unit, f.path_name()).map(|s| hex(&s));
        let _ = writeln!(out, "    file {} {} dir {} => {:?}", i, value_str(&f.path_name()), f.directory_index(), s);
    }
    let mut rows = prog.rows();
    loop {
        match rows.next_row() {
            Ok(Some((_, row))) => {
                let _ = writeln!(out, "    row addr {:#x} op {} file {} line {:?} col {:?} stmt {} end {}", row.address(), row.op_index(), row.file_index(), row.line(), row.column(), row.is_stmt(), row.end_sequence());
            }
            Ok(None) => break,
            Err(e) => {
                let _ = writeln!(out, "    row-error {:?}", e);
                break;
            }
        }
    }
}

fn dump_units<R: Reader<Offset = usize>>(out: &mut String, dwarf: &r::Dwarf<R>) {
    let mut it = dwarf.units();
    loop {
        let h = match it.next() {
            Ok(Some(h)) => h,
            Ok(None) => break,
            Err(e) => {
                let _ = writeln!(out, "unit-header-error {:?}", e);
                break;
            }
        };
        let _ = writeln!(out, "unit off {:?} len {:?} enc {:?} type {:?} abbrev {:?}", h.offset(), h.unit_length(), h.encoding(), h.type_(), h.debug_abbrev_offset());
        let unit = match dwarf.unit(h) {
            Ok(u) => u,
            Err(e) => {
                let _ = writeln!(out, "  unit-error {:?}", e);
                continue;
            }
        };
        let _ = writeln!(out, "  name {:?} comp_dir {:?} low_pc {:#x}", unit.name.as_ref().map(hex), unit.comp_dir.as_ref().map(hex), unit.low_pc);
        let enc = unit.encoding();
        let mut cur = unit.entries();
        loop {
            let e = match cur.next_dfs() {
                Ok(Some(e)) => e.clone(),
                Ok(None) => break,
                Err(e) => {
                    let _ = writeln!(out, "  entry-error {:?}", e);
                    break;
                }
            };
            let _ = writeln!(out, "  die off {:#x} depth {} tag {:#x} children {}", e.offset().0, e.depth(), e.tag().0, e.has_children());
            for a in e.attrs() {
                let raw = a.raw_value();
                let val = a.value();
                let _ = writeln!(out, "    attr {:#x} form {:#x} raw {} value {}", a.name().0, a.form().0, value_str(&raw), value_str(&val));
                use r::AttributeValue as A;
                match val.clone() {
                    A::String(_) | A::DebugStrRef(_) | A::DebugLineStrRef(_) => {
                        let _ = writeln!(out, "      string => {:?}", dwarf.attr_string(&unit, val.clone()).map(|s| hex(&s)));
                    }
                    A::Exprloc(x) => dump_expr(out, x, enc, "      "),
                    A::RangeListsRef(_) => {
                        match dwarf.attr_ranges_offset(&unit, val.clone()) {
                            Ok(Some(off)) => {
                                let _ = writeln!(out, "      ranges at {:?}", off);
                                if let Ok(mut raw) = dwarf.raw_ranges(&unit, off) {
                                    loop {
                                        match raw.next() {
                                            Ok(Some(x)) => {
                                                let _ = writeln!(out, "        raw {:?}", x);
                                            }
                                            Ok(None) => break,
                                            Err(e) => {
                                                let _ = writeln!(out, "        raw-error {:?}", e);
                                                break;
                                            }
                                        }
                                    }
                                }
                                match dwarf.ranges(&unit, off) {
                                    Ok(mut it) => loop {
                                        match it.next() {
                                            Ok(Some(x)) => {
                                                let _ = writeln!(out, "        range {:#x}..{:#x}", x.begin, x.end);
                                            }
                                            Ok(None) => break,
                                            Err(e) => {
                                                let _ = writeln!(out, "        range-error {:?}", e);
                                                break;
                                            }
                                        }
                                    },
                                    Err(e) => {
                                        let _ = writeln!(out, "        ranges-error {:?}", e);
                                    }
                                }
                            }
                            other => {
                                let _ = writeln!(out, "      ranges-offset {:?}", other);
                            }
                        }
                    }
                    A::LocationListsRef(_) => match dwarf.attr_locations_offset(&unit, val.clone()) {
                        Ok(Some(off)) => {
                            let _ = writeln!(out, "      locations at {:?}", off);
                            match dwarf.raw_locations(&unit, off) {
                                Ok(mut raw) => loop {
                                    match raw.next() {
                                        Ok(Some(x)) => {
                                            use r::RawLocListEntry as E;
                                            let (head, data) = match &x {
                                                E::AddressOrOffsetPair { begin, end, data } => (format!("AddressOrOffsetPair {:#x} {:#x}", begin, end), Some(data.clone())),
                                                E::BaseAddress { addr } => (format!("BaseAddress {:#x}", addr), None),
                                                E::OffsetPair { begin, end, data } => (format!("OffsetPair {:#x} {:#x}", begin, end), Some(data.clone())),
                                                E::DefaultLocation { data } => ("DefaultLocation".to_string(), Some(data.clone())),
                                                E::StartEnd { begin, end, data } => (format!("StartEnd {:#x} {:#x}", begin, end), Some(data.clone())),
                                                E::StartLength { begin, length, data } => (format!("StartLength {:#x} {:#x}", begin, length), Some(data.clone())),
                                                E::BaseAddressx { addr } => (format!("BaseAddressx {:?}", addr), None),
                                                E::StartxEndx { begin, end, data } => (format!("StartxEndx {:?} {:?}", begin, end), Some(data.clone())),
                                                E::StartxLength { begin, length, data } => (format!("StartxLength {:?} {:#x}", begin, length), Some(data.clone())),
                                            };
                                            let _ = writeln!(out, "        raw {}", head);
                                            if let Some(d) = data {
                                                dump_expr(out, d, enc, "          ");
                                            }
                                        }
                                        Ok(None) => break,
                                        Err(e) => {
                                            let _ = writeln!(out, "        raw-error {:?}", e);
                                            break;
                                        }
                                    }
                                },
                                Err(e) => {
                                    let _ = writeln!(out, "        raw-locations-error {:?}", e);
                                }
                            }
                            match dwarf.locations(&unit, off) {
                                Ok(mut it) => loop {
                                    match it.next() {
                                        Ok(Some(x)) => {
                                            let _ = writeln!(out, "        loc {:#x}..{:#x} {}", x.range.begin, x.range.end, len_of(&x.data.0));
                                        }
                                        Ok(None) => break,
                                        Err(e) => {
                                            let _ = writeln!(out, "        loc-error {:?}", e);
                                            break;
                                        }
                                    }
                                },
                                Err(e) => {
                                    let _ = writeln!(out, "        locations-error {:?}", e);
                                }
                            }
                        }
                        other => {
                            let _ = writeln!(out, "      locations-offset {:?}", other);
                        }
                    },
                    A::DebugLineRef(off) => {
                        // a line program referenced from any DIE
                        match dwarf.debug_line.program(off, enc.address_size, unit.comp_dir.clone(), unit.name.clone()) {
                            Ok(p) => dump_line(out, dwarf, &unit, p),
                            Err(e) => {
                                let _ = writeln!(out, "      line-program-error {:?}", e);
                            }
                        }
                    }
                    _ => {}
                }
                // legacy: expressions in DW_FORM_block attributes
                if let (A::Block(b), true) = (raw, matches!(a.name().0, 0x02 | 0x40)) {
                    if !matches!(val, A::Exprloc(_)) {
                        dump_expr(out, r::Expression(b), enc, "      ");
                    }
                }
            }
        }
    }
}

fn dump_cfi_insns<R: Reader<Offset = usize>, S: UnwindSection<R>>(out: &mut String, section: &S, mut it: r::CallFrameInstructionIter<'_, R>, enc: gimli::Encoding)
where
    S::Offset: r::UnwindOffset<usize>,
{
    loop {
        match it.next() {
            Ok(Some(i)) => {
                let _ = writeln!(out, "      insn {:?}", i);
                use r::CallFrameInstruction as C;
                let x = match &i {
                    C::DefCfaExpression { expression } | C::Expression { expression, .. } | C::ValExpression { expression, .. } => Some(*expression),
                    _ => None,
                };
                if let Some(x) = x {
                    match x.get(section) {
                        Ok(e) => dump_expr(out, e, enc, "        "),
                        Err(e) => {
                            let _ = writeln!(out, "        expr-error {:?}", e);
                        }
                    }
                }
            }
            Ok(None) => break,
            Err(e) => {
                let _ = writeln!(out, "      insn-error {:?}", e);
                break;
            }
        }
    }
}

fn dump_frames<R: Reader<Offset = usize>, S: UnwindSection<R>>(out: &mut String, name: &str, section: &S, bases: &r::BaseAddresses)
where
    S::Offset: r::UnwindOffset<usize>,
{
    let mut it = section.entries(bases);
    loop {
        let e = match it.next() {
            Ok(Some(e)) => e,
            Ok(None) => break,
            Err(e) => {
                let _ = writeln!(out, "{} entry-error {:?}", name, e);
                break;
            }
        };
        match e {
            r::CieOrFde::Cie(c) => {
                let enc = c.encoding();
                let _ = writeln!(out, "{} cie off {:#x} len {:#x} version {} enc {:?} caf {} daf {} ra {:?} aug {:?} personality {:?} lsda_enc {:?} fde_enc {:?} signal {}", name, c.offset(), c.entry_len(), c.version(), enc, c.code_alignment_factor(), c.data_alignment_factor(), c.return_address_register(), c.augmentation().is_some(), c.personality_with_encoding(), c.lsda_encoding(), c.fde_address_encoding(), c.is_signal_trampoline());
                dump_cfi_insns(out, section, c.instructions(section, bases), enc);
            }
            r::CieOrFde::Fde(p) => {
                let f = match p.parse(S::cie_from_offset) {
                    Ok(f) => f,
                    Err(e) => {
                        let _ = writeln!(out, "{} fde-error {:?}", name, e);
                        continue;
                    }
                };
                let enc = f.cie().encoding();
                let _ = writeln!(out, "{} fde off {:#x} len {:#x} cie {:#x} (ra {:?}) pc {:#x} range {:#x} lsda {:?}", name, f.offset(), f.entry_len(), f.cie().offset(), f.cie().return_address_register(), f.initial_address(), f.len(), f.lsda());
                dump_cfi_insns(out, section, f.instructions(section, bases), enc);
                let mut ctx: Box<r::UnwindContext<usize>> = Box::new(r::UnwindContext::new());
                match f.rows(section, bases, &mut ctx) {
                    Ok(mut rows) => loop {
                        match rows.next_row() {
                            Ok(Some(row)) => {
                                let regs: Vec<String> = row.registers().map(|(r, rule)| format!("{:?}={:?}", r, rule)).collect();
                                let _ = writeln!(out, "      unwind {:#x}..{:#x} cfa {:?} {}", row.start_address(), row.end_address(), row.cfa(), regs.join(" "));
                            }
                            Ok(None) => break,
                            Err(e) => {
                                let _ = writeln!(out, "      unwind-error {:?}", e);
                                break;
                            }
                        }
                    },
                    Err(e) => {
                        let _ = writeln!(out, "      rows-error {:?}", e);
                    }
                }
            }
        }
    }
}

/// Error values carry `ReaderOffsetId`s, which are buffer addresses: not part
/// of the semantics.
pub fn strip_ids(s: String) -> String {
    strip_offset_ids(s)
}

fn strip_offset_ids(s: String) -> String {
    const PAT: &str = "ReaderOffsetId(";
    let mut out = String::with_capacity(s.len());
    let mut rest = &s[..];
    while let Some(p) = rest.find(PAT) {
        out.push_str(&rest[..p + PAT.len()]);
        out.push('_');
        rest = &rest[p + PAT.len()..];
        let end = rest.find(')').unwrap_or(rest.len());
        rest = &rest[end..];
    }
    out.push_str(rest);
    out
}

pub fn dump_all<R: Reader<Offset = usize>>(dwarf: &r::Dwarf<R>, debug_frame: &r::DebugFrame<R>, eh_frame: &r::EhFrame<R>) -> String {
    let mut out = String::new();
    dump_units(&mut out, dwarf);
    let bases = r::BaseAddresses::default().set_eh_frame(0).set_text(0).set_got(0);
    dump_frames(&mut out, ".debug_frame", debug_frame, &bases);
    dump_frames(&mut out, ".eh_frame", eh_frame, &bases);
    strip_offset_ids(out)
}
