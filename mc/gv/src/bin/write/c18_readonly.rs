//! C18, reading side only: sections gimli can read but not write
//! (.debug_aranges, .debug_pubnames, .debug_pubtypes, .debug_addr,
//! .debug_str_offsets, .debug_macro), encoded by hand from the DWARF 5 standard
//! (sections 6.1.1, 6.1.2, 6.3.1, 7.26, 7.27) with a relocation on every field
//! that producers emit as relocatable (section offsets and addresses).
use super::{Bytes, MapData, Map, Rel, RR};
use gimli::read as r;
use gimli::{Reader, RunTimeEndian, SectionId};
use std::collections::BTreeMap;
use std::fmt::Write;

pub struct Sec {
    pub name: &'static str,
    pub buf: Vec<u8>,
    pub big: bool,
    pub rels: Vec<Rel>,
}

impl Sec {
    pub fn new(name: &'static str, big: bool) -> Sec {
        Sec { name, buf: vec![], big, rels: vec![] }
    }
    pub fn uint(&mut self, v: u64, n: usize) {
        for i in 0..n {
            let k = if self.big { n - 1 - i } else { i };
            self.buf.push((v >> (8 * k)) as u8);
        }
    }
    pub fn u8(&mut self, v: u8) {
        self.buf.push(v);
    }
    pub fn u16(&mut self, v: u16) {
        self.uint(v as u64, 2);
    }
    pub fn uleb(&mut self, v: u64) {
        mcx::leb::enc_uleb(v, &mut self.buf);
    }
    pub fn cstr(&mut self, s: &[u8]) {
        self.buf.extend_from_slice(s);
        self.buf.push(0);
    }
    /// A relocatable field: zero bytes plus a relocation carrying `value`.
    pub fn rel(&mut self, value: u64, size: u8, target: &str) {
        let m = if size >= 8 { u64::MAX } else { (1u64 << (8 * size as u32)) - 1 };
        self.rels.push(Rel { section: self.name, offset: self.buf.len(), size, target: target.to_string(), addend: value as i64, eh_pe: None, value: value & m });
        self.uint(0, size as usize);
    }
    /// Initial length placeholder; returns a token for `end_length`.
    pub fn begin_length(&mut self, fmt64: bool) -> (usize, bool) {
        if fmt64 {
            self.uint(0xffff_ffff, 4);
        }
        let at = self.buf.len();
        self.uint(0, if fmt64 { 8 } else { 4 });
        (at, fmt64)
    }
    pub fn end_length(&mut self, tok: (usize, bool)) {
        let n = if tok.1 { 8 } else { 4 };
        let len = (self.buf.len() - tok.0 - n) as u64;
        for i in 0..n {
            let k = if self.big { n - 1 - i } else { i };
            self.buf[tok.0 + i] = (len >> (8 * k)) as u8;
        }
    }
}

#[derive(Clone, Copy, Debug)]
pub struct Params {
    pub fmt64: bool,
    pub asz: u8,
    pub big: bool,
}

/// Returns (zero-filled sections, relocations, indices of relocations whose value no
/// public API reports).
pub fn build(kind: usize, p: Params) -> (Bytes, Vec<Rel>, Vec<usize>) {
    let w: u8 = if p.fmt64 { 8 } else { 4 };
    let mut secs: Vec<Sec> = vec![];
    let mut unobservable = vec![];
    match kind {
        0 => {
            // .debug_aranges: two sets
            let mut s = Sec::new(".debug_aranges", p.big);
            for set in 0..2u64 {
                let start = s.buf.len();
                let t = s.begin_length(p.fmt64);
                s.u16(2);
                s.rel(0x40 + set * 0x123, w, ".debug_info");
                s.u8(p.asz);
                s.u8(0);
                // tuples are aligned to twice the address size from the start of the set
                while (s.buf.len() - start) % (2 * p.asz as usize) != 0 {
                    s.u8(0);
                }
                for k in 0..3u64 {
                    s.rel(0x10000 * (set + 1) + 0x100 * k, p.asz, "sym0");
                    s.uint(0x20 + k, p.asz as usize);
                }
                s.uint(0, p.asz as usize);
                s.uint(0, p.asz as usize);
                s.end_length(t);
            }
            secs.push(s);
        }
        1 | 2 => {
            // .debug_pubnames / .debug_pubtypes
            let mut s = Sec::new(if kind == 1 { ".debug_pubnames" } else { ".debug_pubtypes" }, p.big);
            for set in 0..2u64 {
                let t = s.begin_length(p.fmt64);
                s.u16(2);
                s.rel(0x80 * set + 0x0b, w, ".debug_info");
                s.uint(0x1234, w as usize);
                for (off, name) in [(0x2au64, &b"main"[..]), (0x77, &b"helper"[..])] {
                    s.uint(off, w as usize);
                    s.cstr(name);
                }
                s.uint(0, w as usize);
                s.end_length(t);
            }
            secs.push(s);
        }
        3 => {
            // .debug_addr
            let mut s = Sec::new(".debug_addr", p.big);
            let t = s.begin_length(p.fmt64);
            s.u16(5);
            s.u8(p.asz);
            s.u8(0);
            for k in 0..4u64 {
                if k == 2 {
                    s.uint(0x4242, p.asz as usize); // an absolute constant, no relocation
                } else {
                    s.rel(0x20000 + 0x10 * k, p.asz, "sym1");
                }
            }
            s.end_length(t);
            secs.push(s);
        }
        4 => {
            // .debug_str_offsets + .debug_str
            let mut st = Sec::new(".debug_str", p.big);
            let mut offs = vec![];
            for name in [&b"alpha"[..], b"be", b"gamma_gamma"] {
                offs.push(st.buf.len() as u64);
                st.cstr(name);
            }
            let mut s = Sec::new(".debug_str_offsets", p.big);
            let t = s.begin_length(p.fmt64);
            s.u16(5);
            s.u16(0);
            for o in offs.iter().rev() {
                s.rel(*o, w, ".debug_str");
            }
            s.end_length(t);
            secs.push(s);
            secs.push(st);
        }
        _ => {
            // .debug_macro (two units, the first imports the second) + .debug_str
            let mut st = Sec::new(".debug_str", p.big);
            let mut offs = vec![];
            for name in [&b"FOO 1"[..], b"BAR", b"BAZ(x) x"] {
                offs.push(st.buf.len() as u64);
                st.cstr(name);
            }
            let mut s = Sec::new(".debug_macro", p.big);
            let unit = |s: &mut Sec, import: Option<u64>, unobs: &mut Vec<usize>| {
                s.u16(5);
                s.u8(if p.fmt64 { 1 } else { 0 } | 2);
                unobs.push(s.rels.len());
                s.rel(0x33, w, ".debug_line");
                s.u8(3); // start_file
                s.uleb(0);
                s.uleb(1);
                s.u8(1); // define
                s.uleb(7);
                s.cstr(b"INLINE 2");
                s.u8(5); // define_strp
                s.uleb(8);
                s.rel(offs[0], w, ".debug_str");
                s.u8(6); // undef_strp
                s.uleb(9);
                s.rel(offs[1], w, ".debug_str");
                if let Some(off) = import {
                    s.u8(7); // import
                    s.rel(off, w, ".debug_macro");
                }
                s.u8(5);
                s.uleb(300);
                s.rel(offs[2], w, ".debug_str");
                s.u8(4); // end_file
                s.u8(0);
            };
            // the second unit's offset is known after the first is laid out: lay out twice
            let mut probe = Sec::new(".debug_macro", p.big);
            let mut dummy = vec![];
            unit(&mut probe, Some(0), &mut dummy);
            let second = probe.buf.len() as u64;
            unit(&mut s, Some(second), &mut unobservable);
            unit(&mut s, None, &mut unobservable);
            secs.push(s);
            secs.push(st);
        }
    }
    let mut bytes = Bytes::new();
    let mut rels = vec![];
    // indices in `unobservable` refer to the .debug_macro section's own list, which comes first
    for s in secs {
        bytes.insert(s.name, s.buf);
        rels.extend(s.rels);
    }
    (bytes, rels, unobservable)
}

fn hex<R: Reader>(x: &R) -> String {
    match x.to_slice() {
        Ok(s) => mcx::hex(&s),
        Err(e) => format!("<{:?}>", e),
    }
}

pub fn dump_generic<R: Reader<Offset = usize>>(get: &dyn Fn(SectionId) -> R, p: Params) -> String {
    let mut out = String::new();
    let fmt = if p.fmt64 { gimli::Format::Dwarf64 } else { gimli::Format::Dwarf32 };
    // aranges
    let ar = r::DebugAranges::from(get(SectionId::DebugAranges));
    let mut hs = ar.headers();
    loop {
        match hs.next() {
            Ok(Some(h)) => {
                let _ = writeln!(out, "aranges set off {:?} len {:?} enc {:?} info {:?}", h.offset(), h.length(), h.encoding(), h.debug_info_offset());
                let mut es = h.entries();
                loop {
                    match es.next() {
                        Ok(Some(e)) => {
                            let _ = writeln!(out, "  arange {:#x} len {:#x}", e.address(), e.length());
                        }
                        Ok(None) => break,
                        Err(e) => {
                            let _ = writeln!(out, "  arange-error {:?}", e);
                            break;
                        }
                    }
                }
            }
            Ok(None) => break,
            Err(e) => {
                let _ = writeln!(out, "aranges-error {:?}", e);
                break;
            }
        }
    }
    // pubnames / pubtypes
    let pn = r::DebugPubNames::from(get(SectionId::DebugPubNames));
    let mut it = pn.items();
    loop {
        match it.next() {
            Ok(Some(e)) => {
                let _ = writeln!(out, "pubname {} unit {:?} die {:?}", hex(e.name()), e.unit_header_offset(), e.die_offset());
            }
            Ok(None) => break,
            Err(e) => {
                let _ = writeln!(out, "pubnames-error {:?}", e);
                break;
            }
        }
    }
    let pt = r::DebugPubTypes::from(get(SectionId::DebugPubTypes));
    let mut it = pt.items();
    loop {
        match it.next() {
            Ok(Some(e)) => {
                let _ = writeln!(out, "pubtype {} unit {:?} die {:?}", hex(e.name()), e.unit_header_offset(), e.die_offset());
            }
            Ok(None) => break,
            Err(e) => {
                let _ = writeln!(out, "pubtypes-error {:?}", e);
                break;
            }
        }
    }
    // .debug_addr
    let da = r::DebugAddr::from(get(SectionId::DebugAddr));
    let mut hs = da.headers();
    loop {
        match hs.next() {
            Ok(Some(h)) => {
                let _ = writeln!(out, "addr table off {:?} len {:?} enc {:?}", h.offset(), h.length(), h.encoding());
                let mut es = h.entries();
                loop {
                    match es.next() {
                        Ok(Some(a)) => {
                            let _ = writeln!(out, "  addr {:#x}", a);
                        }
                        Ok(None) => break,
                        Err(e) => {
                            let _ = writeln!(out, "  addr-error {:?}", e);
                            break;
                        }
                    }
                }
            }
            Ok(None) => break,
            Err(e) => {
                let _ = writeln!(out, "addr-headers-error {:?}", e);
                break;
            }
        }
    }
    let base = gimli::DebugAddrBase(if p.fmt64 { 16usize } else { 8 });
    for i in 0..5usize {
        let _ = writeln!(out, "get_address {} => {:?}", i, da.get_address(p.asz, base, gimli::DebugAddrIndex(i)));
    }
    // .debug_str_offsets
    let so = r::DebugStrOffsets::from(get(SectionId::DebugStrOffsets));
    let ds = r::DebugStr::from(get(SectionId::DebugStr));
    let sbase = gimli::DebugStrOffsetsBase(if p.fmt64 { 16usize } else { 8 });
    for i in 0..4usize {
        let o = so.get_str_offset(fmt, sbase, gimli::DebugStrOffsetsIndex(i));
        let s = o.as_ref().ok().map(|o| ds.get_str(*o).map(|s| hex(&s)));
        let _ = writeln!(out, "get_str_offset {} => {:?} => {:?}", i, o, s);
    }
    // .debug_macro
    let dm = r::DebugMacro::from(get(SectionId::DebugMacro));
    let mut pending = vec![0usize];
    let mut seen = vec![];
    while let Some(off) = pending.pop() {
        if seen.contains(&off) || seen.len() > 8 {
            continue;
        }
        seen.push(off);
        let _ = writeln!(out, "macro unit at {:#x}", off);
        match dm.get_macros(gimli::DebugMacroOffset(off)) {
            Ok(mut it) => loop {
                match it.next() {
                    Ok(Some(e)) => {
                        let ms = |m: &r::MacroString<R>| match m {
                            r::MacroString::Direct(s) => format!("direct {}", hex(s)),
                            r::MacroString::StringPointer(o) => format!("strp {:?} => {:?}", o, ds.get_str(*o).map(|s| hex(&s))),
                            r::MacroString::IndirectStringPointer(i) => format!("strx {:?}", i),
                            r::MacroString::Supplementary(o) => format!("sup {:?}", o),
                        };
                        let line = match &e {
                            r::MacroEntry::Define { line, text } => format!("define {} {}", line, ms(text)),
                            r::MacroEntry::Undef { line, name } => format!("undef {} {}", line, ms(name)),
                            r::MacroEntry::StartFile { line, file } => format!("start_file {} {}", line, file),
                            r::MacroEntry::EndFile => "end_file".to_string(),
                            r::MacroEntry::Import { offset } => {
                                pending.push(offset.0);
                                format!("import {:?}", offset)
                            }
                            r::MacroEntry::ImportSup { offset } => format!("import_sup {:?}", offset),
                            r::MacroEntry::VendorExt { numeric, string } => format!("vendor {} {}", numeric, hex(string)),
                        };
                        let _ = writeln!(out, "  {}", line);
                    }
                    Ok(None) => break,
                    Err(e) => {
                        let _ = writeln!(out, "  macro-error {:?}", e);
                        break;
                    }
                }
            },
            Err(e) => {
                let _ = writeln!(out, "  get_macros-error {:?}", e);
            }
        }
    }
    super::dump::strip_ids(out)
}

static EMPTY: [u8; 0] = [];

pub fn dump_rr<'a>(bytes: &'a Bytes, maps: &'a BTreeMap<&'static str, MapData>, endian: RunTimeEndian, p: Params) -> String {
    let empty_map = &maps[".debug_abbrev"];
    let get = |id: SectionId| -> RR<'a> {
        let name = id.name();
        let data: &'a [u8] = bytes.get(name).map(|v| &v[..]).unwrap_or(&EMPTY);
        r::RelocateReader::new(r::EndianSlice::new(data, endian), Map(maps.get(name).unwrap_or(empty_map)))
    };
    dump_generic(&get, p)
}

pub fn dump_plain(bytes: &Bytes, endian: RunTimeEndian, p: Params) -> String {
    let get = |id: SectionId| -> r::EndianSlice<RunTimeEndian> { r::EndianSlice::new(bytes.get(id.name()).map(|v| &v[..]).unwrap_or(&EMPTY), endian) };
    dump_generic(&get, p)
}
