//! Reference CFA row machine (DWARF 5 section 6.4), independent of gimli.
//!
//! Input: two lists of *meaning-level* instructions (`MI`): the CIE's initial
//! instructions and the FDE's instructions, with factoring already applied by
//! the front end (wrapping 64-bit multiplication, as gimli documents for its
//! row offsets). Output: the rows of the table and/or the first error.
//!
//! Semantics implemented, with the clause of the standard:
//!  * 6.4.1: initial instructions are executed first, then the FDE's; the row
//!    state at the end of the initial instructions is the "initial rules".
//!  * 6.4.2.1: every advance_loc*/set_loc *creates a new table row*: the
//!    current row is closed at the new location. set_loc below the current
//!    location is an error ("the new location value is always greater than
//!    the current one"; equality is tolerated like every consumer does).
//!  * 6.4.2.2: def_cfa_register / def_cfa_offset(_sf) are valid only if the
//!    current CFA rule is register+offset.
//!  * 6.4.2.3: restore(r) re-installs the rule r had after the initial
//!    instructions (absent = the default rule); it cannot be used inside the
//!    initial instructions themselves.
//!  * 6.4.2.4: remember_state pushes the whole row (CFA rule and all register
//!    rules), restore_state pops it; the location is not part of the state.
//!    The implicit stack is shared by initial and FDE instructions.
//!  * GNU_args_size: recorded per row. Whether it belongs to the remembered
//!    state is not specified anywhere; both readings are tracked (`args`,
//!    `args_alt`) and either is accepted.
//!  * AArch64 negate_ra_state: toggles bit 0 of pseudo register 34, whose
//!    absent rule counts as constant 0; any other rule on it is an error.
//!  * the last row ends at the FDE's end address.
//!
//! Capacity: `Limits` gives the number of rows the implicit stack may hold in
//! total (current row + remembered rows [+ one reserved slot]) and the number
//! of explicit register rules per row.
#![allow(dead_code)]

use std::collections::BTreeMap;

#[derive(Clone, Debug, PartialEq, Eq)]
pub struct ExprRef {
    pub bytes: Vec<u8>,
    /// section offset, when the front end knows it
    pub pos: Option<u64>,
}

impl ExprRef {
    /// equal content; positions compared only if both known
    pub fn same(&self, o: &ExprRef) -> bool {
        self.bytes == o.bytes
            && match (self.pos, o.pos) {
                (Some(a), Some(b)) => a == b,
                _ => true,
            }
    }
}

#[derive(Clone, Debug, PartialEq, Eq)]
pub enum MCfa {
    RegOff(u16, i64),
    Expr(ExprRef),
}

#[derive(Clone, Debug, PartialEq, Eq)]
pub enum MRule {
    Undefined,
    SameValue,
    Offset(i64),
    ValOffset(i64),
    Register(u16),
    Expr(ExprRef),
    ValExpr(ExprRef),
    Constant(u64),
}

impl MRule {
    pub fn same(&self, o: &MRule) -> bool {
        match (self, o) {
            (MRule::Expr(a), MRule::Expr(b)) | (MRule::ValExpr(a), MRule::ValExpr(b)) => a.same(b),
            _ => self == o,
        }
    }
    pub fn variant(&self) -> &'static str {
        match self {
            MRule::Undefined => "undefined",
            MRule::SameValue => "same_value",
            MRule::Offset(_) => "offset",
            MRule::ValOffset(_) => "val_offset",
            MRule::Register(_) => "register",
            MRule::Expr(_) => "expression",
            MRule::ValExpr(_) => "val_expression",
            MRule::Constant(_) => "constant",
        }
    }
}

#[derive(Clone, Debug, PartialEq, Eq)]
pub struct MRow {
    pub cfa: MCfa,
    pub regs: BTreeMap<u16, MRule>,
    pub args: u64,
}

impl MRow {
    pub fn new() -> MRow {
        // 6.4.1: before the initial instructions every column has the default
        // rule; the CFA column is represented as register 0 + 0.
        MRow { cfa: MCfa::RegOff(0, 0), regs: BTreeMap::new(), args: 0 }
    }
}

#[derive(Clone, Debug, PartialEq, Eq)]
pub enum MErr {
    InvalidContext,
    PopEmpty,
    SetLocBack(u64),
    AddressOverflow,
    Unknown(u8),
    BadRegister(u64),
    StackFull,
    TooManyRules,
}

impl MErr {
    pub fn class(&self) -> &'static str {
        match self {
            MErr::InvalidContext => "InvalidContext",
            MErr::PopEmpty => "PopWithEmptyStack",
            MErr::SetLocBack(_) => "InvalidCfiSetLoc",
            MErr::AddressOverflow => "AddressOverflow",
            MErr::Unknown(_) => "UnknownCallFrameInstruction",
            MErr::BadRegister(_) => "UnsupportedRegister",
            MErr::StackFull => "StackFull",
            MErr::TooManyRules => "TooManyRegisterRules",
        }
    }
}

#[derive(Clone, Debug, PartialEq, Eq)]
pub enum MI {
    /// advance by this many bytes (delta * code_alignment_factor, wrapped)
    Advance(u64),
    SetLoc(u64),
    DefCfa(u16, i64),
    DefCfaReg(u16),
    DefCfaOff(i64),
    DefCfaExpr(ExprRef),
    Undefined(u16),
    SameValue(u16),
    Offset(u16, i64),
    ValOffset(u16, i64),
    Register(u16, u16),
    Expr(u16, ExprRef),
    ValExpr(u16, ExprRef),
    Restore(u16),
    Remember,
    RestoreState,
    ArgsSize(u64),
    NegateRa,
    Nop,
    /// the instruction cannot be decoded / is not supported
    Bad(MErr),
}

#[derive(Clone, Copy, Debug, Default)]
pub struct Limits {
    /// total rows the state stack may hold (current + remembered [+ reserve])
    pub stack: Option<usize>,
    pub rules: Option<usize>,
    /// one slot is taken from the end of the initial instructions on
    pub reserve: bool,
}

#[derive(Clone, Debug)]
pub struct OutRow {
    pub start: u64,
    pub end: u64,
    pub row: MRow,
    /// args_size under the reading "not part of the remembered state"
    pub args_alt: u64,
}

#[derive(Clone, Debug, Default)]
pub struct Outcome {
    pub rows: Vec<OutRow>,
    pub err: Option<MErr>,
    /// the error happened while executing the initial instructions
    pub err_in_cie: bool,
    /// the CIE contains location instructions (no defined meaning)
    pub cie_loc: bool,
    pub max_depth: usize,
    pub max_rules: usize,
    /// number of rules at the end of the initial instructions
    pub initial_rules: usize,
    /// advance moved beyond the FDE's end, or rows are empty
    pub past_end: bool,
}

pub const RA_SIGN_STATE: u16 = 34;

struct M {
    row: MRow,
    args_alt: u64,
    stack: Vec<MRow>,
    initial: Option<BTreeMap<u16, MRule>>,
    lim: Limits,
    reserved: usize,
    max_depth: usize,
    max_rules: usize,
}

impl M {
    fn set(&mut self, r: u16, rule: MRule) -> Result<(), MErr> {
        if !self.row.regs.contains_key(&r) {
            if let Some(cap) = self.lim.rules {
                if self.row.regs.len() >= cap {
                    return Err(MErr::TooManyRules);
                }
            }
        }
        self.row.regs.insert(r, rule);
        self.max_rules = self.max_rules.max(self.row.regs.len());
        Ok(())
    }

    /// Apply a non-location instruction.
    fn apply(&mut self, i: &MI) -> Result<(), MErr> {
        match i {
            MI::Advance(_) | MI::SetLoc(_) => unreachable!(),
            MI::DefCfa(r, o) => self.row.cfa = MCfa::RegOff(*r, *o),
            MI::DefCfaReg(r) => match &mut self.row.cfa {
                MCfa::RegOff(reg, _) => *reg = *r,
                MCfa::Expr(_) => return Err(MErr::InvalidContext),
            },
            MI::DefCfaOff(o) => match &mut self.row.cfa {
                MCfa::RegOff(_, off) => *off = *o,
                MCfa::Expr(_) => return Err(MErr::InvalidContext),
            },
            MI::DefCfaExpr(e) => self.row.cfa = MCfa::Expr(e.clone()),
            MI::Undefined(r) => self.set(*r, MRule::Undefined)?,
            MI::SameValue(r) => self.set(*r, MRule::SameValue)?,
            MI::Offset(r, o) => self.set(*r, MRule::Offset(*o))?,
            MI::ValOffset(r, o) => self.set(*r, MRule::ValOffset(*o))?,
            MI::Register(r, s) => self.set(*r, MRule::Register(*s))?,
            MI::Expr(r, e) => self.set(*r, MRule::Expr(e.clone()))?,
            MI::ValExpr(r, e) => self.set(*r, MRule::ValExpr(e.clone()))?,
            MI::Restore(r) => {
                let Some(init) = &self.initial else { return Err(MErr::InvalidContext) };
                match init.get(r).cloned() {
                    None => {
                        self.row.regs.remove(r);
                    }
                    Some(rule) => self.set(*r, rule)?,
                }
            }
            MI::Remember => {
                if let Some(cap) = self.lim.stack {
                    if 1 + self.stack.len() + self.reserved + 1 > cap {
                        return Err(MErr::StackFull);
                    }
                }
                self.stack.push(self.row.clone());
                self.max_depth = self.max_depth.max(self.stack.len());
            }
            MI::RestoreState => match self.stack.pop() {
                None => return Err(MErr::PopEmpty),
                Some(r) => self.row = r,
            },
            MI::ArgsSize(s) => {
                self.row.args = *s;
                self.args_alt = *s;
            }
            MI::NegateRa => {
                let v = match self.row.regs.get(&RA_SIGN_STATE) {
                    None => 0,
                    Some(MRule::Constant(v)) => *v,
                    Some(_) => return Err(MErr::InvalidContext),
                };
                self.set(RA_SIGN_STATE, MRule::Constant(v ^ 1))?;
            }
            MI::Nop => {}
            MI::Bad(e) => return Err(e.clone()),
        }
        Ok(())
    }
}

fn mask(addr_size: u8) -> u64 {
    if addr_size >= 8 {
        u64::MAX
    } else {
        (1u64 << (8 * addr_size as u32)) - 1
    }
}

pub fn run(cie: &[MI], fde: &[MI], start: u64, end: u64, addr_size: u8, lim: Limits) -> Outcome {
    let mut out = Outcome::default();
    let mut m = M { row: MRow::new(), args_alt: 0, stack: vec![], initial: None, lim, reserved: 0, max_depth: 0, max_rules: 0 };
    // initial instructions
    for i in cie {
        if matches!(i, MI::Advance(_) | MI::SetLoc(_)) {
            // a location has no meaning before an FDE supplies one
            out.cie_loc = true;
            continue;
        }
        if let Err(e) = m.apply(i) {
            out.err = Some(e);
            out.err_in_cie = true;
            out.max_depth = m.max_depth;
            out.max_rules = m.max_rules;
            return out;
        }
    }
    m.initial = Some(m.row.regs.clone());
    out.initial_rules = m.row.regs.len();
    if lim.reserve {
        if let Some(cap) = lim.stack {
            if 1 + m.stack.len() + 1 > cap {
                out.err = Some(MErr::StackFull);
                out.err_in_cie = true;
                return out;
            }
        }
        m.reserved = 1;
    }
    // FDE instructions
    let mut loc = start;
    for i in fde {
        let new = match i {
            MI::Advance(d) => match loc.checked_add(*d) {
                Some(n) if n & !mask(addr_size) == 0 => Some(n),
                _ => {
                    out.err = Some(MErr::AddressOverflow);
                    break;
                }
            },
            MI::SetLoc(a) => {
                if *a < loc {
                    out.err = Some(MErr::SetLocBack(*a));
                    break;
                }
                Some(*a)
            }
            _ => None,
        };
        if let Some(n) = new {
            out.rows.push(OutRow { start: loc, end: n, row: m.row.clone(), args_alt: m.args_alt });
            loc = n;
            continue;
        }
        if let Err(e) = m.apply(i) {
            out.err = Some(e);
            break;
        }
    }
    if out.err.is_none() {
        out.rows.push(OutRow { start: loc, end, row: m.row.clone(), args_alt: m.args_alt });
        if loc > end {
            out.past_end = true;
        }
    }
    out.max_depth = m.max_depth;
    out.max_rules = m.max_rules;
    out
}
