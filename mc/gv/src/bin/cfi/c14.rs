//! C14: frame tables written with gimli::write::FrameTable read back with the
//! same CIEs, FDEs and unwind rows. Oracle = gimli's reader (decided by C05/C06)
//! over the emitted bytes + the reference CFA machine applied to the supplied
//! (offset, instruction) list.
use super::enc::{self, Kind};
use super::glue;
use super::model::{ExprRef, MI};
use super::scan::{self, Got, GotCie, GotFde};
use gimli::read::{BaseAddresses, StoreOnHeap, UnwindSection};
use gimli::write::{self as w, Address, EndianVec};
use gimli::{Encoding, Format, Register, RunTimeEndian, Vendor};
use mcx::space::{seq_count, seq_decode, Mix};
use mcx::{guard, CheckDef, Ctx, Sub, Tier};

/// Harness-side mirror of write::CallFrameInstruction.
#[derive(Clone, Debug, PartialEq, Eq, Hash)]
pub enum WI {
    Cfa(u16, i32),
    CfaRegister(u16),
    CfaOffset(i32),
    CfaExpression(Vec<u8>),
    Restore(u16),
    Undefined(u16),
    SameValue(u16),
    Offset(u16, i32),
    ValOffset(u16, i32),
    Register(u16, u16),
    Expression(u16, Vec<u8>),
    ValExpression(u16, Vec<u8>),
    RememberState,
    RestoreState,
    ArgsSize(u32),
    NegateRaState,
}

impl WI {
    fn to_gimli(&self) -> w::CallFrameInstruction {
        use w::CallFrameInstruction as G;
        match self {
            WI::Cfa(r, o) => G::Cfa(Register(*r), *o),
            WI::CfaRegister(r) => G::CfaRegister(Register(*r)),
            WI::CfaOffset(o) => G::CfaOffset(*o),
            WI::CfaExpression(b) => G::CfaExpression(w::Expression::raw(b.clone())),
            WI::Restore(r) => G::Restore(Register(*r)),
            WI::Undefined(r) => G::Undefined(Register(*r)),
            WI::SameValue(r) => G::SameValue(Register(*r)),
            WI::Offset(r, o) => G::Offset(Register(*r), *o),
            WI::ValOffset(r, o) => G::ValOffset(Register(*r), *o),
            WI::Register(a, b) => G::Register(Register(*a), Register(*b)),
            WI::Expression(r, b) => G::Expression(Register(*r), w::Expression::raw(b.clone())),
            WI::ValExpression(r, b) => G::ValExpression(Register(*r), w::Expression::raw(b.clone())),
            WI::RememberState => G::RememberState,
            WI::RestoreState => G::RestoreState,
            WI::ArgsSize(s) => G::ArgsSize(*s),
            WI::NegateRaState => G::NegateRaState,
        }
    }
    /// The meaning of the instruction as documented on write::CallFrameInstruction.
    fn to_mi(&self) -> MI {
        let ex = |b: &Vec<u8>| ExprRef { bytes: b.clone(), pos: None };
        match self {
            WI::Cfa(r, o) => MI::DefCfa(*r, *o as i64),
            WI::CfaRegister(r) => MI::DefCfaReg(*r),
            WI::CfaOffset(o) => MI::DefCfaOff(*o as i64),
            WI::CfaExpression(b) => MI::DefCfaExpr(ex(b)),
            WI::Restore(r) => MI::Restore(*r),
            WI::Undefined(r) => MI::Undefined(*r),
            WI::SameValue(r) => MI::SameValue(*r),
            WI::Offset(r, o) => MI::Offset(*r, *o as i64),
            WI::ValOffset(r, o) => MI::ValOffset(*r, *o as i64),
            WI::Register(a, b) => MI::Register(*a, *b),
            WI::Expression(r, b) => MI::Expr(*r, ex(b)),
            WI::ValExpression(r, b) => MI::ValExpr(*r, ex(b)),
            WI::RememberState => MI::Remember,
            WI::RestoreState => MI::RestoreState,
            WI::ArgsSize(s) => MI::ArgsSize(*s as u64),
            WI::NegateRaState => MI::NegateRa,
        }
    }
    /// Can the data offset be expressed with `daf`? None = no data offset to factor.
    /// Some(true) = expressible, Some(false) = not expressible (must be an error).
    fn data_expressible(&self, daf: i8) -> Option<bool> {
        let off = match self {
            // non-negative CFA offsets are written unfactored
            WI::Cfa(_, o) | WI::CfaOffset(o) => {
                if *o >= 0 {
                    return None;
                }
                *o
            }
            WI::Offset(_, o) | WI::ValOffset(_, o) => *o,
            _ => return None,
        };
        if daf == 0 {
            return Some(off == 0);
        }
        Some(off as i64 % daf as i64 == 0)
    }
}

#[derive(Clone, Debug, PartialEq, Eq, Hash)]
pub struct WCie {
    pub version: u16,
    pub fmt64: bool,
    pub addr: u8,
    pub caf: u8,
    pub daf: i8,
    pub ra: u16,
    pub pers: Option<(u8, u64)>,
    pub lsda_enc: Option<u8>,
    pub fde_enc: u8,
    pub signal: bool,
    pub insns: Vec<WI>,
}

impl WCie {
    pub fn new(version: u16, fmt64: bool, addr: u8, caf: u8, daf: i8) -> WCie {
        WCie { version, fmt64, addr, caf, daf, ra: 16, pers: None, lsda_enc: None, fde_enc: 0, signal: false, insns: vec![] }
    }
    fn to_gimli(&self) -> w::CommonInformationEntry {
        let e = Encoding { format: if self.fmt64 { Format::Dwarf64 } else { Format::Dwarf32 }, version: self.version, address_size: self.addr };
        let mut c = w::CommonInformationEntry::new(e, self.caf, self.daf, Register(self.ra));
        c.personality = self.pers.map(|(e, a)| (gimli::DwEhPe(e), Address::Constant(a)));
        c.lsda_encoding = self.lsda_enc.map(gimli::DwEhPe);
        c.fde_address_encoding = gimli::DwEhPe(self.fde_enc);
        c.signal_trampoline = self.signal;
        for i in &self.insns {
            c.add_instruction(i.to_gimli());
        }
        c
    }
    fn has_aug(&self) -> bool {
        self.pers.is_some() || self.lsda_enc.is_some() || self.signal || self.fde_enc != 0
    }
}

#[derive(Clone, Debug)]
pub struct WFde {
    pub cie: usize,
    pub addr: u64,
    pub len: u32,
    pub lsda: Option<u64>,
    pub insns: Vec<(u32, WI)>,
}

#[derive(Clone, Debug)]
pub struct WTable {
    pub cies: Vec<WCie>,
    pub fdes: Vec<WFde>,
}

fn render_table(t: &WTable, kind: Kind, big: bool) -> String {
    format!("{:?} {} cies={:?} fdes={:?}", kind, if big { "BE" } else { "LE" }, t.cies, t.fdes)
}

#[derive(Debug, Default)]
struct Verdict {
    /// offsets that cannot be expressed with the factors / decrease: the write must fail
    must_err_code: bool,
    must_err_data: bool,
    /// the writer may refuse (documented limits): UnsupportedVersion, ValueTooLarge, UnsupportedPointerEncoding
    may_refuse: bool,
    /// i32::MIN / -1 style: factored value not representable in the writer's i32 (Ok or Err, never a panic)
    either: bool,
    decreasing: bool,
}

fn referenced(t: &WTable) -> Vec<usize> {
    let mut v = vec![];
    for f in &t.fdes {
        if !v.contains(&f.cie) {
            v.push(f.cie);
        }
    }
    v
}

/// May the writer refuse to encode pointer value `v` with encoding byte `e`? It may when the
/// application is not absolute / pc-relative, the format is not one of the nine value formats,
/// or the value (pc-relative: the displacement from some position in the first 1 KiB of the
/// section, where all generated entries live) does not fit the format's width and signedness.
/// Everything else is encodable and must be accepted.
fn ptr_may_refuse(e: u8, v: u64, asz: u8) -> bool {
    let (format, app) = (e & 0x0f, e & 0x70);
    if app != 0x00 && app != 0x10 {
        return true;
    }
    let fits = |x: u64| -> bool {
        let s = x as i64;
        match format {
            0x00 => asz >= 8 || x < (1u64 << (8 * asz as u32)),
            0x01 | 0x04 | 0x09 | 0x0c => true,
            0x02 => x < (1 << 16),
            0x03 => x < (1 << 32),
            0x0a => (-(1i64 << 15)..(1i64 << 15)).contains(&s),
            0x0b => (-(1i64 << 31)..(1i64 << 31)).contains(&s),
            _ => false,
        }
    };
    if app == 0 {
        !fits(v)
    } else {
        (0..0x400u64).any(|pos| !fits(v.wrapping_sub(pos)))
    }
}

fn verdict(t: &WTable, kind: Kind) -> Verdict {
    let mut v = Verdict::default();
    for &ci in &referenced(t) {
        let c = &t.cies[ci];
        if kind == Kind::EhFrame && c.version != 1 {
            v.may_refuse = true;
        }
        // version 1 CIEs have a one-byte return address register
        if c.version == 1 && c.ra > 255 {
            v.may_refuse = true;
        }
        if c.pers.map(|p| ptr_may_refuse(p.0, p.1, c.addr)).unwrap_or(false) {
            v.may_refuse = true;
        }
        if c.addr == 4 && c.pers.map(|p| p.1 > u32::MAX as u64).unwrap_or(false) {
            v.may_refuse = true;
        }
        for i in &c.insns {
            match i.data_expressible(c.daf) {
                Some(false) => v.must_err_data = true,
                Some(true) => {
                    if let WI::Cfa(_, o) | WI::CfaOffset(o) | WI::Offset(_, o) | WI::ValOffset(_, o) = i {
                        if *o == i32::MIN && c.daf == -1 {
                            v.either = true;
                        }
                    }
                }
                None => {}
            }
        }
    }
    for f in &t.fdes {
        let c = &t.cies[f.cie];
        if c.addr == 4 && (f.addr > u32::MAX as u64 || f.lsda.map(|l| l > u32::MAX as u64).unwrap_or(false)) {
            v.may_refuse = true;
        }
        if kind == Kind::EhFrame {
            // the FDE's address and its length are written with the CIE's FDE encoding, the LSDA with the LSDA encoding
            if ptr_may_refuse(c.fde_enc, f.addr, c.addr) || ptr_may_refuse(c.fde_enc & 0x0f, f.len as u64, c.addr) {
                v.may_refuse = true;
            }
            if let (Some(l), Some(e)) = (f.lsda, c.lsda_enc) {
                if ptr_may_refuse(e, l, c.addr) {
                    v.may_refuse = true;
                }
            }
        }
        let mut prev = 0u32;
        for (off, i) in &f.insns {
            if *off < prev {
                v.decreasing = true;
                v.must_err_code = true;
            } else if c.caf == 0 {
                if *off != prev {
                    v.must_err_code = true;
                }
            } else if (*off - prev) % c.caf as u32 != 0 {
                v.must_err_code = true;
            }
            prev = *off;
            match i.data_expressible(c.daf) {
                Some(false) => v.must_err_data = true,
                Some(true) => {
                    if let WI::Cfa(_, o) | WI::CfaOffset(o) | WI::Offset(_, o) | WI::ValOffset(_, o) = i {
                        if *o == i32::MIN && c.daf == -1 {
                            v.either = true;
                        }
                    }
                }
                None => {}
            }
        }
    }
    v
}

fn write_table(t: &WTable, kind: Kind, big: bool) -> Result<Result<Vec<u8>, w::Error>, mcx::Panic> {
    guard(|| {
        let mut ft = w::FrameTable::default();
        let ids: Vec<w::CieId> = t.cies.iter().map(|c| ft.add_cie(c.to_gimli())).collect();
        for f in &t.fdes {
            let mut g = w::FrameDescriptionEntry::new(Address::Constant(f.addr), f.len);
            g.lsda = f.lsda.map(Address::Constant);
            for (off, i) in &f.insns {
                g.add_instruction(*off, i.to_gimli());
            }
            ft.add_fde(ids[f.cie], g);
        }
        let endian = if big { RunTimeEndian::Big } else { RunTimeEndian::Little };
        match kind {
            Kind::DebugFrame => {
                let mut s = w::DebugFrame::from(EndianVec::new(endian));
                ft.write_debug_frame(&mut s).map(|_| s.0.slice().to_vec())
            }
            Kind::EhFrame => {
                let mut s = w::EhFrame::from(EndianVec::new(endian));
                ft.write_eh_frame(&mut s).map(|_| s.0.slice().to_vec())
            }
        }
    })
}

fn exp_ptr(encb: u8, v: u64, addr: u8) -> (bool, u64) {
    (encb & 0x80 != 0, v & enc::mask(addr))
}

fn cmp_cie(g: &GotCie, c: &WCie) -> Result<(), String> {
    let want = (
        c.version as u8,
        c.fmt64,
        c.addr,
        c.caf as u64,
        c.daf as i64,
        c.ra,
        c.has_aug(),
        c.lsda_enc,
        c.pers.map(|(e, a)| (e, exp_ptr(e, a, c.addr))),
        if c.fde_enc != 0 { Some(c.fde_enc) } else { None },
        c.signal,
    );
    let got = (g.version, g.fmt64, g.addr, g.caf, g.daf, g.ra, g.has_aug, g.lsda_enc, g.pers, g.fde_enc, g.signal);
    if got != want {
        return Err(format!("CIE parameters read back {:?}, supplied {:?}", got, want));
    }
    Ok(())
}

/// Which oracle clause a mismatch belongs to gets a suffix for the known
/// corner (so that a recorded finding never hides a different defect).
fn ra_corner(kind: Kind, c: &WCie) -> bool {
    kind == Kind::EhFrame && c.version == 1 && c.ra >= 128
}

fn check_generic<'a, Sec: UnwindSection<glue::Sl<'a>>>(ctx: &mut Ctx, entry: &str, sec: &Sec, bytes: &[u8], t: &WTable, kind: Kind, case: &dyn Fn() -> String) {
    let gb = BaseAddresses::default().set_eh_frame(0);
    let sc = match guard(|| scan::scan(sec, &gb, bytes, t.fdes.len() * 2 + 2)) {
        Ok(s) => s,
        Err(p) => {
            ctx.fail_panic(entry, &p, case());
            return;
        }
    };
    let corner = referenced(t).iter().any(|&ci| ra_corner(kind, &t.cies[ci]));
    // every symptom of the one known corner gets one site (and one kind, see `knd`)
    let sfx = |s: &str| if corner { "cie-return-address-register:eh_frame-v1>=128".to_string() } else { s.to_string() };
    let knd = |s: &'static str| if corner { "read-back-differs" } else { s };
    if let Err(e) = &sc.end {
        ctx.fail(entry, &sfx("read-back"), knd("emitted-section-does-not-parse"), format!("{}: {:?} section={}", case(), e, mcx::hex(bytes)));
        return;
    }
    // expected sequence: per FDE in order, its CIE first if not yet emitted
    let mut emitted: Vec<(usize, usize)> = vec![]; // (cie index in table, offset)
    let mut gi = 0usize;
    for f in &t.fdes {
        let c = &t.cies[f.cie];
        let already = emitted.iter().find(|(ci, _)| t.cies[*ci] == *c).map(|x| x.1);
        let cie_off = match already {
            Some(o) => o,
            None => {
                match sc.items.get(gi) {
                    Some(Got::Cie(g)) => {
                        if let Err(d) = cmp_cie(g, c) {
                            ctx.fail(entry, &sfx("cie-parameters"), "read-back-differs", format!("{}: {} section={}", case(), d, mcx::hex(bytes)));
                            return;
                        }
                        if let Some(clause) = padding_clause(g.fmt64, g.len, c.addr) {
                            ctx.fail(entry, &clause, "entry-size-not-multiple-of-address-size", format!("{}: CIE at {:#x}: length field {} + length {} with address size {} section={}", case(), g.off, if g.fmt64 { 12 } else { 4 }, g.len, c.addr, mcx::hex(bytes)));
                        }
                        emitted.push((f.cie, g.off));
                        gi += 1;
                        g.off
                    }
                    other => {
                        let dup = sc.items.iter().filter(|x| matches!(x, Got::Cie(_))).count();
                        ctx.fail(entry, &sfx("entry-sequence"), knd("cie-missing"), format!("{}: expected a CIE as entry {}, got {:?} ({} CIEs in section) section={}", case(), gi, other, dup, mcx::hex(bytes)));
                        return;
                    }
                }
            }
        };
        match sc.items.get(gi) {
            Some(Got::Fde { full: Ok((gf, gc)), .. }) => {
                if gf.cie_off != cie_off {
                    ctx.fail(entry, &sfx("fde-cie-binding"), knd("bound-to-wrong-cie"), format!("{}: FDE at {:#x} bound to CIE {:#x}, want {:#x} section={}", case(), gf.off, gf.cie_off, cie_off, mcx::hex(bytes)));
                    return;
                }
                if let Err(d) = cmp_cie(gc, c) {
                    ctx.fail(entry, &sfx("cie-parameters"), "read-back-differs", format!("{}: {}", case(), d));
                    return;
                }
                if let Err(d) = cmp_fde(gf, f, c) {
                    ctx.fail(entry, &sfx("fde-fields"), "read-back-differs", format!("{}: {} section={}", case(), d, mcx::hex(bytes)));
                    return;
                }
                if let Some(clause) = padding_clause(c.fmt64, gf.len, c.addr) {
                    ctx.fail(entry, &clause, "entry-size-not-multiple-of-address-size", format!("{}: FDE at {:#x}: length field {} + length {} with address size {} section={}", case(), gf.off, if c.fmt64 { 12 } else { 4 }, gf.len, c.addr, mcx::hex(bytes)));
                }
                gi += 1;
            }
            other => {
                ctx.fail(entry, &sfx("entry-sequence"), knd("fde-missing-or-unparsable"), format!("{}: expected FDE as entry {}, got {:?} section={}", case(), gi, other, mcx::hex(bytes)));
                return;
            }
        }
    }
    if gi != sc.items.len() {
        let ncie = sc.items.iter().filter(|x| matches!(x, Got::Cie(_))).count();
        ctx.fail(entry, "cie-dedup", "extra-entries", format!("{}: {} entries expected, {} emitted ({} CIEs, {} distinct CIEs referenced) section={}", case(), gi, sc.items.len(), ncie, emitted.len(), mcx::hex(bytes)));
        return;
    }
    ctx.outcome("readback:entries-ok");
    // rows
    let mut it = sec.entries(&gb);
    let mut fi = 0usize;
    while let Ok(Some(e)) = it.next() {
        let gimli::read::CieOrFde::Fde(p) = e else { continue };
        let Ok(fde) = p.parse(Sec::cie_from_offset) else { return };
        let f = &t.fdes[fi];
        fi += 1;
        let c = &t.cies[f.cie];
        let cie_mi: Vec<MI> = c.insns.iter().map(|i| i.to_mi()).collect();
        let mut fde_mi = vec![];
        let mut cur = 0u32;
        for (off, i) in &f.insns {
            if *off > cur {
                fde_mi.push(MI::Advance((*off - cur) as u64));
                cur = *off;
            }
            fde_mi.push(i.to_mi());
        }
        let start = f.addr & enc::mask(c.addr);
        let end = start.wrapping_add(f.len as u64) & enc::mask(c.addr);
        ctx.eval(1);
        let obs = match glue::run_table::<Sec, StoreOnHeap>(sec, &gb, &fde, bytes, &[0, 1, 2, 34], f.insns.len() + 2) {
            Ok(o) => o,
            Err(p) => {
                ctx.fail_panic(entry, &p, case());
                return;
            }
        };
        if let Some(cv) = &obs.conv {
            ctx.fail(entry, "rows", "unrepresentable-row", format!("{}: {}", case(), cv));
            return;
        }
        let (m, d) = glue::judge(&obs, &cie_mi, &fde_mi, start, end, c.addr, Some(4), Some(192));
        if let Some(clause) = d {
            ctx.fail(entry, &sfx(&format!("rows:{}", clause)), knd("rows-differ-from-supplied-instructions"), format!("{} FDE#{}\n  read back: {}\n  meaning of supplied instructions: {}\n  section={}", case(), fi - 1, glue::render_obs(&obs), glue::render_outcome(&m), mcx::hex(bytes)));
            return;
        }
        glue::count_outcomes(ctx, &m);
    }
}

fn padding_clause(fmt64: bool, len: usize, addr: u8) -> Option<String> {
    let field = if fmt64 { 12 } else { 4 };
    if (field + len) % addr as usize != 0 {
        Some(format!("padding-{}bit-format-address-size-{}", if fmt64 { 64 } else { 32 }, addr))
    } else {
        None
    }
}

fn cmp_fde(g: &GotFde, f: &WFde, c: &WCie) -> Result<(), String> {
    let start = f.addr & enc::mask(c.addr);
    let want_lsda = match (f.lsda, c.lsda_enc) {
        (Some(l), Some(e)) => Some(exp_ptr(e, l, c.addr)),
        _ => None,
    };
    if g.start != start || g.range != f.len as u64 || g.lsda != want_lsda {
        return Err(format!("FDE read back start {:#x} len {:#x} lsda {:?}, supplied {:#x} {:#x} {:?}", g.start, g.range, g.lsda, start, f.len, want_lsda));
    }
    Ok(())
}

/// Write the table, judge the result, read back.
pub fn check_table(ctx: &mut Ctx, t: &WTable, kind: Kind, big: bool) {
    let entry = if kind == Kind::EhFrame { "FrameTable::write_eh_frame" } else { "FrameTable::write_debug_frame" };
    let v = verdict(t, kind);
    if v.decreasing && ctx.flavour != "rel" {
        // FrameDescriptionEntry::add_instruction debug_asserts the order; only the release behaviour is specified
        ctx.outcome("skipped:decreasing-under-debug-assertions");
        return;
    }
    let case = || render_table(t, kind, big);
    ctx.eval(1);
    let res = match write_table(t, kind, big) {
        Ok(r) => r,
        Err(p) => {
            ctx.fail_panic(entry, &p, case());
            return;
        }
    };
    let must = v.must_err_code || v.must_err_data;
    match res {
        Err(e) => {
            let ok = match e {
                w::Error::InvalidFrameCodeOffset(_) => v.must_err_code,
                w::Error::InvalidFrameDataOffset(_) => v.must_err_data || v.either,
                w::Error::UnsupportedVersion(_) | w::Error::ValueTooLarge | w::Error::UnsupportedPointerEncoding(_) => v.may_refuse,
                _ => false,
            };
            if !ok {
                ctx.fail(entry, "write-result", "unexpected-error", format!("{}: Err({:?}) verdict {:?}", case(), e, v));
                return;
            }
            ctx.outcome(match e {
                w::Error::InvalidFrameCodeOffset(_) => {
                    if v.decreasing {
                        "write:err-decreasing-offset"
                    } else {
                        "write:err-code-offset"
                    }
                }
                w::Error::InvalidFrameDataOffset(_) => "write:err-data-offset",
                _ => "write:refused",
            });
        }
        Ok(bytes) => {
            if must {
                ctx.fail(
                    entry,
                    if v.decreasing { "reject-decreasing-offset" } else if v.must_err_code { "reject-unencodable-code-offset" } else { "reject-unencodable-data-offset" },
                    "accepted-unencodable-offset",
                    format!("{}: Ok, section={}", case(), mcx::hex(&bytes)),
                );
                return;
            }
            ctx.outcome("write:ok");
            // address size for v1/v3 comes from the reader's configuration
            let addr = t.cies.first().map(|c| c.addr).unwrap_or(8);
            match kind {
                Kind::DebugFrame => {
                    let mut sec = gimli::read::DebugFrame::new(&bytes, glue::endian(big));
                    sec.set_address_size(addr);
                    sec.set_vendor(Vendor::AArch64);
                    check_generic(ctx, entry, &sec, &bytes, t, kind, &case);
                }
                Kind::EhFrame => {
                    let mut sec = gimli::read::EhFrame::new(&bytes, glue::endian(big));
                    sec.set_address_size(addr);
                    sec.set_vendor(Vendor::AArch64);
                    check_generic(ctx, entry, &sec, &bytes, t, kind, &case);
                }
            }
        }
    }
}

// ---------------------------------------------------------------------------
// subs

const ENCS: [u8; 5] = [0x00, 0x1b, 0x03, 0x0c, 0x9b];

fn sub_cie_params(_tier: Tier) -> Sub {
    let cafs = [1u8, 2, 4, 255];
    let dafs = [-128i8, -8, -1, 1, 8, 127, 0];
    Sub::new(
        "cie-parameters",
        3 * 2 * 2 * 4 * 7 * 16 * 5 * 2,
        "CIE version {1,3,4} x format {32,64} x address size {4,8} x CAF {1,2,4,255} x DAF {-128,-8,-1,1,8,127,0} x augmentation subsets of {personality, lsda, fde encoding, signal} x pointer encoding {absptr, pcrel|sdata4, udata4, sdata8, indirect|pcrel|sdata4} x {.debug_frame, .eh_frame}; each table: the CIE added twice (identical) + a CIE differing in the return register, 3 FDEs with instructions on aligned offsets; LE/BE alternating",
        move |ctx, i| {
            let mut mx = Mix(i);
            let version = *mx.pick(&[1u16, 3, 4]);
            let fmt64 = mx.flag();
            let addr = *mx.pick(&[4u8, 8]);
            let caf = *mx.pick(&cafs);
            let daf = *mx.pick(&dafs);
            let aug = mx.take(16);
            let e = *mx.pick(&ENCS);
            let kind = *mx.pick(&[Kind::DebugFrame, Kind::EhFrame]);
            let big = i % 3 == 1;
            let mut c = WCie::new(version, fmt64, addr, caf, daf);
            if aug & 1 != 0 {
                c.pers = Some((e, 0x1_2340));
            }
            if aug & 2 != 0 {
                c.lsda_enc = Some(e);
            }
            if aug & 4 != 0 {
                c.fde_enc = e;
            }
            c.signal = aug & 8 != 0;
            let d = daf as i32;
            c.insns = vec![WI::Cfa(7, 8), WI::Offset(16, d * 2)];
            let mut c2 = c.clone();
            c2.ra = 17;
            let cf = caf as u32;
            let lsda = |x: u64| if c.lsda_enc.is_some() { Some(x) } else { None };
            let t = WTable {
                cies: vec![c.clone(), c.clone(), c2],
                fdes: vec![
                    WFde { cie: 0, addr: 0x1000, len: 0x100, lsda: lsda(0x5000), insns: vec![(0, WI::Cfa(7, 16)), (cf * 2, WI::CfaOffset(24)), (cf * 70, WI::Offset(3, d * 3))] },
                    WFde { cie: 1, addr: 0x2000, len: 0x40, lsda: lsda(0x5010), insns: vec![(cf, WI::ValOffset(4, d * -2)), (cf * 300, WI::RememberState), (cf * 300, WI::CfaOffset(-d.abs() * 4)), (cf * 301, WI::RestoreState)] },
                    WFde { cie: 2, addr: 0x3000, len: 0x10, lsda: lsda(0x5020), insns: vec![] },
                ],
            };
            ctx.nontriv(1);
            check_table(ctx, &t, kind, big);
            if ctx.want_sample() && crate::glue::sample_here(i, 211) {
                ctx.sample(render_table(&t, kind, big));
            }
        },
    )
}

/// Every pointer format x application the writer knows (and some it must refuse), on each of
/// the three pointer fields, with values on both sides of each format's range.
fn sub_eh_pointers(_tier: Tier) -> Sub {
    let mut encs: Vec<u8> = vec![];
    for f in [0x00u8, 0x01, 0x02, 0x03, 0x04, 0x09, 0x0a, 0x0b, 0x0c] {
        for app in [0x00u8, 0x10] {
            encs.push(f | app);
        }
    }
    // not encodable by the writer: other applications, unassigned formats
    encs.extend_from_slice(&[0x23, 0x33, 0x43, 0x50, 0x05, 0x0f]);
    let values: Vec<u64> = vec![0, 0x40, 0x7fff, 0x8000, 0x9000, 0xffff, 0x1_0000, 0x7fff_ffff, 0x8000_0000, 0xffff_ff00, 0xffff_ffff, 0x1_0000_0000, 0x7fff_ffff_ffff_ff00, 0xffff_ffff_ffff_ff00];
    let ne = encs.len() as u64;
    let nv = values.len() as u64;
    let len = ne * nv * 4 * 2 * 2;
    Sub::new(
        "eh-pointer-encodings",
        len,
        "pointer encoding byte in {absptr, uleb128, udata2/4/8, sleb128, sdata2/4/8} x {absolute, pcrel} + {textrel, datarel, funcrel, aligned, formats 0x05/0x0f} x pointer value in {0,0x40,0x7fff,0x8000,0x9000,0xffff,2^16,2^31-1,2^31,2^32-256,2^32-1,2^32,2^63-256,2^64-256} x field {personality, personality with DW_EH_PE_indirect, LSDA, FDE address} x address size {4,8} x byte order; .eh_frame version 1: the table must be written and read back with the same pointers when the value fits the format (pc-relative: for every possible field position), and may only be refused (ValueTooLarge / UnsupportedPointerEncoding) otherwise",
        move |ctx, i| {
            let mut mx = Mix(i);
            let big = mx.flag();
            let addr = *mx.pick(&[4u8, 8]);
            let role = mx.take(4);
            let v = *mx.pick(&values);
            let e = *mx.pick(&encs);
            if addr == 4 && v > u32::MAX as u64 {
                ctx.outcome("ehptr:value-wider-than-address-size");
                return;
            }
            let mut c = WCie::new(1, false, addr, 1, -8);
            c.insns = vec![WI::Cfa(7, 8)];
            let mut f = WFde { cie: 0, addr: 0x1000, len: 0x20, lsda: None, insns: vec![(0, WI::Cfa(7, 16))] };
            match role {
                0 => c.pers = Some((e, v)),
                1 => c.pers = Some((e | 0x80, v)),
                2 => {
                    c.lsda_enc = Some(e);
                    f.lsda = Some(v);
                }
                _ => {
                    c.fde_enc = e;
                    f.addr = v;
                }
            }
            let t = WTable { cies: vec![c], fdes: vec![f] };
            ctx.nontriv(1);
            ctx.outcome(if ptr_may_refuse(e, v, addr) { "ehptr:may-refuse" } else { "ehptr:must-accept" });
            check_table(ctx, &t, Kind::EhFrame, big);
            if ctx.want_sample() && crate::glue::sample_here(i, 97) {
                ctx.sample(render_table(&t, Kind::EhFrame, big));
            }
        },
    )
}

fn sub_ra(_tier: Tier) -> Sub {
    let ras = [0u16, 16, 127, 128, 255, 256, 16383, 16384, 65535];
    Sub::new(
        "return-address-register",
        9 * 3 * 2 * 2 * 2 * 2 * 2,
        "return address register {0,16,127,128,255,256,16383,16384,65535} x version {1,3,4} x {.debug_frame,.eh_frame} x format x address size x augmentation {none, personality+lsda+signal} x {LE,BE}",
        move |ctx, i| {
            let mut mx = Mix(i);
            let ra = *mx.pick(&ras);
            let version = *mx.pick(&[1u16, 3, 4]);
            let kind = *mx.pick(&[Kind::DebugFrame, Kind::EhFrame]);
            let fmt64 = mx.flag();
            let addr = *mx.pick(&[4u8, 8]);
            let aug = mx.flag();
            let big = mx.flag();
            let mut c = WCie::new(version, fmt64, addr, 1, -8);
            c.ra = ra;
            if aug {
                c.pers = Some((0x00, 0x4440));
                c.lsda_enc = Some(0x1b);
                c.signal = true;
            }
            c.insns = vec![WI::Cfa(7, 8), WI::Offset(ra.min(200), -8)];
            let t = WTable { cies: vec![c], fdes: vec![WFde { cie: 0, addr: 0x1000, len: 0x20, lsda: if aug { Some(0x7000) } else { None }, insns: vec![(4, WI::CfaOffset(16))] }] };
            ctx.nontriv(1);
            check_table(ctx, &t, kind, big);
        },
    )
}

/// The instruction alphabet for sequences.
fn alphabet() -> Vec<WI> {
    vec![
        WI::Cfa(7, 8),
        WI::Cfa(6, -16),
        WI::CfaRegister(6),
        WI::CfaOffset(24),
        WI::CfaOffset(-8),
        WI::CfaExpression(vec![0x77, 0x08]),
        WI::Restore(1),
        WI::Restore(65),
        WI::Undefined(1),
        WI::SameValue(2),
        WI::Offset(1, -8),
        WI::Offset(2, 16),
        WI::Offset(65, -24),
        WI::ValOffset(2, 8),
        WI::ValOffset(3, -8),
        WI::Register(1, 2),
        WI::Expression(1, vec![0x91, 0x70, 0x06]),
        WI::ValExpression(2, vec![]),
        WI::RememberState,
        WI::RestoreState,
        WI::ArgsSize(16),
        WI::NegateRaState,
    ]
}

const OFFS: [u32; 8] = [0, 1, 0x3f, 0x40, 0xff, 0x100, 0xffff, 0x10000];

fn sub_sequences(tier: Tier) -> Sub {
    let alpha = alphabet();
    let na = alpha.len() as u64;
    let nopt = na * 8;
    let maxlen = tier.pick(2u32, 3u32);
    let n = seq_count(nopt, 0, maxlen);
    let factors: [(u8, i8); 3] = [(1, -8), (2, 1), (4, -16)];
    Sub::new(
        "instruction-sequences",
        n,
        &format!("every sequence of <= {} (code offset, instruction) pairs over a 22-symbol instruction alphabet (every write::CallFrameInstruction variant, both offset signs, registers below/above 64) x factored code offset from {{0,1,0x3f,0x40,0xff,0x100,0xffff,0x10000}} (times CAF), in the FDE after CIE [Cfa(7,8), Offset(16,-16), Offset(1,16)] x (CAF,DAF) in {{(1,-8),(2,1),(4,-16)}} x {{.debug_frame v4, .eh_frame v1}}; sequences whose offsets decrease are run under the rel flavour only (debug_assert in add_instruction) and must be rejected", maxlen),
        move |ctx, i| {
            let seq = seq_decode(nopt, 0, maxlen, i);
            let prog: Vec<(u32, WI)> = seq.iter().map(|&k| (OFFS[k % 8], alpha[k / 8].clone())).collect();
            let decreasing = prog.windows(2).any(|w| w[1].0 < w[0].0);
            if (ctx.flavour == "rel") != decreasing {
                // chk runs the non-decreasing ones, rel the decreasing ones
                ctx.outcome(if decreasing { "skipped:decreasing-under-debug-assertions" } else { "skipped:non-decreasing-under-rel" });
                return;
            }
            ctx.nontriv(1);
            for (caf, daf) in factors {
                for kind in [Kind::DebugFrame, Kind::EhFrame] {
                    let mut c = WCie::new(if kind == Kind::EhFrame { 1 } else { 4 }, false, 8, caf, daf);
                    c.insns = vec![WI::Cfa(7, 8), WI::Offset(16, -16), WI::Offset(1, 16)];
                    let insns: Vec<(u32, WI)> = prog.iter().map(|(o, x)| (o * caf as u32, x.clone())).collect();
                    let t = WTable { cies: vec![c], fdes: vec![WFde { cie: 0, addr: 0x10_0000, len: 0x10_0000, lsda: None, insns }] };
                    check_table(ctx, &t, kind, false);
                    if ctx.want_sample() && crate::glue::sample_here(i, 313) {
                        ctx.sample(render_table(&t, kind, false));
                    }
                }
            }
        },
    )
    .flavours(&["chk", "rel"])
}

/// Thorough tier only (`mcx::deep()`): every sequence of exactly 4 (code offset, instruction)
/// pairs over a core alphabet.
fn sub_sequences_len4_core() -> Sub {
    let alpha = alphabet();
    // 16 instructions spread over the alphabet x 4 code offsets
    let pick: Vec<usize> = (0..16).map(|k| (k * alpha.len()) / 16).collect();
    let offs: [u32; 4] = [0, 1, 0x40, 0x100];
    let nopt = (pick.len() * offs.len()) as u64;
    let n = nopt.pow(4);
    Sub::new(
        "instruction-sequences-len4-core",
        n,
        &format!("every sequence of exactly 4 (code offset, instruction) pairs over 16 instructions of the alphabet (indices {:?}) x factored code offset from {{0,1,0x40,0x100}} x (CAF,DAF) in {{(1,-8),(4,-16)}} x {{.debug_frame v4, .eh_frame v1}}; decreasing offsets under rel only", pick),
        move |ctx, i| {
            let mut r = i;
            let mut prog: Vec<(u32, WI)> = vec![];
            for _ in 0..4 {
                let k = (r % nopt) as usize;
                r /= nopt;
                prog.push((offs[k % 4], alpha[pick[k / 4]].clone()));
            }
            let decreasing = prog.windows(2).any(|w| w[1].0 < w[0].0);
            if (ctx.flavour == "rel") != decreasing {
                ctx.outcome(if decreasing { "skipped:decreasing-under-debug-assertions" } else { "skipped:non-decreasing-under-rel" });
                return;
            }
            ctx.nontriv(1);
            for (caf, daf) in [(1u8, -8i8), (4, -16)] {
                for kind in [Kind::DebugFrame, Kind::EhFrame] {
                    let mut c = WCie::new(if kind == Kind::EhFrame { 1 } else { 4 }, false, 8, caf, daf);
                    c.insns = vec![WI::Cfa(7, 8), WI::Offset(16, -16), WI::Offset(1, 16)];
                    let insns: Vec<(u32, WI)> = prog.iter().map(|(o, x)| (o * caf as u32, x.clone())).collect();
                    let t = WTable { cies: vec![c], fdes: vec![WFde { cie: 0, addr: 0x10_0000, len: 0x10_0000, lsda: None, insns }] };
                    check_table(ctx, &t, kind, false);
                }
            }
        },
    )
    .flavours(&["chk", "rel"])
}

fn sub_advance(_tier: Tier) -> Sub {
    let prevs = [0u32, 1, 5];
    let deltas: [u32; 17] = [0, 1, 0x3e, 0x3f, 0x40, 0x41, 0xfe, 0xff, 0x100, 0x101, 0xfffe, 0xffff, 0x10000, 0x10001, 0xff_ffff, 0x7fff_ffff, 0xffff_fff0];
    let cafs = [1u8, 2, 4, 255, 0];
    Sub::new(
        "advance-loc-boundaries",
        3 * 17 * 5 * 3 * 2,
        "factored previous offset {0,1,5} x factored delta {0,1,0x3e..0x41,0xfe..0x101,0xfffe..0x10001,2^24-1,2^31-1,2^32-16} x CAF {1,2,4,255,0} x misalignment {0,+1,-1 byte} x section kind: the advance is encoded (whatever form the writer picks) so that the rows change at exactly the supplied offsets; offsets not divisible by CAF are rejected",
        move |ctx, i| {
            let mut mx = Mix(i);
            let p = *mx.pick(&prevs);
            let d = *mx.pick(&deltas);
            let caf = *mx.pick(&cafs);
            let mis = mx.take(3) as i64;
            let kind = *mx.pick(&[Kind::DebugFrame, Kind::EhFrame]);
            let f = caf.max(1) as u64;
            let o1 = p as u64 * f;
            let o2 = (p as u64 + d as u64) * f;
            let o2 = match mis {
                1 => o2 + 1,
                2 => o2.saturating_sub(1),
                _ => o2,
            };
            if o2 > u32::MAX as u64 || o2 < o1 {
                ctx.outcome("skipped:offset-exceeds-u32");
                return;
            }
            let mut c = WCie::new(if kind == Kind::EhFrame { 1 } else { 3 }, false, 8, caf, -8);
            c.insns = vec![WI::Cfa(7, 8)];
            let t = WTable { cies: vec![c], fdes: vec![WFde { cie: 0, addr: 0x1000, len: u32::MAX, lsda: None, insns: vec![(o1 as u32, WI::CfaOffset(16)), (o2 as u32, WI::CfaOffset(32)), (o2 as u32, WI::SameValue(3))] }] };
            ctx.nontriv(1);
            check_table(ctx, &t, kind, false);
            if ctx.want_sample() && crate::glue::sample_here(i, 5) {
                ctx.sample(render_table(&t, kind, false));
            }
        },
    )
}

fn operand_insns() -> Vec<WI> {
    let offs: [i32; 19] = [0, 1, -1, 7, 8, -8, 9, -9, 127, 128, -128, -129, 255, -256, 0x7fff_fff8, i32::MAX, i32::MIN, i32::MIN + 8, -0x7fff_fff8];
    let regs: [u16; 7] = [0, 1, 63, 64, 127, 128, 65535];
    let mut v = vec![];
    for &o in &offs {
        v.push(WI::CfaOffset(o));
        for &r in &[0u16, 63, 64, 65535] {
            v.push(WI::Cfa(r, o));
            v.push(WI::Offset(r, o));
            v.push(WI::ValOffset(r, o));
        }
    }
    for &r in &regs {
        v.push(WI::CfaRegister(r));
        v.push(WI::Restore(r));
        v.push(WI::Undefined(r));
        v.push(WI::SameValue(r));
        v.push(WI::Expression(r, vec![0x50]));
        v.push(WI::ValExpression(r, vec![0x91, 0x70]));
        for &s in &regs {
            v.push(WI::Register(r, s));
        }
    }
    for s in [0u32, 1, 127, 128, 0xffff, u32::MAX] {
        v.push(WI::ArgsSize(s));
    }
    v.push(WI::CfaExpression(vec![]));
    v.push(WI::CfaExpression(vec![0x90; 130]));
    v.push(WI::RememberState);
    v.push(WI::NegateRaState);
    v
}

fn sub_operands(_tier: Tier) -> Sub {
    let insns = operand_insns();
    let n = insns.len() as u64;
    let cafs = [1u8, 4, 255];
    let dafs = [-128i8, -8, -1, 1, 8, 127, 0];
    Sub::new(
        "operands",
        n * 3 * 7 * 2 * 2,
        "every write::CallFrameInstruction variant with offsets {0,+-1,7,+-8,+-9,127,+-128,-129,255,-256,2^31-8,i32::MAX,i32::MIN,i32::MIN+8,-(2^31-8)} and registers {0,1,63,64,127,128,65535} x CAF {1,4,255} x DAF {-128,-8,-1,1,8,127,0} x placed in {CIE, FDE at offset CAF} x section kind: expressible offsets read back as the same rule, offsets not divisible by DAF are rejected with InvalidFrameDataOffset",
        move |ctx, i| {
            let mut mx = Mix(i);
            let insn = mx.pick(&insns).clone();
            let caf = *mx.pick(&cafs);
            let daf = *mx.pick(&dafs);
            let in_cie = mx.flag();
            let kind = *mx.pick(&[Kind::DebugFrame, Kind::EhFrame]);
            let mut c = WCie::new(if kind == Kind::EhFrame { 1 } else { 4 }, false, 8, caf, daf);
            c.insns = vec![WI::Cfa(7, 8)];
            let mut f = WFde { cie: 0, addr: 0x1000, len: 0x1000, lsda: None, insns: vec![] };
            if in_cie {
                c.insns.push(insn.clone());
                f.insns.push((caf as u32, WI::Restore(1)));
            } else {
                f.insns.push((caf as u32, insn.clone()));
                f.insns.push((caf as u32 * 2, WI::SameValue(9)));
            }
            let t = WTable { cies: vec![c], fdes: vec![f] };
            ctx.nontriv(1);
            check_table(ctx, &t, kind, i % 2 == 1);
            if ctx.want_sample() && crate::glue::sample_here(i, 127) {
                ctx.sample(render_table(&t, kind, i % 2 == 1));
            }
        },
    )
}

/// Register operands in a context where a wrongly encoded register number is visible: every
/// register the number could be confused with has its own initial rule and its own current rule.
fn sub_register_context(_tier: Tier) -> Sub {
    let regs: [u16; 14] = [0, 1, 2, 62, 63, 64, 65, 127, 128, 129, 16383, 16384, 16385, 65535];
    let kinds = 10u64;
    Sub::new(
        "register-operands-in-context",
        regs.len() as u64 * kinds * 2 * 2,
        "register r in {0,1,2,62,63,64,65,127,128,129,16383,16384,16385,65535} x instruction {Restore, Undefined, SameValue, Offset, ValOffset, Register(r,3), Register(3,r), Expression, ValExpression, CfaRegister} x placed {after an FDE row that changed every context register, in the CIE after the context} x section kind; context = distinct Offset rules in the CIE and distinct Register rules in the FDE for {0, 1, r, r-1, r+1, r mod 64, r mod 128, r/2, 64}",
        move |ctx, i| {
            let mut mx = Mix(i);
            let r = *mx.pick(&regs);
            let k = mx.take(kinds);
            let in_cie = mx.flag();
            let kind = *mx.pick(&[Kind::DebugFrame, Kind::EhFrame]);
            let mut cregs: Vec<u16> = vec![0, 1, r, r.wrapping_sub(1), r.saturating_add(1), r % 64, r % 128, r / 2, 64];
            cregs.sort();
            cregs.dedup();
            let insn = match k {
                0 => WI::Restore(r),
                1 => WI::Undefined(r),
                2 => WI::SameValue(r),
                3 => WI::Offset(r, -1024),
                4 => WI::ValOffset(r, 1024),
                5 => WI::Register(r, 3),
                6 => WI::Register(3, r),
                7 => WI::Expression(r, vec![0x50]),
                8 => WI::ValExpression(r, vec![0x91, 0x70]),
                _ => WI::CfaRegister(r),
            };
            let mut c = WCie::new(if kind == Kind::EhFrame { 1 } else { 4 }, false, 8, 1, -8);
            c.insns = vec![WI::Cfa(7, 8)];
            for (n, &x) in cregs.iter().enumerate() {
                c.insns.push(WI::Offset(x, -8 * (n as i32 + 1)));
            }
            let mut f = WFde { cie: 0, addr: 0x1000, len: 0x1000, lsda: None, insns: vec![] };
            if in_cie {
                c.insns.push(insn);
                f.insns.push((1, WI::Restore(r)));
                f.insns.push((2, WI::Restore(64)));
            } else {
                for (n, &x) in cregs.iter().enumerate() {
                    f.insns.push((1, WI::Register(x, 100 + n as u16)));
                }
                f.insns.push((2, insn));
            }
            let t = WTable { cies: vec![c], fdes: vec![f] };
            ctx.nontriv(1);
            check_table(ctx, &t, kind, false);
            if ctx.want_sample() && crate::glue::sample_here(i, 97) {
                ctx.sample(render_table(&t, kind, false));
            }
        },
    )
}

/// The whole factor space of the writer's types.
fn sub_factor_sweep(_tier: Tier) -> Sub {
    Sub::new(
        "alignment-factor-sweep",
        256 * 256 * 2,
        "every CAF 0..=255 x every DAF -128..=127 x section kind: (a) a table whose code offsets are multiples of CAF and whose data offsets are multiples of DAF reads back with the supplied rows, (b) the same table with one code offset off by one is rejected with InvalidFrameCodeOffset (when CAF != 1), (c) with one data offset off by one is rejected with InvalidFrameDataOffset (when |DAF| != 1)",
        move |ctx, i| {
            let mut mx = Mix(i);
            let caf = mx.take(256) as u8;
            let daf = (mx.take(256) as i64 - 128) as i8;
            let kind = *mx.pick(&[Kind::DebugFrame, Kind::EhFrame]);
            let cf = caf as u32;
            let d = daf as i32;
            let mk = |code_slip: u32, data_slip: i32| {
                let mut c = WCie::new(if kind == Kind::EhFrame { 1 } else { 3 }, false, 8, caf, daf);
                c.insns = vec![WI::Cfa(7, 8), WI::Offset(16, d)];
                WTable {
                    cies: vec![c],
                    fdes: vec![WFde {
                        cie: 0,
                        addr: 0x4000,
                        len: 0x10_0000,
                        lsda: None,
                        insns: vec![(cf * 3, WI::Offset(3, d * 2 + data_slip)), (cf * 0x41 + code_slip, WI::CfaOffset(-(d.abs()) * 5)), (cf * 0x141 + code_slip, WI::ValOffset(4, d * -3))],
                    }],
                }
            };
            ctx.nontriv(1);
            check_table(ctx, &mk(0, 0), kind, false);
            check_table(ctx, &mk(1, 0), kind, false);
            check_table(ctx, &mk(0, 1), kind, false);
        },
    )
}

fn dedup_variants() -> Vec<WCie> {
    let mut base = WCie::new(1, false, 8, 1, -8);
    base.insns = vec![WI::Cfa(7, 8), WI::Offset(16, -8)];
    let mut v = vec![base.clone(), base.clone()];
    let mut push = |f: &dyn Fn(&mut WCie)| {
        let mut c = base.clone();
        f(&mut c);
        v.push(c);
    };
    push(&|c| c.caf = 2);
    push(&|c| c.daf = -4);
    push(&|c| c.ra = 17);
    push(&|c| c.pers = Some((0, 0x1234)));
    push(&|c| c.pers = Some((0, 0x1238)));
    push(&|c| c.lsda_enc = Some(0));
    push(&|c| c.fde_enc = 0x1b);
    push(&|c| c.signal = true);
    push(&|c| c.insns.push(WI::SameValue(3)));
    push(&|c| c.insns[1] = WI::Offset(16, -16));
    push(&|c| c.insns.clear());
    push(&|c| c.fmt64 = true);
    v
}

fn sub_dedup(tier: Tier) -> Sub {
    let nv = dedup_variants().len() as u64;
    let k = if mcx::deep() { 5 } else { tier.pick(3u32, 4u32) };
    let n = seq_count(nv, 1, k);
    Sub::new(
        "cie-dedup",
        n * 2,
        &format!("every sequence of 1..={} FDEs, each using a CIE from 14 variants (the base CIE twice as separately added identical CIEs, and CIEs differing from it in exactly one of: CAF, DAF, return register, personality, personality address, LSDA encoding, FDE encoding, signal flag, an extra instruction, an instruction operand, no instructions, 64-bit format) x section kind: one CIE emitted per distinct CIE, every FDE bound to an equal CIE", k),
        move |ctx, i| {
            let vars = dedup_variants();
            let kind = if i % 2 == 0 { Kind::DebugFrame } else { Kind::EhFrame };
            let seq = seq_decode(nv, 1, k, i / 2);
            let fdes = seq
                .iter()
                .enumerate()
                .map(|(j, &ci)| WFde { cie: ci, addr: 0x1000 * (j as u64 + 1), len: 0x100, lsda: if vars[ci].lsda_enc.is_some() { Some(0x9000) } else { None }, insns: vec![(4, WI::CfaOffset(16 + 8 * j as i32))] })
                .collect();
            let t = WTable { cies: vars, fdes };
            ctx.nontriv(1);
            check_table(ctx, &t, kind, false);
            ctx.outcome("dedup:checked");
        },
    )
}

/// CIEs of different address sizes in one version 4 `.debug_frame` table: every entry is padded
/// to its own address size wherever it starts.
fn sub_mixed_address_sizes(_tier: Tier) -> Sub {
    fn variants() -> Vec<WCie> {
        let mut v = vec![];
        for addr in [2u8, 4, 8] {
            for extra in 0..3usize {
                for fmt64 in [false, true] {
                    let mut c = WCie::new(4, fmt64, addr, 1, -8);
                    c.insns = vec![WI::Cfa(7, 8)];
                    for k in 0..extra {
                        c.insns.push(WI::SameValue(3 + k as u16));
                    }
                    v.push(c);
                }
            }
        }
        v
    }
    let nv = variants().len() as u64;
    let k = 3u32;
    let n = seq_count(nv, 1, k);
    Sub::new(
        "mixed-address-sizes",
        n,
        &format!("every sequence of 1..={} FDEs, each using a version 4 .debug_frame CIE from 18 variants (address size {{2,4,8}} x 0/1/2 extra instructions x 32/64-bit format), FDE j carrying j+1 instructions: entries start at every residue of the larger address sizes; each entry's size is a multiple of its own address size and everything reads back", k),
        move |ctx, i| {
            let vars = variants();
            let seq = seq_decode(nv, 1, k, i);
            let fdes = seq
                .iter()
                .enumerate()
                .map(|(j, &ci)| WFde { cie: ci, addr: 0x100 * (j as u64 + 1), len: 0x40, lsda: None, insns: (0..=j).map(|x| (x as u32 + 1, WI::CfaOffset(16 + 8 * x as i32))).collect() })
                .collect();
            let t = WTable { cies: vars, fdes };
            ctx.nontriv(1);
            check_table(ctx, &t, Kind::DebugFrame, i % 2 == 1);
            if ctx.want_sample() && crate::glue::sample_here(i, 211) {
                ctx.sample(render_table(&t, Kind::DebugFrame, i % 2 == 1));
            }
        },
    )
}

pub fn def(_cli_tier: Tier) -> CheckDef {
    // the whole thorough space costs ~10 s: both tiers run it
    let tier = Tier::Thorough;
    CheckDef {
        level: "exploration",
        rule: "one evaluation = one FrameTable built through the public writing interface and serialised with write_debug_frame/write_eh_frame (plus one per FDE whose rows are evaluated with the reader); distinct = distinct (table, section kind, byte order); non-trivial = every table (each has at least one CIE and one FDE)".into(),
        assumptions: vec![
            "oracle = gimli's reader over the emitted bytes (its decoding is decided by C05/C06) + the reference CFA machine applied to the supplied (offset, instruction) list".into(),
            "pc-relative pointers are read back with the .eh_frame section address 0 (the writer uses the section offset as pc)".into(),
            "documented writer limits are accepted as refusals: UnsupportedVersion for .eh_frame versions other than 1, ValueTooLarge for values that do not fit the chosen encoding / a 1-byte return register, UnsupportedPointerEncoding for applications other than absptr/pcrel".into(),
            "CIEs never referenced by an FDE are not emitted (documented in FrameTable::write): not compared".into(),
            "FDE.lsda is supplied exactly when the CIE has an LSDA encoding (documented contract)".into(),
            "decreasing code offsets: FrameDescriptionEntry::add_instruction debug_asserts them, so the 'rejected with an error' clause is decided under the rel flavour only".into(),
            "an offset of i32::MIN with DAF -1 (factored value 2^31) may be written or rejected, but must not panic".into(),
            "padding clause: (size of the initial length field, 4 or 12) + length is a multiple of the address size (DWARF 5 6.4.1)".into(),
        ],
        subs: {
            let mut v = vec![sub_cie_params(tier), sub_eh_pointers(tier), sub_ra(tier), sub_sequences(tier), sub_advance(tier), sub_operands(tier), sub_register_context(tier), sub_factor_sweep(tier), sub_dedup(tier), sub_mixed_address_sizes(tier)];
            if mcx::deep() {
                v.push(sub_sequences_len4_core());
            }
            v
        },
        required_outcomes: ["write:ok", "write:err-code-offset", "write:err-data-offset", "write:err-decreasing-offset", "write:refused", "readback:entries-ok", "rows:ok", "err:InvalidContext", "err:PopWithEmptyStack", "dedup:checked", "skipped:decreasing-under-debug-assertions", "ehptr:must-accept", "ehptr:may-refuse"]
            .iter()
            .map(|s| s.to_string())
            .collect(),
    }
}
