//! C05: CIE/FDE decoding and address lookup agree with the section contents.
//! Part 1: expectations for entries, the arrangement / augmentation / field subs.
use super::enc::{self, expect_ptr, Bases, Builder, CieOut, CieSpec, FdeOut, FdeSpec, Insn, Kind, Ptr, PtrExp};
use super::glue::Sl;
use super::scan::{self, Got, GotCie, GotFde};
use gimli::read::{BaseAddresses, UnwindSection};
use mcx::space::{seq_count, seq_decode, Mix};
use mcx::{guard, CheckDef, Ctx, Sub, Tier};

#[macro_export]
macro_rules! with_sec {
    ($kind:expr, $bytes:expr, $big:expr, $addr:expr, $sec:ident => $body:expr) => {
        match $kind {
            $crate::enc::Kind::DebugFrame => {
                let mut $sec = gimli::read::DebugFrame::new($bytes, $crate::glue::endian($big));
                $sec.set_address_size($addr);
                $body
            }
            $crate::enc::Kind::EhFrame => {
                let mut $sec = gimli::read::EhFrame::new($bytes, $crate::glue::endian($big));
                $sec.set_address_size($addr);
                $body
            }
        }
    };
}

pub fn entry_name(kind: Kind, what: &str) -> String {
    format!("{}::{}", if kind == Kind::EhFrame { "EhFrame" } else { "DebugFrame" }, what)
}

/// Expected view of a CIE built from `spec` (None if some field makes the
/// CIE one the reader must/may refuse; callers only use this for CIEs the
/// property says must parse).
pub fn cmp_cie(got: &GotCie, spec: &CieSpec, out: &CieOut, bases: &Bases) -> Result<(), String> {
    let mut want_insns: Vec<Insn> = spec.insns.iter().map(|i| scan::norm(i, spec.addr)).collect();
    for _ in 0..out.pad {
        want_insns.push(Insn::Nop);
    }
    let pers = if spec.has_z() && spec.has(b'P') {
        match expect_ptr(spec.pers_enc, spec.pers_raw, out.pers_pos.unwrap() as u64, bases, None, spec.addr) {
            PtrExp::Value { indirect, value } => Some((spec.pers_enc, (indirect, value))),
            other => return Err(format!("harness: personality expectation {:?} is not a value", other)),
        }
    } else {
        None
    };
    let want = GotCie {
        off: out.off,
        len: out.len,
        fmt64: spec.fmt64,
        version: spec.version,
        addr: spec.addr,
        caf: spec.caf,
        daf: spec.daf,
        ra: spec.ra as u16,
        has_aug: !spec.aug.is_empty(),
        lsda_enc: if spec.has(b'L') { Some(spec.lsda_enc) } else { None },
        pers,
        fde_enc: if spec.has(b'R') { Some(spec.fde_enc) } else { None },
        signal: spec.has(b'S'),
        insns: Ok(want_insns),
    };
    if *got != want {
        return Err(format!("CIE fields: got {:?} want {:?}", got, want));
    }
    Ok(())
}

/// What the FDE's address fields denote.
pub fn exp_fde_addrs(cie: &CieSpec, f: &FdeSpec, out: &FdeOut, bases: &Bases) -> Result<(u64, u64), PtrExp> {
    if cie.has_z() && cie.has(b'R') {
        let pos = out.start_pos as u64;
        let raw = f.start.raw(cie.fde_enc, pos, bases, None);
        match expect_ptr(cie.fde_enc, raw, pos, bases, None, cie.addr) {
            PtrExp::Value { value, .. } => Ok((value, enc::raw_value(cie.fde_enc & 0x0f, f.len, cie.addr))),
            other => Err(other),
        }
    } else {
        let raw = f.start.raw(0, 0, bases, None);
        Ok((raw & enc::mask(cie.addr), f.len & enc::mask(cie.addr)))
    }
}

pub fn exp_lsda(cie: &CieSpec, f: &FdeSpec, out: &FdeOut, bases: &Bases, start: u64) -> Option<PtrExp> {
    if cie.has_z() && cie.has(b'L') {
        if cie.lsda_enc == enc::PE_OMIT {
            return Some(PtrExp::Omit);
        }
        let pos = out.lsda_pos.unwrap() as u64;
        let raw = f.lsda.raw(cie.lsda_enc, pos, bases, f.func_base);
        Some(expect_ptr(cie.lsda_enc, raw, pos, bases, Some(start), cie.addr))
    } else {
        None
    }
}

pub fn cmp_fde(got: &GotFde, cie: &CieSpec, cie_off: usize, f: &FdeSpec, out: &FdeOut, bases: &Bases) -> Result<(), String> {
    let (start, range) = exp_fde_addrs(cie, f, out, bases).map_err(|e| format!("harness: FDE address expectation {:?}", e))?;
    let lsda = match exp_lsda(cie, f, out, bases, start) {
        None => None,
        Some(PtrExp::Value { indirect, value }) => Some((indirect, value)),
        Some(other) => return Err(format!("harness: LSDA expectation {:?}", other)),
    };
    let mut want_insns: Vec<Insn> = f.insns.iter().map(|i| scan::norm(i, cie.addr)).collect();
    for _ in 0..out.pad {
        want_insns.push(Insn::Nop);
    }
    let want = GotFde { off: out.off, len: out.len, cie_off, start, range, end: start.wrapping_add(range) & enc::mask(cie.addr), lsda, insns: Ok(want_insns) };
    if *got != want {
        return Err(format!("FDE fields: got {:?} want {:?}", got, want));
    }
    Ok(())
}

// ---------------------------------------------------------------------------
// arrangements

#[derive(Clone, Debug)]
pub enum Target {
    Cie(usize),
    Fde(usize),
    Zero(usize),
}

#[derive(Clone, Debug)]
pub enum Item {
    Cie { spec: CieSpec, out: CieOut },
    Fde { spec: FdeSpec, out: FdeOut, target: Target, layout_cie: CieSpec },
    Zero { off: usize, wide: bool },
}

impl Item {
    pub fn off(&self) -> usize {
        match self {
            Item::Cie { out, .. } => out.off,
            Item::Fde { out, .. } => out.off,
            Item::Zero { off, .. } => *off,
        }
    }
}

pub struct Layout {
    pub kind: Kind,
    pub big: bool,
    pub addr: u8,
    pub bases: Bases,
    pub items: Vec<Item>,
    pub bytes: Vec<u8>,
}

const SYM_NAMES: [&str; 7] = ["CIE_a", "CIE_b", "FDE->a", "FDE->b", "FDE->FDE", "Z32", "Z64"];

pub const EH_VA: u64 = 0x0030_0000;

fn cie_a(version: u8, addr: u8, fmt64: bool) -> CieSpec {
    let mut c = CieSpec::plain(version, addr);
    c.fmt64 = fmt64;
    c.caf = 1;
    c.daf = -8;
    c.ra = 16;
    c.insns = vec![Insn::DefCfa(7, 8), Insn::Offset(16, 1)];
    c
}
fn cie_b(kind: Kind, version: u8, addr: u8, fmt64: bool) -> CieSpec {
    let mut c = CieSpec::plain(version, addr);
    c.fmt64 = fmt64;
    c.caf = 4;
    c.daf = -4;
    c.ra = 30;
    c.insns = vec![Insn::DefCfa(31, 0)];
    if kind == Kind::EhFrame {
        c.aug = b"zR".to_vec();
        c.fde_enc = enc::PE_PCREL | enc::PE_SDATA4;
    }
    c
}

/// fmt: 0 = all 32-bit, 1 = all 64-bit, 2 = alternating.
pub fn build_arrangement(syms: &[usize], kind: Kind, version: u8, fmt: u64, big: bool, addr: u8) -> Layout {
    let bases = Bases { section: Some(EH_VA), text: None, data: None };
    let mut b = Builder::new(kind, big, bases);
    let mut items: Vec<Item> = vec![];
    // first pass decides offsets lazily: forward references (debug_frame only)
    // need the offset of a later CIE, so build twice: the second time with
    // known offsets (entry sizes do not depend on pointer values).
    let mut offsets: Vec<usize> = vec![];
    for pass in 0..2 {
        b = Builder::new(kind, big, bases);
        items.clear();
        let mut nfde = 0u64;
        for (k, &s) in syms.iter().enumerate() {
            let fmt64 = match fmt {
                0 => false,
                1 => true,
                _ => k % 2 == 1,
            };
            match s {
                0 | 1 => {
                    let spec = if s == 0 { cie_a(version, addr, fmt64) } else { cie_b(kind, version, addr, fmt64) };
                    let out = b.cie(&spec);
                    items.push(Item::Cie { spec, out });
                }
                2 | 3 | 4 => {
                    let here = b.e.len();
                    // whom does the pointer designate?
                    let find_cie = |want: usize, upto: usize, from: usize| -> Option<usize> {
                        // nearest preceding first, else (debug_frame) first following
                        let pre = (0..upto).rev().find(|&j| syms[j] == want);
                        if pre.is_some() {
                            return pre;
                        }
                        if kind == Kind::DebugFrame {
                            return (from..syms.len()).find(|&j| syms[j] == want);
                        }
                        None
                    };
                    let tgt_idx: Option<usize> = match s {
                        2 => find_cie(0, k, k + 1),
                        3 => find_cie(1, k, k + 1),
                        _ => (0..k).rev().find(|&j| matches!(syms[j], 2 | 3 | 4)).or(Some(k)),
                    };
                    let tgt_idx = tgt_idx.unwrap_or(0);
                    let tgt_off = if tgt_idx == k {
                        here
                    } else if pass == 1 {
                        offsets[tgt_idx]
                    } else if tgt_idx < k {
                        items[tgt_idx].off()
                    } else {
                        0
                    };
                    let target = match syms[tgt_idx] {
                        0 | 1 => Target::Cie(tgt_idx),
                        2 | 3 | 4 => Target::Fde(tgt_off),
                        _ => Target::Zero(tgt_off),
                    };
                    // the FDE is laid out with the parameters of the CIE kind it means to use
                    let layout_cie = match (s, &target) {
                        (_, Target::Cie(j)) => match &syms[*j] {
                            0 => cie_a(version, addr, false),
                            _ => cie_b(kind, version, addr, false),
                        },
                        (3, _) => cie_b(kind, version, addr, false),
                        _ => cie_a(version, addr, false),
                    };
                    let start = 0x1000 + 0x100 * nfde;
                    nfde += 1;
                    let mut spec = FdeSpec::simple(tgt_off, start, 0x80, vec![Insn::AdvanceLoc(4), Insn::DefCfaOffset(16)], addr as usize);
                    spec.fmt64 = fmt64;
                    let out = b.fde(&spec, &layout_cie);
                    items.push(Item::Fde { spec, out, target, layout_cie });
                }
                5 => {
                    let off = b.zero32();
                    items.push(Item::Zero { off, wide: false });
                }
                _ => {
                    let off = b.zero64();
                    items.push(Item::Zero { off, wide: true });
                }
            }
        }
        if pass == 0 {
            offsets = items.iter().map(|i| i.off()).collect();
        }
    }
    Layout { kind, big, addr, bases, items, bytes: b.e.buf }
}

pub fn render_layout(l: &Layout, syms: &[usize], version: u8, fmt: u64) -> String {
    let names: Vec<&str> = syms.iter().map(|&s| SYM_NAMES[s]).collect();
    format!(
        "{:?} v{} addr{} {} fmt={} [{}] section={}",
        l.kind,
        version,
        l.addr,
        if l.big { "BE" } else { "LE" },
        ["32", "64", "alt"][fmt as usize],
        names.join(","),
        mcx::hex(&l.bytes)
    )
}

/// Is every FDE bound to a CIE (so that lookups are defined)?
pub fn well_formed(l: &Layout) -> bool {
    l.items.iter().all(|i| !matches!(i, Item::Fde { target: Target::Fde(_) | Target::Zero(_), .. }))
}

fn check_layout_generic<'a, Sec>(ctx: &mut Ctx, sec: &Sec, l: &Layout, case: &dyn Fn() -> String)
where
    Sec: UnwindSection<Sl<'a>>,
{
    let kind = l.kind;
    let gb: BaseAddresses = scan::mk_bases(&l.bases, &Bases::default());
    let e_entries = entry_name(kind, "entries");
    ctx.eval(1);
    let sc = match guard(|| scan::scan(sec, &gb, &l.bytes, l.items.len() + 2)) {
        Ok(s) => s,
        Err(p) => {
            ctx.fail_panic(&e_entries, &p, case());
            return;
        }
    };
    // --- iteration
    let mut gi = 0usize;
    let mut stopped = false;
    for it in &l.items {
        match it {
            Item::Zero { wide, .. } => {
                let must_stop = kind == Kind::EhFrame && !*wide;
                // gimli ended here?
                if gi == sc.items.len() {
                    match &sc.end {
                        Ok(()) => {
                            ctx.outcome(if kind == Kind::EhFrame { "zero:terminates" } else { "zero:ends-debug_frame" });
                        }
                        Err(e) => {
                            if must_stop {
                                ctx.fail(&e_entries, "zero-terminator", "error-instead-of-end", format!("{}: {:?}", case(), e));
                            } else {
                                ctx.outcome("zero:error");
                            }
                        }
                    }
                    stopped = true;
                    break;
                }
                if must_stop {
                    ctx.fail(&e_entries, "zero-terminator", "iterated-past-terminator", format!("{}: reported {:?}", case(), sc.items.get(gi)));
                    return;
                }
                // skipped a zero-length entry: allowed outside .eh_frame terminators
                ctx.outcome("zero:skipped");
            }
            Item::Cie { spec, out } => {
                match sc.items.get(gi) {
                    Some(Got::Cie(g)) => {
                        if let Err(d) = cmp_cie(g, spec, out, &l.bases) {
                            ctx.fail(&e_entries, "cie-fields", "wrong-field", format!("{}: {}", case(), d));
                            return;
                        }
                        ctx.outcome("entry:cie");
                    }
                    other => {
                        ctx.fail(&e_entries, "entry-sequence", "wrong-entry", format!("{}: expected CIE at {:#x}, got {:?} (end {:?})", case(), out.off, other, sc.end));
                        return;
                    }
                }
                gi += 1;
            }
            Item::Fde { spec, out, target, layout_cie } => {
                match sc.items.get(gi) {
                    Some(Got::Fde { off, len, cie_off, full }) => {
                        if *off != out.off || *len != out.len || *cie_off != spec.cie_off {
                            ctx.fail(&e_entries, "partial-fde-fields", "wrong-field", format!("{}: partial FDE got off {:#x} len {:#x} cie {:#x}, want {:#x} {:#x} {:#x}", case(), off, len, cie_off, out.off, out.len, spec.cie_off));
                            return;
                        }
                        if !check_fde_binding(ctx, &e_entries, l, spec, out, target, layout_cie, full, case) {
                            return;
                        }
                    }
                    other => {
                        ctx.fail(&e_entries, "entry-sequence", "wrong-entry", format!("{}: expected FDE at {:#x}, got {:?} (end {:?})", case(), out.off, other, sc.end));
                        return;
                    }
                }
                gi += 1;
            }
        }
    }
    if !stopped {
        if gi != sc.items.len() {
            ctx.fail(&e_entries, "entry-sequence", "extra-entry", format!("{}: {} entries expected, extra {:?}", case(), gi, sc.items.get(gi)));
            return;
        }
        if let Err(e) = &sc.end {
            ctx.fail(&e_entries, "entry-sequence", "error-at-end", format!("{}: {:?}", case(), e));
            return;
        }
    }
    // --- random access at every entry offset
    let e_cie = entry_name(kind, "cie_from_offset");
    let e_fde = entry_name(kind, "fde_from_offset");
    for it in &l.items {
        let off = it.off();
        ctx.eval(2);
        let r = guard(|| {
            let c = sec.cie_from_offset(&gb, Sec::Offset::from(off)).map(|c| scan::got_cie(sec, &gb, &c, &l.bytes));
            let f = sec.fde_from_offset(&gb, Sec::Offset::from(off), Sec::cie_from_offset).map(|f| (scan::got_fde(sec, &gb, &f, &l.bytes), scan::got_cie(sec, &gb, f.cie(), &l.bytes)));
            (c, f)
        });
        let (c, f) = match r {
            Ok(x) => x,
            Err(p) => {
                ctx.fail_panic(&e_cie, &p, format!("{} at offset {:#x}", case(), off));
                return;
            }
        };
        match it {
            Item::Cie { spec, out } => {
                match &c {
                    Ok(g) => {
                        if let Err(d) = cmp_cie(g, spec, out, &l.bases) {
                            ctx.fail(&e_cie, "cie-fields", "wrong-field", format!("{} at {:#x}: {}", case(), off, d));
                        }
                    }
                    Err(e) => ctx.fail(&e_cie, "cie-at-offset", "rejected-cie", format!("{} at {:#x}: {:?}", case(), off, e)),
                }
                match &f {
                    Err(gimli::Error::NotCiePointer(o)) if *o == off as u64 => ctx.outcome("offset:fde-at-cie=NotCiePointer"),
                    other => ctx.fail(&e_fde, "fde-at-cie-offset", "wrong-kind-not-refused", format!("{} at {:#x}: {:?}", case(), off, other)),
                }
            }
            Item::Fde { spec, out, target, layout_cie } => {
                match &c {
                    Err(gimli::Error::NotCieId(o)) if *o == off as u64 => ctx.outcome("offset:cie-at-fde=NotCieId"),
                    other => ctx.fail(&e_cie, "cie-at-fde-offset", "wrong-kind-not-refused", format!("{} at {:#x}: {:?}", case(), off, other)),
                }
                check_fde_binding(ctx, &e_fde, l, spec, out, target, layout_cie, &f, case);
            }
            Item::Zero { .. } => {
                match &c {
                    Err(gimli::Error::NoEntryAtGivenOffset(o)) if *o == off as u64 => ctx.outcome("offset:zero=NoEntry"),
                    other => ctx.fail(&e_cie, "cie-at-zero-length", "not-refused", format!("{} at {:#x}: {:?}", case(), off, other)),
                }
                match &f {
                    Err(gimli::Error::NoEntryAtGivenOffset(o)) if *o == off as u64 => {}
                    other => ctx.fail(&e_fde, "fde-at-zero-length", "not-refused", format!("{} at {:#x}: {:?}", case(), off, other)),
                }
            }
        }
    }
}

/// Check the full parse of an FDE against the entry its pointer designates.
fn check_fde_binding(
    ctx: &mut Ctx,
    entry: &str,
    l: &Layout,
    spec: &FdeSpec,
    out: &FdeOut,
    target: &Target,
    layout_cie: &CieSpec,
    full: &Result<(GotFde, GotCie), gimli::Error>,
    case: &dyn Fn() -> String,
) -> bool {
    match (target, full) {
        (Target::Cie(j), Ok((gf, gc))) => {
            let Item::Cie { spec: cs, out: co } = &l.items[*j] else { unreachable!() };
            if let Err(d) = cmp_cie(gc, cs, co, &l.bases) {
                ctx.fail(entry, "fde-cie-binding", "bound-to-wrong-cie", format!("{}: FDE at {:#x}: {}", case(), out.off, d));
                return false;
            }
            // the CIE that is really designated decides the layout; the harness
            // laid the FDE out for the same kind of CIE (fmt64 aside)
            let mut eff = cs.clone();
            eff.fmt64 = layout_cie.fmt64;
            if let Err(d) = cmp_fde(gf, &eff, co.off, spec, out, &l.bases) {
                ctx.fail(entry, "fde-fields", "wrong-field", format!("{}: {}", case(), d));
                return false;
            }
            ctx.outcome("entry:fde-bound");
            true
        }
        (Target::Fde(o), Err(gimli::Error::NotCieId(x))) if *x == *o as u64 => {
            ctx.outcome("entry:fde->fde=NotCieId");
            true
        }
        (Target::Zero(o), Err(gimli::Error::NoEntryAtGivenOffset(x))) if *x == *o as u64 => {
            ctx.outcome("entry:fde->zero=NoEntry");
            true
        }
        (t, got) => {
            ctx.fail(entry, "fde-cie-binding", "wrong-binding-result", format!("{}: FDE at {:#x} designates {:?}, parse gave {:?}", case(), out.off, t, got));
            false
        }
    }
}

pub fn check_layout(ctx: &mut Ctx, l: &Layout, case: &dyn Fn() -> String) {
    with_sec!(l.kind, &l.bytes, l.big, l.addr, sec => check_layout_generic(ctx, &sec, l, case));
}

fn sub_arrangements(tier: Tier) -> Sub {
    let maxlen = tier.pick(5u32, 6u32);
    let n = seq_count(7, 0, maxlen);
    let kinds: Vec<(Kind, u8)> = vec![(Kind::DebugFrame, 1), (Kind::DebugFrame, 3), (Kind::DebugFrame, 4), (Kind::EhFrame, 1), (Kind::EhFrame, 3)];
    Sub::new(
        "arrangements",
        n * 5 * 3 * 2 * 2,
        &format!("every arrangement of <= {} entries over {{CIE_a, CIE_b(zR pcrel|sdata4 in .eh_frame), FDE->a, FDE->b, FDE->(an FDE), 4-byte zero length, 64-bit zero length}} x {{.debug_frame v1/v3/v4, .eh_frame v1/v3}} x entry format {{32, 64, alternating}} x {{LE, BE}} x address size {{4, 8}}: iteration, FDE->CIE binding, cie_from_offset/fde_from_offset at every entry offset, lookups on well-formed arrangements", maxlen),
        move |ctx, i| {
            let mut mx = Mix(i);
            let si = mx.take(n);
            let (kind, version) = *mx.pick(&kinds);
            let fmt = mx.take(3);
            let big = mx.flag();
            let addr = *mx.pick(&[4u8, 8]);
            let syms = seq_decode(7, 0, maxlen, si);
            let l = build_arrangement(&syms, kind, version, fmt, big, addr);
            let case = || render_layout(&l, &syms, version, fmt);
            check_layout(ctx, &l, &case);
            if !syms.is_empty() {
                ctx.nontriv(1);
            }
            if well_formed(&l) {
                super::c05b::check_lookups(ctx, &l, &case);
            }
            if ctx.want_sample() && crate::glue::sample_here(i, 61) {
                ctx.sample(case());
            }
        },
    )
}

// ---------------------------------------------------------------------------
// augmentation strings

#[derive(PartialEq, Eq, Debug, Clone, Copy)]
enum AugClass {
    /// "" or z followed by distinct letters of LPRS
    WellFormed,
    /// only 'S' characters, no z: tolerated either way
    SignalOnly,
    IllFormed,
}

fn classify_aug(s: &[u8]) -> AugClass {
    if s.is_empty() {
        return AugClass::WellFormed;
    }
    if s[0] == b'z' {
        let rest = &s[1..];
        let mut seen = [false; 256];
        for &c in rest {
            if !matches!(c, b'L' | b'P' | b'R' | b'S') || seen[c as usize] {
                return AugClass::IllFormed;
            }
            seen[c as usize] = true;
        }
        return AugClass::WellFormed;
    }
    if s.iter().all(|&c| c == b'S') && s.len() == 1 {
        return AugClass::SignalOnly;
    }
    AugClass::IllFormed
}

fn sub_aug(_tier: Tier) -> Sub {
    let letters = [b'z', b'L', b'P', b'R', b'S'];
    let n = seq_count(5, 0, 4);
    let kinds: Vec<(Kind, u8)> = vec![(Kind::DebugFrame, 1), (Kind::DebugFrame, 3), (Kind::DebugFrame, 4), (Kind::EhFrame, 1), (Kind::EhFrame, 3)];
    Sub::new(
        "augmentation-strings",
        n * 5 * 2 * 2 * 2,
        "every augmentation string over {z,L,P,R,S} of length <= 4 (781) x {.debug_frame v1/3/4, .eh_frame v1/3} x 32/64-bit x LE/BE x address size 4/8, L = pcrel|sdata4, P = indirect|pcrel|sdata4, R = pcrel|sdata4: well-formed strings (\"\" or z + distinct letters) must parse with exactly the flagged fields and their FDEs (whose augmentation data carries 0, 2 or 5 bytes beyond what the letters define, to be skipped) must decode; ill-formed strings only must not panic",
        move |ctx, i| {
            let mut mx = Mix(i);
            let si = mx.take(n);
            let (kind, version) = *mx.pick(&kinds);
            let fmt64 = mx.flag();
            let big = mx.flag();
            let addr = *mx.pick(&[4u8, 8]);
            let s: Vec<u8> = seq_decode(5, 0, 4, si).into_iter().map(|k| letters[k]).collect();
            let class = classify_aug(&s);
            let bases = Bases { section: Some(EH_VA), text: Some(0x1000), data: Some(0x8000) };
            let mut b = Builder::new(kind, big, bases);
            let mut c = CieSpec::plain(version, addr);
            c.fmt64 = fmt64;
            c.aug = s.clone();
            c.lsda_enc = enc::PE_PCREL | enc::PE_SDATA4;
            c.pers_enc = enc::PE_INDIRECT | enc::PE_PCREL | enc::PE_SDATA4;
            c.pers_raw = (-0x1234i64) as u64;
            c.fde_enc = enc::PE_PCREL | enc::PE_SDATA4;
            if (si + fmt64 as u64) % 2 == 1 {
                // every other string: absolute, address-sized 'L' and 'R' pointers (their width is
                // the CIE's address size)
                c.lsda_enc = 0x00;
                c.fde_enc = 0x00;
            }
            c.insns = vec![Insn::DefCfa(7, 8)];
            let co = b.cie(&c);
            let mut f = FdeSpec::simple(co.off, 0x2000, 0x40, vec![Insn::AdvanceLoc(1), Insn::Nop], addr as usize);
            f.lsda = Ptr::Target(0x9000);
            f.fmt64 = !fmt64;
            // 0, 2 or 5 bytes of FDE augmentation data beyond what the letters define
            f.aug_extra = [0usize, 2, 5][((si + version as u64 + fmt64 as u64) % 3) as usize];
            let fo = b.fde(&f, &c);
            let bytes = b.e.buf.clone();
            let case = || format!("{:?} v{} addr{} {} fmt64={} aug={:?} section={}", kind, version, addr, if big { "BE" } else { "LE" }, fmt64, String::from_utf8_lossy(&s), mcx::hex(&bytes));
            let gb = scan::mk_bases(&bases, &Bases::default());
            let e_entries = entry_name(kind, "entries");
            ctx.eval(1);
            // a version 4 .debug_frame CIE carries its own address size: the section is configured
            // with a DIFFERENT default there
            let sect_addr = if kind == Kind::DebugFrame && version == 4 { 12 - addr } else { addr };
            let sc = with_sec!(kind, &bytes, big, sect_addr, sec => guard(|| scan::scan(&sec, &gb, &bytes, 4)));
            let sc = match sc {
                Ok(s) => s,
                Err(p) => {
                    ctx.fail_panic(&e_entries, &p, case());
                    return;
                }
            };
            match class {
                AugClass::WellFormed => {
                    ctx.nontriv(1);
                    match (sc.items.first(), sc.items.get(1)) {
                        (Some(Got::Cie(g)), Some(Got::Fde { full: Ok((gf, gc)), .. })) if sc.end.is_ok() && sc.items.len() == 2 => {
                            if let Err(d) = cmp_cie(g, &c, &co, &bases).and_then(|_| cmp_cie(gc, &c, &co, &bases)) {
                                ctx.fail(&e_entries, "cie-fields", "wrong-field", format!("{}: {}", case(), d));
                            } else if let Err(d) = cmp_fde(gf, &c, co.off, &f, &fo, &bases) {
                                ctx.fail(&e_entries, "fde-fields", "wrong-field", format!("{}: {}", case(), d));
                            }
                            ctx.outcome("aug:wellformed-parsed");
                        }
                        _ => ctx.fail(&e_entries, "augmentation", "rejected-well-formed", format!("{}: {:?}", case(), sc)),
                    }
                }
                AugClass::SignalOnly => match sc.items.first() {
                    Some(Got::Cie(g)) => {
                        if !g.signal || g.lsda_enc.is_some() || g.pers.is_some() || g.fde_enc.is_some() {
                            ctx.fail(&e_entries, "augmentation", "wrong-flags", format!("{}: {:?}", case(), g));
                        }
                        ctx.outcome("aug:S-accepted");
                    }
                    _ => ctx.outcome("aug:S-rejected"),
                },
                AugClass::IllFormed => match sc.items.first() {
                    Some(Got::Cie(_)) => ctx.outcome("aug:illformed-accepted"),
                    _ => ctx.outcome("aug:illformed-rejected"),
                },
            }
            if ctx.want_sample() && crate::glue::sample_here(i, 53) {
                ctx.sample(format!("{} => {:?}", case(), class));
            }
        },
    )
}

// ---------------------------------------------------------------------------
// CIE field sweep

#[derive(Clone, Debug)]
enum Expect {
    Parse,
    UnknownVersion(u8),
    BadAddressSize(u8),
    SegmentRefused(u8),
    BadRegister,
}

fn field_variants() -> Vec<(String, Box<dyn Fn(&mut CieSpec, Kind) -> Expect>)> {
    let mut v: Vec<(String, Box<dyn Fn(&mut CieSpec, Kind) -> Expect>)> = vec![];
    for ver in 0u8..=6 {
        v.push((format!("version={}", ver), Box::new(move |c, _| {
            c.version = ver;
            if matches!(ver, 1 | 3 | 4) { Expect::Parse } else { Expect::UnknownVersion(ver) }
        })));
    }
    for a in [0u8, 1, 2, 3, 4, 5, 8, 9, 16, 255] {
        v.push((format!("v4-address_size={}", a), Box::new(move |c, k| {
            if k == Kind::DebugFrame && c.version == 4 {
                c.addr = a;
                if matches!(a, 1 | 2 | 4 | 8) { Expect::Parse } else { Expect::BadAddressSize(a) }
            } else {
                Expect::Parse
            }
        })));
    }
    for s in [1u8, 8] {
        v.push((format!("v4-segment_size={}", s), Box::new(move |c, k| {
            if k == Kind::DebugFrame && c.version == 4 {
                c.seg = s;
                Expect::SegmentRefused(s)
            } else {
                Expect::Parse
            }
        })));
    }
    for caf in [0u64, 1, 127, 128, 16383, 16384, 1 << 32, (1 << 63) - 1, 1 << 63, u64::MAX] {
        v.push((format!("caf={}", caf), Box::new(move |c, _| { c.caf = caf; Expect::Parse })));
    }
    for daf in [0i64, 1, -1, 63, 64, -64, -65, i32::MIN as i64, i64::MAX, i64::MIN] {
        v.push((format!("daf={}", daf), Box::new(move |c, _| { c.daf = daf; Expect::Parse })));
    }
    for ra in [0u64, 1, 127, 128, 255, 256, 16383, 16384, 65535, 65536, 1 << 32] {
        v.push((format!("ra={}", ra), Box::new(move |c, _| {
            if c.version == 1 {
                c.ra = ra & 0xff;
                Expect::Parse
            } else {
                c.ra = ra;
                if ra > 65535 { Expect::BadRegister } else { Expect::Parse }
            }
        })));
    }
    for pad in 0usize..=9 {
        v.push((format!("extra-nops={}", pad), Box::new(move |c, _| {
            for _ in 0..pad { c.insns.push(Insn::Nop); }
            c.align = 0;
            Expect::Parse
        })));
    }
    v
}

fn sub_fields(_tier: Tier) -> Sub {
    let nv = field_variants().len() as u64;
    let kinds: Vec<(Kind, u8)> = vec![(Kind::DebugFrame, 1), (Kind::DebugFrame, 3), (Kind::DebugFrame, 4), (Kind::EhFrame, 1), (Kind::EhFrame, 3)];
    Sub::new(
        "cie-fields",
        nv * 5 * 2 * 2,
        "one CIE field at a time over boundary values (version 0..6, v4 address_size {0,1,2,3,4,5,8,9,16,255}, segment_size {1,8}, CAF/DAF LEB128 boundaries up to 2^64-1 / i64 min/max, return address register {0..2^32}, 0..9 trailing nops without alignment) x {.debug_frame v1/3/4, .eh_frame v1/3} x 32/64-bit x LE/BE, followed by one FDE",
        move |ctx, i| {
            let variants = field_variants();
            let mut mx = Mix(i);
            let vi = mx.take(nv) as usize;
            let (kind, version) = *mx.pick(&kinds);
            let fmt64 = mx.flag();
            let big = mx.flag();
            let mut c = CieSpec::plain(version, 8);
            c.fmt64 = fmt64;
            c.insns = vec![Insn::DefCfa(7, 8), Insn::Offset(16, 1)];
            let exp = (variants[vi].1)(&mut c, kind);
            let bases = Bases::default();
            let mut b = Builder::new(kind, big, bases);
            let co = b.cie(&c);
            // the FDE is laid out with a usable address size even if the CIE's is bogus
            let mut lc = c.clone();
            if !matches!(lc.addr, 1 | 2 | 4 | 8) {
                lc.addr = 8;
            }
            let f = FdeSpec::simple(co.off, 0x40, 0x20, vec![Insn::AdvanceLoc(1)], 0);
            let fo = b.fde(&f, &lc);
            let bytes = b.e.buf.clone();
            // the section's configured address size: what the CIE uses unless it carries its own
            let sect_addr = if kind == Kind::DebugFrame && c.version == 4 { 8 } else { c.addr };
            let case = || format!("{:?} v{} {} fmt64={} {} section={}", kind, version, if big { "BE" } else { "LE" }, fmt64, variants[vi].0, mcx::hex(&bytes));
            let gb = BaseAddresses::default();
            let e_entries = entry_name(kind, "entries");
            ctx.eval(1);
            let sc = with_sec!(kind, &bytes, big, sect_addr, sec => guard(|| scan::scan(&sec, &gb, &bytes, 4)));
            let sc = match sc {
                Ok(s) => s,
                Err(p) => {
                    ctx.fail_panic(&e_entries, &p, case());
                    return;
                }
            };
            ctx.nontriv(1);
            match exp {
                Expect::Parse => match (sc.items.first(), sc.items.get(1)) {
                    (Some(Got::Cie(g)), Some(Got::Fde { full: Ok((gf, _)), .. })) if sc.end.is_ok() => {
                        if let Err(d) = cmp_cie(g, &c, &co, &bases) {
                            ctx.fail(&e_entries, "cie-fields", "wrong-field", format!("{}: {}", case(), d));
                        } else if let Err(d) = cmp_fde(gf, &c, co.off, &f, &fo, &bases) {
                            ctx.fail(&e_entries, "fde-fields", "wrong-field", format!("{}: {}", case(), d));
                        }
                        ctx.outcome("fields:parsed");
                    }
                    _ => ctx.fail(&e_entries, "cie-fields", "rejected-well-formed", format!("{}: {:?}", case(), sc)),
                },
                other => {
                    let ok = match (&other, &sc.end) {
                        (Expect::UnknownVersion(v), Err(gimli::Error::UnknownVersion(x))) => *x == *v as u64,
                        (Expect::BadAddressSize(a), Err(gimli::Error::UnsupportedAddressSize(x))) => x == a,
                        (Expect::SegmentRefused(s), Err(gimli::Error::UnsupportedSegmentSize(x))) => x == s,
                        (Expect::BadRegister, Err(gimli::Error::UnsupportedRegister(_))) => true,
                        _ => false,
                    };
                    if !ok || !sc.items.is_empty() {
                        ctx.fail(&e_entries, "cie-fields", "wrong-refusal", format!("{}: expected {:?}, got {:?}", case(), other, sc));
                    }
                    ctx.outcome(&format!("fields:refused-{}", match other {
                        Expect::UnknownVersion(_) => "version",
                        Expect::BadAddressSize(_) => "address-size",
                        Expect::SegmentRefused(_) => "segment-size",
                        Expect::BadRegister => "register",
                        Expect::Parse => unreachable!(),
                    }));
                }
            }
            if ctx.want_sample() && crate::glue::sample_here(i, 11) {
                ctx.sample(case());
            }
        },
    )
}

pub fn def(tier: Tier) -> CheckDef {
    let mut subs = vec![sub_arrangements(tier), sub_aug(tier), sub_fields(tier)];
    subs.extend(super::c05b::subs(tier));
    let mut required: Vec<String> = [
        "entry:cie",
        "entry:fde-bound",
        "entry:fde->fde=NotCieId",
        "entry:fde->zero=NoEntry",
        "zero:terminates",
        "zero:skipped",
        "offset:fde-at-cie=NotCiePointer",
        "offset:cie-at-fde=NotCieId",
        "offset:zero=NoEntry",
        "aug:wellformed-parsed",
        "aug:illformed-rejected",
        "fields:parsed",
        "fields:refused-version",
        "fields:refused-address-size",
        "fields:refused-segment-size",
        "fields:refused-register",
    ]
    .iter()
    .map(|s| s.to_string())
    .collect();
    required.extend(super::c05b::required());
    CheckDef {
        level: "exploration",
        rule: "one evaluation = one call of a gimli entry point on a generated section (entries() scan, cie_from_offset/fde_from_offset at one offset, one address lookup through one path, one EhFrameHdr::parse / table walk); distinct = distinct (section, configuration[, probe address]); non-trivial = the section holds at least one entry".into(),
        assumptions: vec![
            ".eh_frame CIE versions 1 and 3 only (LSB fixes version 1; GNU tools read address/segment sizes in a v4 .eh_frame CIE, gimli does not: v4 .eh_frame is treated as outside the well-formed space)".into(),
            "a 4-byte zero length ends .eh_frame iteration (LSB terminator); a zero length in .debug_frame and a 64-bit zero length anywhere are ill-formed: skip, end and error are all accepted, entries before it are still compared".into(),
            "pointer arithmetic is modulo 2^(8*address_size); DW_EH_PE_aligned may be refused as unsupported; DW_EH_PE_omit for L/P/R and indirect FDE addresses are latitude (see notes); DW_EH_PE_indirect is reported, never dereferenced".into(),
            "an FDE whose end wraps past the top of the address space covers a 'maybe' set: lookups there may succeed or fail".into(),
            "hdr table lookups are compared only for tables with strictly ascending, distinct initial locations (the LSB table invariant)".into(),
            "readelf / llvm-dwarfdump corpus comparison is out of family (not decided)".into(),
        ],
        subs,
        required_outcomes: required,
    }
}
