//! C05 part 2: address lookups (linear, .eh_frame_hdr table, unwind info),
//! FDE range layouts, hdr table formats. The 256-encoding sweep is in c05c.rs.
use super::c05::{entry_name, Item, Layout, Target};
use super::enc::{self, Bases, Builder, CieSpec, FdeSpec, HdrSpec, Insn, Kind, Ptr};
use super::glue::{self, Sl};
use super::model::{self, Limits, OutRow};
use super::scan;
use gimli::read::{BaseAddresses, EhFrame, EhFrameHdr, StoreOnHeap, UnwindContext, UnwindSection};
use mcx::space::{seq_count, seq_decode, Mix};
use mcx::{guard, Ctx, Sub, Tier};

#[derive(Clone, Copy, Debug, PartialEq, Eq)]
pub enum Vis {
    Visible,
    /// after a zero length that the reader may or may not pass
    Maybe,
    /// after the .eh_frame terminator
    Hidden,
}

#[derive(Clone, Debug)]
pub struct LFde {
    pub off: usize,
    pub start: u64,
    pub len: u64,
    pub vis: Vis,
    pub rows: Vec<OutRow>,
}

#[derive(Clone, Copy, PartialEq, Eq, Debug)]
enum Cov {
    Yes,
    No,
    Maybe,
    /// covered by an FDE that ends exactly at the top of the address space
    /// (start + length == 2^(8*address_size)): a well-formed range whose end
    /// is not representable in an address
    Top,
}

fn covers(f: &LFde, a: u64, addr: u8) -> Cov {
    let top = enc::mask(addr) as u128 + 1;
    let s = f.start as u128;
    let e = s + f.len as u128;
    let a = a as u128;
    if a < s || a >= e {
        return Cov::No;
    }
    if e > top {
        // the range wraps past the top of the address space: ill-formed
        return Cov::Maybe;
    }
    if e == top {
        return Cov::Top;
    }
    Cov::Yes
}

/// Acceptable answers of a section-order scan: Some(index) / None = not found.
/// `top_covers`: the reading of `Cov::Top` (true = the mathematical range).
fn scan_accept(fdes: &[LFde], a: u64, addr: u8, top_covers: bool) -> Vec<Option<usize>> {
    let mut acc = vec![];
    for (k, f) in fdes.iter().enumerate() {
        if f.vis == Vis::Hidden {
            continue;
        }
        let mut cov = covers(f, a, addr);
        if cov == Cov::Top {
            cov = if top_covers { Cov::Yes } else { Cov::No };
        }
        match cov {
            Cov::No => {}
            Cov::Yes if f.vis == Vis::Visible => {
                acc.push(Some(k));
                return acc;
            }
            _ => acc.push(Some(k)),
        }
    }
    acc.push(None);
    acc
}

pub fn probes_for(fdes: &[LFde], addr: u8) -> Vec<u64> {
    let m = enc::mask(addr);
    let mut v = vec![0u64, m];
    for f in fdes {
        let e = f.start.wrapping_add(f.len) & m;
        for b in [f.start, e] {
            v.push(b.wrapping_sub(1) & m);
            v.push(b);
            v.push(b.wrapping_add(1) & m);
        }
    }
    v.sort();
    v.dedup();
    v
}

/// Lookup through the section itself.
fn linear_paths<'a, Sec: UnwindSection<Sl<'a>>>(ctx: &mut Ctx, sec: &Sec, kind: Kind, gb: &BaseAddresses, bytes: &[u8], addr: u8, fdes: &[LFde], probes: &[u64], case: &dyn Fn() -> String) {
    let e_fde = entry_name(kind, "fde_for_address");
    let e_unw = entry_name(kind, "unwind_info_for_address");
    for &a in probes {
        let acc = scan_accept(fdes, a, addr, true);
        // the answers a reader gives that wraps an FDE end of 2^(8*address_size) to 0
        let acc_wrapped = scan_accept(fdes, a, addr, false);
        ctx.eval(2);
        let r = guard(|| {
            let f = sec.fde_for_address(gb, a, Sec::cie_from_offset).map(|f| f.offset());
            let mut uc = UnwindContext::<usize, StoreOnHeap>::new();
            let u = sec.unwind_info_for_address(gb, &mut uc, a, Sec::cie_from_offset).map(|row| glue::conv_row(row, bytes, &[]));
            (f, u)
        });
        let (f, u) = match r {
            Ok(x) => x,
            Err(p) => {
                ctx.fail_panic(&e_fde, &p, format!("{} address {:#x}", case(), a));
                return;
            }
        };
        // fde_for_address
        let got = match &f {
            Ok(off) => fdes.iter().position(|x| x.off == *off).map(Some).unwrap_or(Some(usize::MAX)),
            Err(gimli::Error::NoUnwindInfoForAddress) => None,
            Err(e) => {
                ctx.fail(&e_fde, "lookup-linear", "unexpected-error", format!("{} address {:#x}: {:?}", case(), a, e));
                return;
            }
        };
        if !acc.contains(&got) && acc_wrapped.contains(&got) {
            ctx.fail(&e_fde, "fde-ending-at-top-of-address-space", "covered-address-not-found", format!("{} address {:#x}: got {:?} ({:?}); the FDE [start, start+len) with start+len == 2^{} covers it: scan accepts {:?}", case(), a, got, f, 8 * addr as u32, acc));
        } else if !acc.contains(&got) {
            ctx.fail(&e_fde, "lookup-linear", "differs-from-exhaustive-scan", format!("{} address {:#x}: got {:?} (FDE offset {:?}), scan accepts {:?} of {:?}", case(), a, got, f, acc, fdes.iter().map(|x| (x.off, x.start, x.len, x.vis)).collect::<Vec<_>>()));
            return;
        }
        ctx.outcome(if got.is_some() { "linear:found" } else { "linear:not-found" });
        // unwind_info_for_address
        match u {
            Err(gimli::Error::NoUnwindInfoForAddress) => {
                // an ill-formed (wrapping) FDE that precedes the covering one may be the
                // one the reader picks; its rows need not contain the address
                let maybe_first = acc.len() > 1;
                if maybe_first {
                    ctx.outcome("unwind:not-found-after-ill-formed-fde");
                } else if !acc.contains(&None) && (acc_wrapped.contains(&None) || matches!(acc.last(), Some(Some(k)) if covers(&fdes[*k], a, addr) == Cov::Top)) {
                    ctx.fail(&e_unw, "fde-ending-at-top-of-address-space", "covered-address-not-found", format!("{} address {:#x}: NoUnwindInfoForAddress; scan accepts {:?}", case(), a, acc));
                    continue;
                } else if !acc.contains(&None) {
                    ctx.fail(&e_unw, "unwind-info", "missing-for-covered-address", format!("{} address {:#x}: NoUnwindInfoForAddress, scan accepts {:?}", case(), a, acc));
                    return;
                }
                ctx.outcome("unwind:not-found");
            }
            Err(e) => {
                ctx.fail(&e_unw, "unwind-info", "unexpected-error", format!("{} address {:#x}: {:?}", case(), a, e));
                return;
            }
            Ok(Err(s)) => {
                ctx.fail(&e_unw, "unwind-info", "unrepresentable-row", format!("{} address {:#x}: {}", case(), a, s));
                return;
            }
            Ok(Ok(row)) => {
                // must be the row containing `a` of one of the acceptable FDEs
                let ok = acc.iter().chain(acc_wrapped.iter()).flatten().any(|&k| fdes[k].rows.iter().any(|m| m.start <= a && (a < m.end || m.end < m.start) && glue::diff_row(&row, m).is_none()));
                if !ok {
                    ctx.fail(&e_unw, "unwind-info", "wrong-row", format!("{} address {:#x}: row {}, scan accepts {:?}", case(), a, glue::render_row(row.start, row.end, &row.row), acc));
                    return;
                }
                ctx.outcome("unwind:row");
            }
        }
    }
}

/// Model rows of an FDE (CIE program then FDE program).
pub fn model_rows(cie: &CieSpec, cie_exprs: &[Option<(usize, usize)>], fde_insns: &[Insn], fde_exprs: &[Option<(usize, usize)>], start: u64, len: u64) -> Vec<OutRow> {
    let c = glue::to_mis(&cie.insns, cie_exprs, cie.caf, cie.daf, false, cie.addr);
    let f = glue::to_mis(fde_insns, fde_exprs, cie.caf, cie.daf, false, cie.addr);
    let end = start.wrapping_add(len) & enc::mask(cie.addr);
    model::run(&c, &f, start, end, cie.addr, Limits::default()).rows
}

/// Table lookups through .eh_frame_hdr for one table encoding.
#[allow(clippy::too_many_arguments)]
pub fn hdr_paths(ctx: &mut Ctx, bytes: &[u8], big: bool, addr: u8, eh_bases: &Bases, eh_va: u64, hdr_va: u64, table_enc: u8, fdes: &[LFde], probes: &[u64], case: &dyn Fn() -> String) {
    // the table: visible FDEs sorted by initial location
    let mut tab: Vec<usize> = (0..fdes.len()).filter(|&k| fdes[k].vis == Vis::Visible).collect();
    tab.sort_by_key(|&k| fdes[k].start);
    if tab.is_empty() {
        return;
    }
    // LSB table invariant + no FDE start inside another FDE (otherwise a binary search cannot agree with a scan)
    for w in 0..tab.len() {
        for v in 0..tab.len() {
            if w != v {
                let (a, b) = (&fdes[tab[w]], &fdes[tab[v]]);
                if a.start == b.start || (a.start >= b.start && (a.start as u128) < b.start as u128 + b.len as u128) {
                    ctx.outcome("hdr:skipped-overlap");
                    return;
                }
            }
        }
    }
    let hb = Bases { section: Some(hdr_va), text: eh_bases.text, data: Some(hdr_va) };
    let spec = HdrSpec {
        version: 1,
        ptr_enc: enc::PE_PCREL | enc::PE_SDATA4,
        count_enc: enc::PE_UDATA4,
        table_enc,
        ptr_raw: eh_va.wrapping_sub(hdr_va + 4),
        count_raw: tab.len() as u64,
        table: tab.iter().map(|&k| (Ptr::Target(fdes[k].start), Ptr::Target(eh_va + fdes[k].off as u64))).collect(),
    };
    let (hbytes, hout) = enc::build_hdr(&spec, big, addr, &hb);
    // what the stored table really says (an entry that does not fit the format is not expressible)
    for (j, &k) in tab.iter().enumerate() {
        let (p0, p1) = hout.entry_pos[j];
        let l = enc::expect_ptr(table_enc, spec.table[j].0.raw(table_enc, p0 as u64, &hb, None), p0 as u64, &hb, None, addr);
        let p = enc::expect_ptr(table_enc, spec.table[j].1.raw(table_enc, p1 as u64, &hb, None), p1 as u64, &hb, None, addr);
        if l != (enc::PtrExp::Value { indirect: false, value: fdes[k].start }) || p != (enc::PtrExp::Value { indirect: false, value: eh_va + fdes[k].off as u64 }) {
            ctx.outcome("hdr:skipped-unencodable");
            return;
        }
    }
    let gb = scan::mk_bases(eh_bases, &hb);
    let hcase = || format!("{} hdr(table_enc={:#04x} hdr_va={:#x} eh_va={:#x})={}", case(), table_enc, hdr_va, eh_va, mcx::hex(&hbytes));
    let e_parse = "EhFrameHdr::parse";
    let e_lookup = "EhHdrTable::lookup";
    let e_fde = "EhHdrTable::fde_for_address";
    let e_unw = "EhHdrTable::unwind_info_for_address";
    ctx.eval(1);
    let hdr = EhFrameHdr::new(&hbytes, glue::endian(big));
    let parsed = match guard(|| hdr.parse(&gb, addr)) {
        Ok(Ok(p)) => p,
        Ok(Err(e)) => {
            ctx.fail(e_parse, "hdr-parse", "rejected-well-formed-hdr", format!("{}: {:?}", hcase(), e));
            return;
        }
        Err(p) => {
            ctx.fail_panic(e_parse, &p, hcase());
            return;
        }
    };
    if scan::ptr_of(parsed.eh_frame_ptr()) != (false, eh_va & enc::mask(addr)) {
        ctx.fail(e_parse, "hdr-eh_frame_ptr", "wrong-value", format!("{}: {:?}", hcase(), parsed.eh_frame_ptr()));
        return;
    }
    let Some(table) = parsed.table() else {
        ctx.fail(e_parse, "hdr-table", "missing-table", hcase());
        return;
    };
    // iter / nth
    ctx.eval(1 + tab.len() as u64);
    let walked = guard(|| {
        let mut v = vec![];
        let mut it = table.iter(&gb);
        loop {
            match it.next() {
                Ok(Some((a, b))) => v.push(Ok((scan::ptr_of(a), scan::ptr_of(b)))),
                Ok(None) => break,
                Err(e) => {
                    v.push(Err(e));
                    break;
                }
            }
            if v.len() > tab.len() + 1 {
                break;
            }
        }
        let nths: Vec<_> = (0..tab.len() + 1).map(|n| table.iter(&gb).nth(n).map(|o| o.map(|(a, b)| (scan::ptr_of(a), scan::ptr_of(b))))).collect();
        (v, nths)
    });
    let (walk, nths) = match walked {
        Ok(x) => x,
        Err(p) => {
            ctx.fail_panic("EhHdrTableIter::next", &p, hcase());
            return;
        }
    };
    let want: Vec<((bool, u64), (bool, u64))> = tab.iter().map(|&k| ((false, fdes[k].start), (false, eh_va + fdes[k].off as u64))).collect();
    let walk_ok: Vec<_> = walk.iter().filter_map(|x| x.as_ref().ok().cloned()).collect();
    if walk_ok != want || walk.len() != want.len() {
        ctx.fail("EhHdrTableIter::next", "hdr-iter", "wrong-entries", format!("{}: got {:?} want {:?}", hcase(), walk, want));
        return;
    }
    let fixed = matches!(table_enc & 0x0f, 0x02 | 0x03 | 0x04 | 0x0a | 0x0b | 0x0c);
    for (n, r) in nths.iter().enumerate() {
        let exp = want.get(n).cloned();
        match r {
            Ok(g) if *g == exp => {}
            Err(gimli::Error::UnsupportedPointerEncoding(_)) if !fixed => {}
            other => {
                ctx.fail("EhHdrTableIter::nth", "hdr-nth", "wrong-entry", format!("{}: nth({}) = {:?}, want {:?}", hcase(), n, other, exp));
                return;
            }
        }
    }
    ctx.outcome("hdr:iter");
    if !fixed {
        // variable-size entries cannot be binary searched: refusal is the only allowed answer besides the right one
        ctx.outcome("hdr:variable-size-format");
    }
    let eh = {
        let mut s = EhFrame::new(bytes, glue::endian(big));
        s.set_address_size(addr);
        s
    };
    for &a in probes {
        ctx.eval(3);
        // expected table slot: last entry with location <= a, else the first
        let slot = match tab.iter().rposition(|&k| fdes[k].start <= a) {
            Some(j) => j,
            None => 0,
        };
        let k = tab[slot];
        let r = guard(|| {
            let l = table.lookup(a, &gb).map(scan::ptr_of);
            let f = table.fde_for_address(&eh, &gb, a, EhFrame::cie_from_offset).map(|f| f.offset());
            let mut uc = UnwindContext::<usize, StoreOnHeap>::new();
            let u = table.unwind_info_for_address(&eh, &gb, &mut uc, a, EhFrame::cie_from_offset).map(|row| glue::conv_row(row, bytes, &[]));
            (l, f, u)
        });
        let (l, f, u) = match r {
            Ok(x) => x,
            Err(p) => {
                ctx.fail_panic(e_lookup, &p, format!("{} address {:#x}", hcase(), a));
                return;
            }
        };
        if !fixed {
            let refused = |e: &gimli::Error| matches!(e, gimli::Error::UnsupportedPointerEncoding(_));
            if let (Err(e1), Err(e2), Err(e3)) = (&l, &f, &u) {
                if refused(e1) && refused(e2) && refused(e3) {
                    ctx.outcome("hdr:lookup-refused-variable-size");
                    continue;
                }
            }
        }
        match &l {
            Ok(p) if *p == (false, eh_va + fdes[k].off as u64) => ctx.outcome("hdr:lookup"),
            other => {
                ctx.fail(e_lookup, "hdr-lookup", "wrong-table-slot", format!("{} address {:#x}: {:?}, want slot {} -> {:#x}", hcase(), a, other, slot, eh_va + fdes[k].off as u64));
                return;
            }
        }
        let cov = covers(&fdes[k], a, addr);
        if cov == Cov::Top {
            match (&f, &u) {
                (Ok(off), Ok(Ok(_))) if *off == fdes[k].off => ctx.outcome("hdr:fde-found"),
                _ => {
                    if !matches!(f, Ok(off) if off == fdes[k].off) {
                        ctx.fail(e_fde, "fde-ending-at-top-of-address-space", "covered-address-not-found", format!("{} address {:#x}: {:?}, want FDE {:#x}", hcase(), a, f, fdes[k].off));
                    }
                    if !matches!(u, Ok(Ok(_))) {
                        ctx.fail(e_unw, "fde-ending-at-top-of-address-space", "covered-address-not-found", format!("{} address {:#x}: no row, want FDE {:#x}", hcase(), a, fdes[k].off));
                    }
                }
            }
            continue;
        }
        match (&f, cov) {
            (Ok(off), Cov::Yes | Cov::Maybe) if *off == fdes[k].off => ctx.outcome("hdr:fde-found"),
            (Err(gimli::Error::NoUnwindInfoForAddress), Cov::No | Cov::Maybe) => ctx.outcome("hdr:fde-not-found"),
            other => {
                ctx.fail(e_fde, "hdr-fde_for_address", "differs-from-exhaustive-scan", format!("{} address {:#x}: {:?}, want FDE {:#x} covering={:?}", hcase(), a, other, fdes[k].off, cov));
                return;
            }
        }
        match (u, cov) {
            (Err(gimli::Error::NoUnwindInfoForAddress), Cov::No | Cov::Maybe) => {}
            (Ok(Ok(row)), Cov::Yes | Cov::Maybe) if fdes[k].rows.iter().any(|m| m.start <= a && (a < m.end || m.end < m.start) && glue::diff_row(&row, m).is_none()) => {}
            (other, _) => {
                ctx.fail(e_unw, "hdr-unwind-info", "wrong-row", format!("{} address {:#x}: {:?} covering={:?}", hcase(), a, other.map(|r| r.map(|x| glue::render_row(x.start, x.end, &x.row))), cov));
                return;
            }
        }
    }
}

/// Lookups for an arrangement layout (all FDEs bound to CIEs).
pub fn check_lookups(ctx: &mut Ctx, l: &Layout, case: &dyn Fn() -> String) {
    let mut fdes: Vec<LFde> = vec![];
    let mut vis = Vis::Visible;
    for it in &l.items {
        match it {
            Item::Zero { wide, .. } => {
                if l.kind == Kind::EhFrame && !*wide {
                    vis = Vis::Hidden;
                } else if vis == Vis::Visible {
                    vis = Vis::Maybe;
                }
            }
            Item::Cie { .. } => {}
            Item::Fde { spec, out, target, .. } => {
                let Target::Cie(j) = target else { return };
                let Item::Cie { spec: cs, out: co } = &l.items[*j] else { return };
                let Ptr::Target(start) = spec.start else { return };
                fdes.push(LFde { off: out.off, start, len: spec.len, vis, rows: model_rows(cs, &co.exprs, &spec.insns, &out.exprs, start, spec.len) });
            }
        }
    }
    if fdes.is_empty() {
        return;
    }
    let probes = probes_for(&fdes, l.addr);
    let gb = scan::mk_bases(&l.bases, &Bases::default());
    crate::with_sec!(l.kind, &l.bytes, l.big, l.addr, sec => linear_paths(ctx, &sec, l.kind, &gb, &l.bytes, l.addr, &fdes, &probes, case));
    if l.kind == Kind::EhFrame {
        let eh_va = l.bases.section.unwrap();
        hdr_paths(ctx, &l.bytes, l.big, l.addr, &l.bases, eh_va, eh_va - 0x1000, enc::PE_DATAREL | enc::PE_SDATA4, &fdes, &probes, case);
    }
}

// ---------------------------------------------------------------------------
// FDE range layouts

fn range_options(addr: u8) -> Vec<(u64, u64)> {
    let top = enc::mask(addr);
    let mut v = vec![];
    for s in [0x1000u64, 0x1010, 0x1020, 0x1030, top - 0xf] {
        for l in [0u64, 8, 0x10, 0x20] {
            v.push((s, l));
        }
    }
    v
}

fn sub_ranges(tier: Tier) -> Sub {
    let maxn = tier.pick(3u32, 4u32);
    let nopt = 20u64;
    let nseq = seq_count(nopt, 1, maxn);
    Sub::new(
        "fde-ranges",
        nseq * 2 * 2 * 2,
        &format!("every sequence (= section order) of 1..={} FDEs, each with (start, length) from {{0x1000,0x1010,0x1020,0x1030, top-15}} x {{0,8,16,32}} (adjacent, gaps, zero-length, overlapping, duplicate, descending, end exactly at / wrapping past the top of the address space) x {{.debug_frame v4, .eh_frame v1 with zR pcrel|sdata4}} x address size {{4,8}} x {{LE,BE}}; probes: 0, max, and start-1,start,start+1,end-1,end,end+1 of every FDE; paths: fde_for_address, unwind_info_for_address, and for .eh_frame the hdr table (udata4/udata8 absolute entries) when FDEs do not overlap", maxn),
        move |ctx, i| {
            let mut mx = Mix(i);
            let si = mx.take(nseq);
            let kind = *mx.pick(&[Kind::DebugFrame, Kind::EhFrame]);
            let addr = *mx.pick(&[4u8, 8]);
            let big = mx.flag();
            let opts = range_options(addr);
            let seq: Vec<(u64, u64)> = seq_decode(nopt, 1, maxn, si).into_iter().map(|k| opts[k]).collect();
            let eh_va: u64 = 0x0030_0000;
            let bases = Bases { section: Some(eh_va), text: None, data: None };
            let mut b = Builder::new(kind, big, bases);
            let mut c = CieSpec::plain(if kind == Kind::EhFrame { 1 } else { 4 }, addr);
            c.daf = -8;
            c.insns = vec![Insn::DefCfa(7, 8), Insn::Offset(16, 1)];
            if kind == Kind::EhFrame {
                c.aug = b"zR".to_vec();
                // top-of-address-space starts are not reachable pc-relative in sdata4 with 8-byte addresses
                c.fde_enc = if addr == 8 { enc::PE_ABSPTR } else { enc::PE_PCREL | enc::PE_SDATA4 };
            }
            let co = b.cie(&c);
            let mut fdes = vec![];
            for (k, (start, len)) in seq.iter().enumerate() {
                // a distinguishing rule per FDE so that rows identify the FDE
                let insns = vec![Insn::AdvanceLoc(4), Insn::DefCfaOffset(16 + k as u64)];
                let f = FdeSpec::simple(co.off, *start, *len, insns.clone(), addr as usize);
                let fo = b.fde(&f, &c);
                fdes.push(LFde { off: fo.off, start: *start, len: *len, vis: Vis::Visible, rows: model_rows(&c, &co.exprs, &insns, &fo.exprs, *start, *len) });
            }
            let bytes = b.e.buf.clone();
            let case = || format!("{:?} addr{} {} FDEs(start,len)={:x?} section={}", kind, addr, if big { "BE" } else { "LE" }, seq, mcx::hex(&bytes));
            let probes = probes_for(&fdes, addr);
            let gb = scan::mk_bases(&bases, &Bases::default());
            ctx.nontriv(probes.len() as u64);
            crate::with_sec!(kind, &bytes, big, addr, sec => linear_paths(ctx, &sec, kind, &gb, &bytes, addr, &fdes, &probes, &case));
            if kind == Kind::EhFrame {
                hdr_paths(ctx, &bytes, big, addr, &bases, eh_va, 0x0020_0000, if addr == 8 { enc::PE_UDATA8 } else { enc::PE_UDATA4 }, &fdes, &probes, &case);
            }
            if ctx.want_sample() && crate::glue::sample_here(i, 97) {
                ctx.sample(case());
            }
        },
    )
}

// ---------------------------------------------------------------------------
// hdr table entry formats

fn sub_hdr_formats(_tier: Tier) -> Sub {
    let formats = [enc::PE_UDATA2, enc::PE_UDATA4, enc::PE_UDATA8, enc::PE_SDATA2, enc::PE_SDATA4, enc::PE_SDATA8, enc::PE_ABSPTR, enc::PE_ULEB128, enc::PE_SLEB128];
    let apps = [enc::PE_ABSPTR, enc::PE_PCREL, enc::PE_DATAREL, enc::PE_TEXTREL];
    // all subsets-with-order would be huge: counts 1..=5, FDEs in ascending / descending / rotated section order
    Sub::new(
        "hdr-table-formats",
        9 * 4 * 5 * 3 * 2 * 2 * 2,
        "hdr tables generated from the FDE set: entry format {udata2,4,8, sdata2,4,8, absptr, uleb128, sleb128} x application {absptr, pcrel, datarel, textrel} x 1..=5 FDEs (gaps between them) x section order {ascending, descending, rotated} x layout {text above hdr, text below hdr} x address size {4,8} x {LE,BE}: parse, iter, nth(i) for all i, lookup / fde_for_address / unwind_info_for_address for every boundary probe; combinations whose values do not fit the entry format are skipped and counted",
        move |ctx, i| {
            let mut mx = Mix(i);
            let fmt = *mx.pick(&formats);
            let app = *mx.pick(&apps);
            let n = mx.take(5) as usize + 1;
            let order = mx.take(3);
            let text_above = mx.flag();
            let addr = *mx.pick(&[4u8, 8]);
            let big = mx.flag();
            let (hdr_va, eh_va, text): (u64, u64, u64) = if text_above { (0x2000, 0x3000, 0x4000) } else { (0x5000, 0x6000, 0x1000) };
            let bases = Bases { section: Some(eh_va), text: Some(text), data: None };
            let mut b = Builder::new(Kind::EhFrame, big, bases);
            let mut c = CieSpec::plain(1, addr);
            c.daf = -8;
            c.insns = vec![Insn::DefCfa(7, 8)];
            let co = b.cie(&c);
            let mut idx: Vec<usize> = (0..n).collect();
            match order {
                1 => idx.reverse(),
                2 => idx.rotate_left(n / 2),
                _ => {}
            }
            let mut fdes = vec![];
            for &k in &idx {
                let start = text + 0x40 * k as u64;
                let len = 0x30;
                let insns = vec![Insn::AdvanceLoc(4), Insn::DefCfaOffset(16 + k as u64)];
                let f = FdeSpec::simple(co.off, start, len, insns.clone(), addr as usize);
                let fo = b.fde(&f, &c);
                fdes.push(LFde { off: fo.off, start, len, vis: Vis::Visible, rows: model_rows(&c, &co.exprs, &insns, &fo.exprs, start, len) });
            }
            let bytes = b.e.buf.clone();
            let case = || format!("EhFrame addr{} {} {} FDEs order{} text={:#x} section={}", addr, if big { "BE" } else { "LE" }, n, order, text, mcx::hex(&bytes));
            let probes = probes_for(&fdes, addr);
            ctx.nontriv(1);
            hdr_paths(ctx, &bytes, big, addr, &bases, eh_va, hdr_va, fmt | app, &fdes, &probes, &case);
            if ctx.want_sample() && crate::glue::sample_here(i, 13) {
                ctx.sample(case());
            }
        },
    )
}

pub fn subs(tier: Tier) -> Vec<Sub> {
    let mut v = vec![sub_ranges(tier), sub_hdr_formats(tier)];
    v.extend(super::c05c::subs(tier));
    v
}

pub fn required() -> Vec<String> {
    let mut v: Vec<String> = ["linear:found", "linear:not-found", "unwind:row", "unwind:not-found", "hdr:iter", "hdr:lookup", "hdr:fde-found", "hdr:fde-not-found", "hdr:skipped-overlap", "hdr:skipped-unencodable", "hdr:variable-size-format"]
        .iter()
        .map(|s| s.to_string())
        .collect();
    v.extend(super::c05c::required());
    v
}
