//! gimli-facing observation of CIEs / FDEs for C05 (and C14 read-back).
#![allow(dead_code)]

use super::enc::{self, Bases, Insn};
use super::glue::Sl;
use gimli::read::{BaseAddresses, CallFrameInstruction, CieOrFde, CommonInformationEntry, FrameDescriptionEntry, Pointer, UnwindSection};

pub fn mk_bases(eh: &Bases, hdr: &Bases) -> BaseAddresses {
    let mut b = BaseAddresses::default();
    b.eh_frame.section = eh.section;
    b.eh_frame.text = eh.text;
    b.eh_frame.data = eh.data;
    b.eh_frame_hdr.section = hdr.section;
    b.eh_frame_hdr.text = hdr.text;
    b.eh_frame_hdr.data = hdr.data;
    b
}

pub fn ptr_of(p: Pointer) -> (bool, u64) {
    match p {
        Pointer::Direct(v) => (false, v),
        Pointer::Indirect(v) => (true, v),
    }
}

/// Normal form of an instruction for decode comparison: the advance_loc
/// family, offset/offset_extended and restore/restore_extended are the same
/// abstract instruction.
pub fn norm(i: &Insn, addr: u8) -> Insn {
    use Insn::*;
    match i {
        AdvanceLoc(d) => AdvanceLoc4(*d as u32),
        AdvanceLoc1(d) => AdvanceLoc4(*d as u32),
        AdvanceLoc2(d) => AdvanceLoc4(*d as u32),
        SetLoc(a) => SetLoc(*a & enc::mask(addr)),
        Offset(r, o) => OffsetExtended(*r as u64, *o),
        Restore(r) => RestoreExtended(*r as u64),
        other => other.clone(),
    }
}

fn window(off: usize, len: usize, sect: &[u8]) -> Vec<u8> {
    match off.checked_add(len) {
        Some(e) if e <= sect.len() => sect[off..e].to_vec(),
        _ => vec![0xde, 0xad],
    }
}

pub fn from_gimli(i: &CallFrameInstruction<usize>, sect: &[u8]) -> Insn {
    use CallFrameInstruction as G;
    match i {
        G::SetLoc { address } => Insn::SetLoc(*address),
        G::AdvanceLoc { delta } => Insn::AdvanceLoc4(*delta),
        G::DefCfa { register, offset } => Insn::DefCfa(register.0 as u64, *offset),
        G::DefCfaSf { register, factored_offset } => Insn::DefCfaSf(register.0 as u64, *factored_offset),
        G::DefCfaRegister { register } => Insn::DefCfaRegister(register.0 as u64),
        G::DefCfaOffset { offset } => Insn::DefCfaOffset(*offset),
        G::DefCfaOffsetSf { factored_offset } => Insn::DefCfaOffsetSf(*factored_offset),
        G::DefCfaExpression { expression } => Insn::DefCfaExpression(window(expression.offset, expression.length, sect)),
        G::Undefined { register } => Insn::Undefined(register.0 as u64),
        G::SameValue { register } => Insn::SameValue(register.0 as u64),
        G::Offset { register, factored_offset } => Insn::OffsetExtended(register.0 as u64, *factored_offset),
        G::OffsetExtendedSf { register, factored_offset } => Insn::OffsetExtendedSf(register.0 as u64, *factored_offset),
        G::ValOffset { register, factored_offset } => Insn::ValOffset(register.0 as u64, *factored_offset),
        G::ValOffsetSf { register, factored_offset } => Insn::ValOffsetSf(register.0 as u64, *factored_offset),
        G::Register { dest_register, src_register } => Insn::Register(dest_register.0 as u64, src_register.0 as u64),
        G::Expression { register, expression } => Insn::Expression(register.0 as u64, window(expression.offset, expression.length, sect)),
        G::ValExpression { register, expression } => Insn::ValExpression(register.0 as u64, window(expression.offset, expression.length, sect)),
        G::Restore { register } => Insn::RestoreExtended(register.0 as u64),
        G::RememberState => Insn::RememberState,
        G::RestoreState => Insn::RestoreState,
        G::ArgsSize { size } => Insn::GnuArgsSize(*size),
        G::NegateRaState => Insn::NegateRaState,
        G::Nop => Insn::Nop,
    }
}

#[derive(Clone, Debug, PartialEq, Eq)]
pub struct GotCie {
    pub off: usize,
    pub len: usize,
    pub fmt64: bool,
    pub version: u8,
    pub addr: u8,
    pub caf: u64,
    pub daf: i64,
    pub ra: u16,
    pub has_aug: bool,
    pub lsda_enc: Option<u8>,
    pub pers: Option<(u8, (bool, u64))>,
    pub fde_enc: Option<u8>,
    pub signal: bool,
    pub insns: Result<Vec<Insn>, String>,
}

#[derive(Clone, Debug, PartialEq, Eq)]
pub struct GotFde {
    pub off: usize,
    pub len: usize,
    pub cie_off: usize,
    pub start: u64,
    pub range: u64,
    pub end: u64,
    pub lsda: Option<(bool, u64)>,
    pub insns: Result<Vec<Insn>, String>,
}

pub fn got_cie<'a, Sec: UnwindSection<Sl<'a>>>(sec: &Sec, bases: &BaseAddresses, c: &CommonInformationEntry<Sl<'a>>, sect: &[u8]) -> GotCie {
    let mut insns = vec![];
    let mut it = c.instructions(sec, bases);
    let mut res = Ok(());
    loop {
        match it.next() {
            Ok(None) => break,
            Ok(Some(i)) => insns.push(from_gimli(&i, sect)),
            Err(e) => {
                res = Err(format!("{:?} after {} instructions", e, insns.len()));
                break;
            }
        }
    }
    let e = c.encoding();
    GotCie {
        off: c.offset(),
        len: c.entry_len(),
        fmt64: e.format == gimli::Format::Dwarf64,
        version: c.version(),
        addr: c.address_size(),
        caf: c.code_alignment_factor(),
        daf: c.data_alignment_factor(),
        ra: c.return_address_register().0,
        has_aug: c.augmentation().is_some(),
        lsda_enc: c.lsda_encoding().map(|e| e.0),
        pers: c.personality_with_encoding().map(|(e, p)| (e.0, ptr_of(p))),
        fde_enc: c.fde_address_encoding().map(|e| e.0),
        signal: c.is_signal_trampoline(),
        insns: res.map(|_| insns),
    }
}

pub fn got_fde<'a, Sec: UnwindSection<Sl<'a>>>(sec: &Sec, bases: &BaseAddresses, f: &FrameDescriptionEntry<Sl<'a>>, sect: &[u8]) -> GotFde {
    let mut insns = vec![];
    let mut it = f.instructions(sec, bases);
    let mut res = Ok(());
    loop {
        match it.next() {
            Ok(None) => break,
            Ok(Some(i)) => insns.push(from_gimli(&i, sect)),
            Err(e) => {
                res = Err(format!("{:?} after {} instructions", e, insns.len()));
                break;
            }
        }
    }
    GotFde {
        off: f.offset(),
        len: f.entry_len(),
        cie_off: f.cie().offset(),
        start: f.initial_address(),
        range: f.len(),
        end: f.end_address(),
        lsda: f.lsda().map(ptr_of),
        insns: res.map(|_| insns),
    }
}

#[derive(Clone, Debug)]
pub enum Got {
    Cie(GotCie),
    /// partial: (offset, entry_len, designated CIE offset), then the full parse
    Fde { off: usize, len: usize, cie_off: usize, full: Result<(GotFde, GotCie), gimli::Error> },
}

#[derive(Clone, Debug)]
pub struct Scan {
    pub items: Vec<Got>,
    pub end: Result<(), gimli::Error>,
}

/// Iterate all entries with `entries()`; FDEs are completed with `cie_from_offset`.
pub fn scan<'a, Sec: UnwindSection<Sl<'a>>>(sec: &Sec, bases: &BaseAddresses, sect: &[u8], max: usize) -> Scan {
    let mut items = vec![];
    let mut it = sec.entries(bases);
    // the end is final: the iterator is polled twice more after it reported the end, and
    // whatever it yields then is recorded like any other entry / error
    let mut ended = 0;
    let end = loop {
        if items.len() > max {
            break Err(gimli::Error::TooManyRegisterRules); // sentinel: runaway
        }
        match it.next() {
            Ok(None) => {
                ended += 1;
                if ended == 3 {
                    break Ok(());
                }
            }
            Err(e) => break Err(e),
            Ok(Some(CieOrFde::Cie(c))) => items.push(Got::Cie(got_cie(sec, bases, &c, sect))),
            Ok(Some(CieOrFde::Fde(p))) => {
                let off = p.offset();
                let len = p.entry_len();
                let cie_off: usize = gimli::read::UnwindOffset::into(p.cie_offset());
                let full = p.parse(Sec::cie_from_offset).map(|f| (got_fde(sec, bases, &f, sect), got_cie(sec, bases, f.cie(), sect)));
                items.push(Got::Fde { off, len, cie_off, full });
            }
        }
    };
    Scan { items, end }
}
