//! C06: unwind table rows equal DWARF call-frame semantics.
use super::enc::{self, Bases, Builder, CieSpec, FdeSpec, Insn, Kind};
use super::glue::{self, Sl};
use super::model::{MErr, MI};
use gimli::read::{BaseAddresses, CieOrFde, DebugFrame, EhFrame, RegisterRule, StoreOnHeap, UnwindContextStorage, UnwindSection, UnwindTableRow};
use gimli::{ReaderOffset, Register, Vendor};
use mcx::space::{seq_count, seq_decode, Mix};
use mcx::{CheckDef, Ctx, Sub, Tier};

/// Fixed-capacity storage: `S` rows on the state stack, `R` rules per row.
#[derive(Clone, Debug, PartialEq, Eq)]
pub struct St<const S: usize, const R: usize>;
impl<T: ReaderOffset, const S: usize, const R: usize> UnwindContextStorage<T> for St<S, R> {
    type Rules = [(Register, RegisterRule<T>); R];
    type Stack = [UnwindTableRow<T, Self>; S];
}
/// Growable storage (documented as allowed: "a Vec-based stack which can grow as needed").
#[derive(Clone, Debug, PartialEq, Eq)]
pub struct StVec;
impl<T: ReaderOffset> UnwindContextStorage<T> for StVec {
    type Rules = Vec<(Register, RegisterRule<T>)>;
    type Stack = Vec<UnwindTableRow<T, Self>>;
}

const START: u64 = 0x1000;
const LEN: u64 = 0x100;

const EXPR_A: &[u8] = &[0x77, 0x08]; // DW_OP_breg7 8
const EXPR_B: &[u8] = &[0x91, 0x70, 0x06]; // DW_OP_fbreg -16; DW_OP_deref
const EXPR_C: &[u8] = &[]; // empty block

/// The 27-symbol alphabet A of DESIGN C06.
pub fn alphabet() -> Vec<Insn> {
    use Insn::*;
    vec![
        AdvanceLoc(1),
        AdvanceLoc1(3),
        SetLoc(START + 4),
        DefCfa(7, 8),
        DefCfaSf(6, -2),
        DefCfaRegister(6),
        DefCfaOffset(16),
        DefCfaOffsetSf(-1),
        DefCfaExpression(EXPR_A.to_vec()),
        Undefined(1),
        SameValue(1),
        Offset(1, 2),
        Offset(2, 3),
        OffsetExtendedSf(1, -1),
        ValOffset(2, 1),
        ValOffsetSf(2, -1),
        Register(1, 2),
        Expression(1, EXPR_B.to_vec()),
        ValExpression(2, EXPR_C.to_vec()),
        Restore(1),
        Restore(2),
        RestoreExtended(3),
        RememberState,
        RestoreState,
        GnuArgsSize(8),
        NegateRaState,
        Nop,
    ]
}

/// 12-symbol core used for the longest programs.
const CORE: [usize; 12] = [0, 3, 5, 8, 11, 12, 16, 19, 20, 22, 23, 25];

const PROBE: [u16; 6] = [0, 1, 2, 3, 34, 99];

#[derive(Clone, Copy, Debug)]
pub struct Cfg {
    pub kind: Kind,
    pub caf: u64,
    pub daf: i64,
    pub aarch64: bool,
    pub addr: u8,
    pub version: u8,
    pub big: bool,
}

impl Cfg {
    fn render(&self) -> String {
        format!(
            "{:?} v{} addr{} {} caf={} daf={} vendor={}",
            self.kind,
            self.version,
            self.addr,
            if self.big { "BE" } else { "LE" },
            self.caf,
            self.daf,
            if self.aarch64 { "AArch64" } else { "Default" }
        )
    }
}

pub struct Built {
    pub bytes: Vec<u8>,
    pub cie_exprs: Vec<Option<(usize, usize)>>,
    pub fde_exprs: Vec<Option<(usize, usize)>>,
}

pub fn build(cfg: &Cfg, cie_p: &[Insn], fde_p: &[Insn], start: u64, len: u64) -> Built {
    let mut b = Builder::new(cfg.kind, cfg.big, Bases::default());
    let mut c = CieSpec::plain(cfg.version, cfg.addr);
    c.caf = cfg.caf;
    c.daf = cfg.daf;
    c.insns = cie_p.to_vec();
    let co = b.cie(&c);
    let f = FdeSpec::simple(co.off, start, len, fde_p.to_vec(), cfg.addr as usize);
    let fo = b.fde(&f, &c);
    Built { bytes: b.e.buf, cie_exprs: co.exprs, fde_exprs: fo.exprs }
}

/// Which storage a table is evaluated with.
#[derive(Clone, Copy, Debug, PartialEq, Eq)]
pub enum Store {
    Heap,
    Vec,
    Fixed(usize, usize),
}

impl Store {
    fn caps(&self) -> (Option<usize>, Option<usize>) {
        match self {
            // documented: StoreOnHeap = 4 rows, 192 rules
            Store::Heap => (Some(4), Some(192)),
            Store::Vec => (None, None),
            Store::Fixed(s, r) => (Some(*s), Some(*r)),
        }
    }
}

fn run_store<'a, Sec: UnwindSection<Sl<'a>>>(
    store: Store,
    sec: &Sec,
    bases: &BaseAddresses,
    fde: &gimli::read::FrameDescriptionEntry<Sl<'a>>,
    sect: &[u8],
    probe: &[u16],
    max_rows: usize,
) -> Result<glue::Obs, mcx::Panic> {
    macro_rules! go {
        ($t:ty) => {
            glue::run_table::<Sec, $t>(sec, bases, fde, sect, probe, max_rows)
        };
    }
    match store {
        Store::Heap => go!(StoreOnHeap),
        Store::Vec => go!(StVec),
        Store::Fixed(1, 1) => go!(St<1, 1>),
        Store::Fixed(1, 2) => go!(St<1, 2>),
        Store::Fixed(1, 3) => go!(St<1, 3>),
        Store::Fixed(1, 192) => go!(St<1, 192>),
        Store::Fixed(2, 1) => go!(St<2, 1>),
        Store::Fixed(2, 2) => go!(St<2, 2>),
        Store::Fixed(2, 3) => go!(St<2, 3>),
        Store::Fixed(2, 192) => go!(St<2, 192>),
        Store::Fixed(3, 1) => go!(St<3, 1>),
        Store::Fixed(3, 2) => go!(St<3, 2>),
        Store::Fixed(3, 3) => go!(St<3, 3>),
        Store::Fixed(3, 192) => go!(St<3, 192>),
        Store::Fixed(4, 1) => go!(St<4, 1>),
        Store::Fixed(4, 2) => go!(St<4, 2>),
        Store::Fixed(4, 3) => go!(St<4, 3>),
        Store::Fixed(4, 192) => go!(St<4, 192>),
        Store::Fixed(5, 1) => go!(St<5, 1>),
        Store::Fixed(5, 2) => go!(St<5, 2>),
        Store::Fixed(5, 3) => go!(St<5, 3>),
        Store::Fixed(5, 192) => go!(St<5, 192>),
        Store::Fixed(s, r) => panic!("no storage instantiated for {}x{}", s, r),
    }
}

pub struct Case<'a> {
    pub cfg: Cfg,
    pub cie_p: &'a [Insn],
    pub fde_p: &'a [Insn],
    pub start: u64,
    pub len: u64,
    pub store: Store,
}

impl<'a> Case<'a> {
    fn render(&self, bytes: &[u8]) -> String {
        format!(
            "{} storage={:?} fde=[{:#x},+{:#x}) CIE{} FDE{} section={}",
            self.cfg.render(),
            self.store,
            self.start,
            self.len,
            enc::render_prog(self.cie_p),
            enc::render_prog(self.fde_p),
            mcx::hex(bytes)
        )
    }
}

/// Build the section, run the real table, run the model, compare. Returns
/// the model outcome (for coverage accounting by the caller).
pub fn check_case(ctx: &mut Ctx, case: &Case) -> Option<super::model::Outcome> {
    let cfg = &case.cfg;
    let built = build(cfg, case.cie_p, case.fde_p, case.start, case.len);
    let bytes = &built.bytes;
    let bases = BaseAddresses::default();
    let end = case.start.wrapping_add(case.len) & enc::mask(cfg.addr);
    let cie_mi: Vec<MI> = glue::to_mis(case.cie_p, &built.cie_exprs, cfg.caf, cfg.daf, cfg.aarch64, cfg.addr);
    let fde_mi: Vec<MI> = glue::to_mis(case.fde_p, &built.fde_exprs, cfg.caf, cfg.daf, cfg.aarch64, cfg.addr);
    let max_rows = case.fde_p.len() + 2;
    let vendor = if cfg.aarch64 { Vendor::AArch64 } else { Vendor::Default };
    ctx.eval(1);

    let entry;
    let obs = match cfg.kind {
        Kind::DebugFrame => {
            entry = "DebugFrame::UnwindTable::next_row";
            let mut sec = DebugFrame::new(bytes, glue::endian(cfg.big));
            // a version 4 CIE carries its own address size: give the section a DIFFERENT default
            // there (it is only the fallback for versions below 4)
            sec.set_address_size(if cfg.version >= 4 { if cfg.addr == 8 { 4 } else { 8 } } else { cfg.addr });
            sec.set_vendor(vendor);
            let fde = match mcx::guard(|| get_fde(&sec, &bases)) {
                Ok(Ok(f)) => f,
                Ok(Err(e)) => {
                    ctx.fail(entry, "entry-parse", "rejected-well-formed-entry", format!("{}: {}", case.render(bytes), e));
                    return None;
                }
                Err(p) => {
                    ctx.fail_panic(entry, &p, case.render(bytes));
                    return None;
                }
            };
            run_store(case.store, &sec, &bases, &fde, bytes, &PROBE, max_rows)
        }
        Kind::EhFrame => {
            entry = "EhFrame::UnwindTable::next_row";
            let mut sec = EhFrame::new(bytes, glue::endian(cfg.big));
            sec.set_address_size(cfg.addr);
            sec.set_vendor(vendor);
            let fde = match mcx::guard(|| get_fde(&sec, &bases)) {
                Ok(Ok(f)) => f,
                Ok(Err(e)) => {
                    ctx.fail(entry, "entry-parse", "rejected-well-formed-entry", format!("{}: {}", case.render(bytes), e));
                    return None;
                }
                Err(p) => {
                    ctx.fail_panic(entry, &p, case.render(bytes));
                    return None;
                }
            };
            run_store(case.store, &sec, &bases, &fde, bytes, &PROBE, max_rows)
        }
    };
    let obs = match obs {
        Ok(o) => o,
        Err(p) => {
            ctx.fail_panic(entry, &p, case.render(bytes));
            return None;
        }
    };
    if let Some(c) = &obs.conv {
        ctx.fail(entry, "row-representation", "unrepresentable-row", format!("{}: {}", case.render(bytes), c));
        return None;
    }
    if obs.runaway {
        ctx.fail(entry, "termination", "more-rows-than-instructions", format!("{}: {}", case.render(bytes), glue::render_obs(&obs)));
        return None;
    }
    let (s, r) = case.store.caps();
    let (m, d) = glue::judge(&obs, &cie_mi, &fde_mi, case.start, end, cfg.addr, s, r);
    // location instructions inside a CIE have no defined meaning: an address
    // error reported for them is accepted
    let cie_loc_latitude = m.cie_loc && obs.init_err && matches!(obs.err, Some(gimli::Error::AddressOverflow) | Some(gimli::Error::InvalidCfiSetLoc(_)));
    if cie_loc_latitude {
        ctx.outcome("latitude:cie-location-error");
        return Some(m);
    }
    if let Some(clause) = d {
        ctx.fail(
            entry,
            clause,
            "differs-from-cfa-model",
            format!("{}\n  gimli: {}\n  model: {}", case.render(bytes), glue::render_obs(&obs), glue::render_outcome(&m)),
        );
        return Some(m);
    }
    if let Some(clause) = glue::structure(&obs, case.start, end) {
        ctx.fail(entry, clause, "structural-invariant", format!("{}\n  gimli: {}", case.render(bytes), glue::render_obs(&obs)));
    }
    if ctx.verbose {
        ctx.log(&format!("CASE {}\n  gimli: {}\n  model: {}", case.render(bytes), glue::render_obs(&obs), glue::render_outcome(&m)));
    }
    Some(m)
}

fn get_fde<'a, Sec: UnwindSection<Sl<'a>>>(sec: &Sec, bases: &BaseAddresses) -> Result<gimli::read::FrameDescriptionEntry<Sl<'a>>, String> {
    let mut it = sec.entries(bases);
    loop {
        match it.next() {
            Ok(Some(CieOrFde::Cie(_))) => continue,
            Ok(Some(CieOrFde::Fde(p))) => return p.parse(Sec::cie_from_offset).map_err(|e| format!("FDE parse: {:?}", e)),
            Ok(None) => return Err("no FDE reported".into()),
            Err(e) => return Err(format!("entries: {:?}", e)),
        }
    }
}

fn account(ctx: &mut Ctx, m: &super::model::Outcome) {
    glue::count_outcomes(ctx, m);
    for r in &m.rows {
        for rule in r.row.regs.values() {
            ctx.outcome(&format!("rule:{}", rule.variant()));
        }
        match r.row.cfa {
            super::model::MCfa::RegOff(..) => ctx.outcome("cfa:register+offset"),
            super::model::MCfa::Expr(_) => ctx.outcome("cfa:expression"),
        }
    }
}

fn configs(extreme: bool) -> Vec<Cfg> {
    let factors: Vec<(u64, i64)> = if extreme { vec![(1, -8), (4, 1), (0, 0), (1 << 63, i64::MIN)] } else { vec![(1, -8), (4, 1)] };
    let mut v = vec![];
    for &(caf, daf) in &factors {
        for aarch64 in [false, true] {
            for kind in [Kind::DebugFrame, Kind::EhFrame] {
                v.push(Cfg { kind, caf, daf, aarch64, addr: 8, version: if kind == Kind::EhFrame { 1 } else { 4 }, big: false });
            }
        }
    }
    v
}

/// Sub 1: every (CIE program, FDE program) pair over the alphabet.
fn sub_pairs(tier: Tier) -> Vec<Sub> {
    let alpha = alphabet();
    let n = alpha.len() as u64;
    let mut subs = vec![];
    // (name, cie min..max, fde max, with the extreme factor pairs (0,0) and (2^63,-2^63))
    let plans: Vec<(&str, u32, u32, u32, bool)> = tier.pick(
        vec![("pairs-cie01-fde3", 0, 1, 3, false), ("pairs-cie2-fde2", 2, 2, 2, false)],
        vec![("pairs-cie01-fde3", 0, 1, 3, true), ("pairs-cie2-fde3", 2, 2, 3, false)],
    );
    let cfgs_long = configs(tier == Tier::Thorough);
    for (name, cmin, cmax, fmax, extreme) in plans {
        let nc = seq_count(n, cmin, cmax);
        let nf = seq_count(n, 0, fmax);
        let alpha = alpha.clone();
        let mut cfgs = configs(extreme);
        if cmin == 2 && fmax == 3 {
            // the largest space: one factor pair (the other one is covered by all shorter pairs)
            cfgs.retain(|c| c.caf == 1);
        }
        let factors_txt = if cmin == 2 && fmax == 3 { "{(1,-8)}" } else if extreme { "{(1,-8),(4,1),(0,0),(2^63,-2^63)}" } else { "{(1,-8),(4,1)}" };
        let ncfg = cfgs.len();
        subs.push(Sub::new(
            name,
            nc * nf,
            &format!(
                "every (CIE program, FDE program) with |CIE| in {}..={}, |FDE| <= {} over the 27-symbol alphabet; each under {} configurations = (CAF,DAF) in {} x vendor {{Default, AArch64}} x {{.debug_frame v4, .eh_frame v1}}, heap storage; the UnwindContext of every table was used before for two other FDEs (one leaving remembered states, rules and an argument size behind, one whose CIE fails after modifying the bottom row); version 4 sections are read with a default address size different from the CIE's own",
                cmin, cmax, fmax, ncfg, factors_txt
            ),
            move |ctx, i| {
                let ci = i % nc;
                let fi = i / nc;
                let cie_p: Vec<Insn> = seq_decode(n, cmin, cmax, ci).into_iter().map(|k| alpha[k].clone()).collect();
                let fde_p: Vec<Insn> = seq_decode(n, 0, fmax, fi).into_iter().map(|k| alpha[k].clone()).collect();
                let nontriv = cie_p.len() + fde_p.len() > 0;
                // every table of this sub-space is evaluated on a context that was used before
                // (glue::preuse_context), never on a fresh one
                glue::PREUSE.with(|p| p.set(true));
                for cfg in &cfgs {
                    let case = Case { cfg: *cfg, cie_p: &cie_p, fde_p: &fde_p, start: START, len: LEN, store: Store::Heap };
                    if let Some(m) = check_case(ctx, &case) {
                        account(ctx, &m);
                        if nontriv {
                            ctx.nontriv(1);
                        }
                        if ctx.want_sample() && crate::glue::sample_here(i, 59) {
                            let b = build(cfg, &cie_p, &fde_p, START, LEN);
                            ctx.sample(format!("{} => {}", case.render(&b.bytes), glue::render_outcome(&m)));
                        }
                    }
                }
                glue::PREUSE.with(|p| p.set(false));
            },
        ));
    }
    // longest programs over the core alphabet
    {
        let core: Vec<Insn> = CORE.iter().map(|&k| alpha[k].clone()).collect();
        let k = core.len() as u64;
        let (cmax, flen) = tier.pick((0u32, 4u32), (1u32, 5u32));
        let nc = seq_count(k, 0, cmax);
        let nf = k.pow(flen);
        let cfgs = cfgs_long.clone();
        let ncfg = cfgs.len();
        subs.push(Sub::new(
            "pairs-core-long",
            nc * nf,
            &format!("every (CIE, FDE) with |CIE| <= {}, |FDE| = {} over the 12-symbol core alphabet; {} configurations each", cmax, flen, ncfg),
            move |ctx, i| {
                let ci = i % nc;
                let fi = i / nc;
                let cie_p: Vec<Insn> = seq_decode(k, 0, cmax, ci).into_iter().map(|x| core[x].clone()).collect();
                let fde_p: Vec<Insn> = seq_decode(k, flen, flen, fi).into_iter().map(|x| core[x].clone()).collect();
                for cfg in &cfgs {
                    let case = Case { cfg: *cfg, cie_p: &cie_p, fde_p: &fde_p, start: START, len: LEN, store: Store::Heap };
                    if let Some(m) = check_case(ctx, &case) {
                        account(ctx, &m);
                        ctx.nontriv(1);
                    }
                }
            },
        ));
    }
    subs
}

fn boundary_u64() -> Vec<u64> {
    vec![0, 1, 63, 64, 127, 128, 1 << 31, (1 << 32) - 1, 1 << 32, (1 << 63) - 1, 1 << 63, u64::MAX]
}
fn boundary_i64() -> Vec<i64> {
    vec![0, 1, -1, 63, 64, -64, -65, i32::MAX as i64, i32::MIN as i64, 1 << 32, i64::MAX, i64::MIN]
}
fn boundary_regs() -> Vec<u64> {
    vec![0, 1, 34, 63, 64, 65535, 65536, 1 << 32, u64::MAX]
}

/// Every instruction form with boundary operands.
fn operand_insns() -> Vec<Insn> {
    use Insn::*;
    let mut v = vec![];
    let us = boundary_u64();
    let is = boundary_i64();
    let rs = boundary_regs();
    for d in [0u8, 1, 62, 63] {
        v.push(AdvanceLoc(d));
    }
    for d in [0u8, 1, 127, 128, 255] {
        v.push(AdvanceLoc1(d));
    }
    for d in [0u16, 1, 255, 256, 0x7fff, 0x8000, 0xffff] {
        v.push(AdvanceLoc2(d));
    }
    for d in [0u32, 1, 0xffff, 0x10000, 0x7fff_ffff, 0x8000_0000, 0xffff_ffff] {
        v.push(AdvanceLoc4(d));
    }
    for r in &rs {
        for o in &us {
            v.push(DefCfa(*r, *o));
            v.push(OffsetExtended(*r, *o));
            v.push(ValOffset(*r, *o));
        }
        for o in &is {
            v.push(DefCfaSf(*r, *o));
            v.push(OffsetExtendedSf(*r, *o));
            v.push(ValOffsetSf(*r, *o));
        }
        v.push(DefCfaRegister(*r));
        v.push(Undefined(*r));
        v.push(SameValue(*r));
        v.push(RestoreExtended(*r));
        v.push(Expression(*r, EXPR_B.to_vec()));
        v.push(ValExpression(*r, EXPR_A.to_vec()));
        v.push(Expression(*r, vec![]));
        for s in &rs {
            v.push(Register(*r, *s));
        }
    }
    for o in &us {
        v.push(DefCfaOffset(*o));
        v.push(GnuArgsSize(*o));
        for r in [0u8, 1, 34, 63] {
            v.push(Offset(r, *o));
        }
    }
    for o in &is {
        v.push(DefCfaOffsetSf(*o));
    }
    for r in [0u8, 1, 34, 63] {
        v.push(Restore(r));
    }
    v.push(DefCfaExpression(vec![]));
    v.push(DefCfaExpression(EXPR_A.to_vec()));
    v.push(DefCfaExpression(vec![0x90; 200])); // 2-byte block length
    v.push(RememberState);
    v.push(RestoreState);
    v.push(Nop);
    // every primary-opcode-0 byte 0x00..0x3f that is not one of the above
    // is covered by the `opcodes` sub
    v
}

/// Sub 2: operand sweep. Each instruction form alone (in the FDE, preceded and
/// followed by an advance so that the rule lands in a middle row, and in the
/// CIE) under the full factor set.
fn sub_operands(_tier: Tier) -> Sub {
    let insns = operand_insns();
    let factors: Vec<(u64, i64)> = vec![(1, 1), (1, -8), (4, 8), (0, 0), (3, -1), (1 << 63, i64::MIN), (u64::MAX, i64::MAX)];
    let n = insns.len() as u64;
    let nf = factors.len() as u64;
    Sub::new(
        "operands",
        n * nf * 2,
        "each instruction form alone with operands from {0,1,63,64,127,128,2^31,2^32-1,2^32,2^63-1,2^63,2^64-1} (signed: +-1,+-64,-65,i32/i64 min/max), registers {0,1,34,63,64,65535,65536,2^32,2^64-1}, placed in the FDE (between two advances) or in the CIE, x 7 (CAF,DAF) pairs incl. 0, negative, 2^63, 2^64-1 x vendor x {.debug_frame v3/v4, .eh_frame v1} x {LE,BE}",
        move |ctx, i| {
            let mut mx = Mix(i);
            let insn = mx.pick(&insns).clone();
            let (caf, daf) = *mx.pick(&factors);
            let in_cie = mx.flag();
            for aarch64 in [false, true] {
                for (kind, version, big) in [(Kind::DebugFrame, 4u8, false), (Kind::DebugFrame, 3, true), (Kind::EhFrame, 1, false), (Kind::EhFrame, 1, true)] {
                    let cfg = Cfg { kind, caf, daf, aarch64, addr: 8, version, big };
                    let (cie_p, fde_p) = if in_cie {
                        (vec![insn.clone()], vec![Insn::AdvanceLoc(1), Insn::Restore(1), Insn::RestoreExtended(64)])
                    } else {
                        (vec![Insn::Offset(1, 1)], vec![Insn::AdvanceLoc(1), insn.clone(), Insn::AdvanceLoc(2)])
                    };
                    let case = Case { cfg, cie_p: &cie_p, fde_p: &fde_p, start: START, len: LEN, store: Store::Heap };
                    if let Some(m) = check_case(ctx, &case) {
                        account(ctx, &m);
                        ctx.nontriv(1);
                        if ctx.want_sample() && crate::glue::sample_here(i, 47) {
                            let b = build(&cfg, &cie_p, &fde_p, START, LEN);
                            ctx.sample(format!("{} => {}", case.render(&b.bytes), glue::render_outcome(&m)));
                        }
                    }
                }
            }
        },
    )
}

/// Register operands where a wrongly decoded register number changes the rows: every register the
/// number could be confused with has its own initial rule and its own current rule.
fn sub_register_context(_tier: Tier) -> Sub {
    let regs: [u64; 14] = [0, 1, 2, 62, 63, 64, 65, 127, 128, 129, 16383, 16384, 16385, 65535];
    let kinds = 14u64;
    Sub::new(
        "register-operands-in-context",
        regs.len() as u64 * kinds * 2,
        "register r in {0,1,2,62,63,64,65,127,128,129,16383,16384,16385,65535} x instruction {restore (r<64), restore_extended, undefined, same_value, offset (r<64), offset_extended, offset_extended_sf, val_offset, val_offset_sf, register(r,3), register(3,r), expression, val_expression, def_cfa_register} x placed {in the FDE after a row that changed every context register, in the CIE after the context}; context = distinct offset rules in the CIE and distinct register rules in the FDE for {0, 1, r, r-1, r+1, r mod 64, r mod 128, r/2, 64}; .debug_frame v4 and .eh_frame v1, LE/BE",
        move |ctx, i| {
            let mut mx = Mix(i);
            let r = *mx.pick(&regs);
            let k = mx.take(kinds);
            let in_cie = mx.flag();
            use Insn::*;
            let insn = match k {
                0 if r < 64 => Restore(r as u8),
                0 => RestoreExtended(r),
                1 => RestoreExtended(r),
                2 => Undefined(r),
                3 => SameValue(r),
                4 if r < 64 => Offset(r as u8, 77),
                4 => OffsetExtended(r, 77),
                5 => OffsetExtended(r, 78),
                6 => OffsetExtendedSf(r, -79),
                7 => ValOffset(r, 80),
                8 => ValOffsetSf(r, -81),
                9 => Register(r, 3),
                10 => Register(3, r),
                11 => Expression(r, EXPR_B.to_vec()),
                12 => ValExpression(r, EXPR_C.to_vec()),
                _ => DefCfaRegister(r),
            };
            let mut cregs: Vec<u64> = vec![0, 1, r, r.wrapping_sub(1) & 0xffff, r + 1, r % 64, r % 128, r / 2, 64];
            cregs.sort();
            cregs.dedup();
            let mut cie_p = vec![DefCfa(7, 8)];
            for (n, &x) in cregs.iter().enumerate() {
                cie_p.push(OffsetExtended(x, 10 + n as u64));
            }
            let mut fde_p = vec![];
            if in_cie {
                cie_p.push(insn);
                fde_p.push(AdvanceLoc(1));
                fde_p.push(RestoreExtended(r));
                fde_p.push(AdvanceLoc(1));
            } else {
                fde_p.push(AdvanceLoc(1));
                for (n, &x) in cregs.iter().enumerate() {
                    fde_p.push(Register(x, 200 + n as u64));
                }
                fde_p.push(AdvanceLoc(1));
                fde_p.push(insn);
                fde_p.push(AdvanceLoc(1));
            }
            for (kind, version, big) in [(Kind::DebugFrame, 4u8, false), (Kind::EhFrame, 1, true)] {
                let cfg = Cfg { kind, caf: 1, daf: -8, aarch64: false, addr: 8, version, big };
                let case = Case { cfg, cie_p: &cie_p, fde_p: &fde_p, start: START, len: LEN, store: Store::Heap };
                if let Some(m) = check_case(ctx, &case) {
                    account(ctx, &m);
                    ctx.nontriv(1);
                    if ctx.want_sample() && crate::glue::sample_here(i, 53) {
                        let b = build(&cfg, &cie_p, &fde_p, START, LEN);
                        ctx.sample(format!("{} => {}", case.render(&b.bytes), glue::render_outcome(&m)));
                    }
                }
            }
        },
    )
}

/// Sub 3: all 256 opcode bytes as the only FDE instruction (operand bytes
/// follow so that known opcodes find well-formed operands).
fn sub_opcodes(_tier: Tier) -> Sub {
    Sub::new(
        "opcodes",
        256 * 2,
        "each of the 256 first bytes as an instruction (with minimal valid operands if it is a defined opcode) in the FDE, x vendor: defined opcodes produce their rule, every other byte is UnknownCallFrameInstruction",
        move |ctx, i| {
            let op = (i / 2) as u8;
            let aarch64 = i % 2 == 1;
            use Insn::*;
            let insn = match op {
                0x40..=0x7f => AdvanceLoc(op & 0x3f),
                0x80..=0xbf => Offset(op & 0x3f, 5),
                0xc0..=0xff => Restore(op & 0x3f),
                enc::CFA_NOP => Nop,
                enc::CFA_SET_LOC => SetLoc(START + 0x20),
                enc::CFA_ADVANCE_LOC1 => AdvanceLoc1(9),
                enc::CFA_ADVANCE_LOC2 => AdvanceLoc2(9),
                enc::CFA_ADVANCE_LOC4 => AdvanceLoc4(9),
                enc::CFA_OFFSET_EXTENDED => OffsetExtended(70, 5),
                enc::CFA_RESTORE_EXTENDED => RestoreExtended(70),
                enc::CFA_UNDEFINED => Undefined(70),
                enc::CFA_SAME_VALUE => SameValue(70),
                enc::CFA_REGISTER => Register(70, 71),
                enc::CFA_REMEMBER_STATE => RememberState,
                enc::CFA_RESTORE_STATE => RestoreState,
                enc::CFA_DEF_CFA => DefCfa(70, 5),
                enc::CFA_DEF_CFA_REGISTER => DefCfaRegister(70),
                enc::CFA_DEF_CFA_OFFSET => DefCfaOffset(5),
                enc::CFA_DEF_CFA_EXPRESSION => DefCfaExpression(EXPR_A.to_vec()),
                enc::CFA_EXPRESSION => Expression(70, EXPR_A.to_vec()),
                enc::CFA_OFFSET_EXTENDED_SF => OffsetExtendedSf(70, -5),
                enc::CFA_DEF_CFA_SF => DefCfaSf(70, -5),
                enc::CFA_DEF_CFA_OFFSET_SF => DefCfaOffsetSf(-5),
                enc::CFA_VAL_OFFSET => ValOffset(70, 5),
                enc::CFA_VAL_OFFSET_SF => ValOffsetSf(70, -5),
                enc::CFA_VAL_EXPRESSION => ValExpression(70, EXPR_A.to_vec()),
                enc::CFA_GNU_ARGS_SIZE => GnuArgsSize(24),
                enc::CFA_AARCH64_NEGATE_RA_STATE => NegateRaState,
                other => Raw(other),
            };
            for kind in [Kind::DebugFrame, Kind::EhFrame] {
                let cfg = Cfg { kind, caf: 2, daf: -4, aarch64, addr: 8, version: if kind == Kind::EhFrame { 1 } else { 4 }, big: false };
                let cie_p = vec![DefCfa(7, 8), Offset(16, 1)];
                // trailing bytes after an unknown opcode must not be interpreted
                let fde_p = vec![RememberState, AdvanceLoc(1), insn.clone(), AdvanceLoc(1), Undefined(5)];
                let case = Case { cfg, cie_p: &cie_p, fde_p: &fde_p, start: START, len: LEN, store: Store::Heap };
                if let Some(m) = check_case(ctx, &case) {
                    account(ctx, &m);
                    ctx.nontriv(1);
                    match &m.err {
                        Some(MErr::Unknown(_)) => ctx.outcome("opcode:unknown"),
                        _ => ctx.outcome("opcode:defined"),
                    }
                }
            }
        },
    )
}

/// Sub 4: locations. Address sizes 1,2,4,8; advances that stay inside, reach
/// exactly, and pass the top of the address space; set_loc backwards / equal /
/// forwards; FDE ranges at the top of the address space.
fn sub_locations(_tier: Tier) -> Sub {
    // (start offset below top, advances)
    let sizes = [1u8, 2, 4, 8];
    let starts_below_top: [u64; 4] = [0x40, 0x10, 0x2, 0x1];
    let progs: Vec<Vec<Insn>> = {
        use Insn::*;
        vec![
            vec![AdvanceLoc(1)],
            vec![AdvanceLoc(0x3f)],
            vec![AdvanceLoc(0xf), DefCfaOffset(8), AdvanceLoc(1)],
            vec![AdvanceLoc(0x10)],
            vec![AdvanceLoc1(0x3f), AdvanceLoc(1)],
            vec![AdvanceLoc1(0x40)],
            vec![AdvanceLoc1(0xff)],
            vec![AdvanceLoc2(0x100)],
            vec![AdvanceLoc2(0xffff)],
            vec![AdvanceLoc4(0x10000)],
            vec![AdvanceLoc4(0xffff_ffff)],
            vec![AdvanceLoc4(0xffff_ffff), AdvanceLoc4(1)],
            vec![AdvanceLoc(0), AdvanceLoc(0)],
        ]
    };
    let setlocs: [i64; 7] = [-1, 0, 1, 2, 0xf, 0x10, 0x3f];
    let np = progs.len() as u64 + setlocs.len() as u64 * 2;
    Sub::new(
        "locations",
        4 * 4 * np * 3,
        "address sizes {1,2,4,8} x FDE start at top-of-address-space minus {0x40,0x10,2,1} x 13 advance programs + set_loc to start+{-1,0,1,2,15,16,63} (after 0 or 1 advance) x CAF {1,2,2^63}: rows, AddressOverflow exactly when a location does not fit the address size, InvalidCfiSetLoc exactly when the target is below the current location",
        move |ctx, i| {
            let mut mx = Mix(i);
            let addr = *mx.pick(&sizes);
            let below = *mx.pick(&starts_below_top);
            let pi = mx.take(np) as usize;
            let caf = *mx.pick(&[1u64, 2, 1 << 63]);
            let top = enc::mask(addr);
            // the FDE starts `below` bytes below the top: start + below == 2^(8*addr)
            let start = top - (below - 1);
            let len = below.min(0x20);
            let fde_p: Vec<Insn> = if pi < progs.len() {
                progs[pi].clone()
            } else {
                let k = pi - progs.len();
                let d = setlocs[k % setlocs.len()];
                let target = (start as i128 + d as i128) as u64 & top;
                if k >= setlocs.len() {
                    vec![Insn::AdvanceLoc(1), Insn::SetLoc(target), Insn::SameValue(3)]
                } else {
                    vec![Insn::SetLoc(target), Insn::SameValue(3)]
                }
            };
            for kind in [Kind::DebugFrame, Kind::EhFrame] {
                // .debug_frame v4 carries the address size in the CIE; .eh_frame takes it from the section
                let cfg = Cfg { kind, caf, daf: 1, aarch64: false, addr, version: if kind == Kind::EhFrame { 1 } else { 4 }, big: i % 2 == 1 };
                let cie_p = vec![Insn::DefCfa(7, 8)];
                let case = Case { cfg, cie_p: &cie_p, fde_p: &fde_p, start, len, store: Store::Heap };
                if let Some(m) = check_case(ctx, &case) {
                    account(ctx, &m);
                    ctx.nontriv(1);
                    if ctx.want_sample() && crate::glue::sample_here(i, 7) {
                        let b = build(&cfg, &cie_p, &fde_p, start, len);
                        ctx.sample(format!("{} => {}", case.render(&b.bytes), glue::render_outcome(&m)));
                    }
                }
            }
        },
    )
}

/// Sub 5: storage limits.
fn sub_storage(_tier: Tier) -> Sub {
    let stacks = [1usize, 2, 3, 4, 5];
    let rules = [1usize, 2, 3, 192];
    let mut stores: Vec<Store> = vec![Store::Heap, Store::Vec];
    for s in stacks {
        for r in rules {
            stores.push(Store::Fixed(s, r));
        }
    }
    // programs: (initial rules in CIE 0/1/2/3, remembers inside the CIE 0/1, k nested remembers in the FDE,
    //            then restores j, distinct registers n)
    let ns = stores.len() as u64;
    Sub::new(
        "storage",
        ns * 4 * 2 * 8 * 3 * 8,
        "storages {heap(4x192), Vec, [s rows] x [r rules] for s in 1..=5, r in {1,2,3,192}} x CIE with 0/1/2/3 initial rules x 0/1 remember_state left open in the CIE x k = 0..7 nested remember_state in the FDE x {no, k, k+1} restore_state x rule-count plan {0, r-1, r, r+1 distinct registers (r = capacity), 1+restore, overwrite, negate_ra at capacity, restore_extended at capacity}",
        move |ctx, i| {
            let mut mx = Mix(i);
            let store = *mx.pick(&stores);
            let init_rules = mx.take(4) as usize;
            let cie_rem = mx.take(2) as usize;
            let k = mx.take(8) as usize;
            let pops = mx.take(3) as usize;
            let plan = mx.take(8) as usize;
            let (_, rcap) = store.caps();
            let rcap = rcap.unwrap_or(6);
            use Insn::*;
            let mut cie_p = vec![DefCfa(7, 8)];
            for r in 0..init_rules {
                cie_p.push(Offset(10 + r as u8, 1 + r as u64));
            }
            for _ in 0..cie_rem {
                cie_p.push(RememberState);
            }
            let mut fde_p = vec![];
            let regs_for = |n: usize, v: &mut Vec<Insn>| {
                // n distinct registers not used by the CIE (100..), using the extended forms
                for r in 0..n {
                    if r % 2 == 0 {
                        v.push(OffsetExtended(100 + r as u64, r as u64));
                    } else {
                        v.push(Register(100 + r as u64, 7));
                    }
                }
            };
            let room = rcap.saturating_sub(init_rules);
            match plan {
                0 => {}
                1 => regs_for(room.saturating_sub(1), &mut fde_p),
                2 => regs_for(room, &mut fde_p),
                3 => regs_for(room + 1, &mut fde_p),
                4 => {
                    // fill, drop one initial rule, then one more register fits again
                    regs_for(room, &mut fde_p);
                    fde_p.push(Undefined(10));
                    fde_p.push(Restore(10));
                    fde_p.push(SameValue(300));
                }
                5 => {
                    regs_for(room, &mut fde_p);
                    // overwriting an existing rule never needs a new slot
                    fde_p.push(ValOffset(100, 3));
                    fde_p.push(Restore(10));
                }
                6 => {
                    regs_for(room, &mut fde_p);
                    fde_p.push(NegateRaState);
                }
                _ => {
                    regs_for(room, &mut fde_p);
                    fde_p.push(Restore(11));
                    fde_p.push(RestoreExtended(100));
                    fde_p.push(RestoreExtended(100));
                    fde_p.push(SameValue(301));
                    fde_p.push(SameValue(302));
                }
            }
            fde_p.push(AdvanceLoc(1));
            for d in 0..k {
                fde_p.push(RememberState);
                fde_p.push(DefCfaOffset(16 + d as u64));
                fde_p.push(AdvanceLoc(1));
            }
            let npop = match pops {
                0 => 0,
                1 => k,
                _ => k + cie_rem + 1,
            };
            for _ in 0..npop {
                fde_p.push(RestoreState);
                fde_p.push(AdvanceLoc(1));
            }
            if fde_p.len() > 450 {
                return;
            }
            for kind in [Kind::DebugFrame, Kind::EhFrame] {
                let cfg = Cfg { kind, caf: 1, daf: -8, aarch64: true, addr: 8, version: if kind == Kind::EhFrame { 1 } else { 4 }, big: false };
                let case = Case { cfg, cie_p: &cie_p, fde_p: &fde_p, start: START, len: 0x400, store };
                if let Some(m) = check_case(ctx, &case) {
                    account(ctx, &m);
                    ctx.nontriv(1);
                    ctx.outcome(&format!("storage:{}", match store {
                        Store::Heap => "heap",
                        Store::Vec => "vec",
                        Store::Fixed(..) => "fixed",
                    }));
                    if ctx.want_sample() && crate::glue::sample_here(i, 101) {
                        let b = build(&cfg, &cie_p, &fde_p, START, 0x400);
                        ctx.sample(format!("{} => {}", case.render(&b.bytes), glue::render_outcome(&m)));
                    }
                }
            }
        },
    )
}

pub fn def(tier: Tier) -> CheckDef {
    let mut subs = sub_pairs(tier);
    subs.push(sub_operands(tier));
    subs.push(sub_register_context(tier));
    subs.push(sub_opcodes(tier));
    subs.push(sub_locations(tier));
    subs.push(sub_storage(tier));
    let mut required: Vec<String> = vec!["rows:ok".into(), "cfa:register+offset".into(), "cfa:expression".into(), "opcode:unknown".into(), "opcode:defined".into(), "storage:heap".into(), "storage:vec".into(), "storage:fixed".into()];
    for e in ["InvalidContext", "PopWithEmptyStack", "InvalidCfiSetLoc", "AddressOverflow", "UnknownCallFrameInstruction", "UnsupportedRegister", "StackFull", "TooManyRegisterRules"] {
        required.push(format!("err:{}", e));
    }
    for r in ["undefined", "same_value", "offset", "val_offset", "register", "expression", "val_expression", "constant"] {
        required.push(format!("rule:{}", r));
    }
    CheckDef {
        level: "exploration",
        rule: "one evaluation = one unwind table (CIE program, FDE program, factors, vendor, section kind, address size, storage) built with the independent encoder, evaluated row by row with gimli (rows(), next_row until None/Err, registers(), register(r), cfa(), saved_args_size()) and compared field by field with the reference CFA machine; distinct = distinct (program pair, configuration); non-trivial = at least one instruction".into(),
        assumptions: vec![
            "factored offsets and advance deltas use wrapping 64-bit multiplication; def_cfa's unsigned offset is reinterpreted as i64 (gimli's CfaRule stores i64)".into(),
            "every advance_loc*/set_loc closes a row even if the delta is 0 (DWARF 6.4.2.1 'create a new table row'); set_loc equal to the current location is accepted, below it is InvalidCfiSetLoc".into(),
            "location instructions inside CIE initial instructions have no defined meaning: the model ignores them and an AddressOverflow/InvalidCfiSetLoc from gimli is accepted there".into(),
            "remember_state saves CFA rule + register rules; whether GNU_args_size is part of the saved state is unspecified: both readings accepted".into(),
            "capacity tolerance: the model runs with and without one reserved row slot (gimli keeps a private copy of the initial rules when the CIE sets more than one); either outcome is accepted; rule capacity counts explicit rules (an explicit 'undefined' counts, a register restored to the default does not)".into(),
            "after the first Err from next_row nothing further is compared; further calls must neither panic nor run away".into(),
            "register numbers above 65535 are UnsupportedRegister (gimli's documented Register(u16))".into(),
            "readelf -wF corpus comparison is out of family (not decided)".into(),
        ],
        subs,
        required_outcomes: required,
    }
}
