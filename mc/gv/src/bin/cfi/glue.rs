//! gimli-facing glue: run an unwind table on the real implementation and
//! convert what it reports into the model's vocabulary for comparison.
#![allow(dead_code)]

use super::enc::{self, Insn};
use super::model::{ExprRef, Limits, MCfa, MErr, MRow, MRule, Outcome, MI};
use gimli::read::{
    BaseAddresses, CfaRule, FrameDescriptionEntry, RegisterRule, UnwindContext, UnwindContextStorage, UnwindSection, UnwindTableRow,
};
use gimli::{EndianSlice, Register, RunTimeEndian};
use mcx::{guard, Ctx, Panic};
use std::collections::BTreeMap;

pub type Sl<'a> = EndianSlice<'a, RunTimeEndian>;

/// Which cases are offered as rendered samples: worker 0 (i % 16 == 0) keeps
/// the first two it is offered per sub; spread them away from the trivial
/// first indices.
pub fn sample_here(i: u64, k: u64) -> bool {
    i % 16 == 0 && (i / 16) % k == k / 2
}

pub fn endian(big: bool) -> RunTimeEndian {
    if big {
        RunTimeEndian::Big
    } else {
        RunTimeEndian::Little
    }
}

fn expr_ref(off: usize, len: usize, sect: &[u8]) -> Result<ExprRef, String> {
    match off.checked_add(len) {
        Some(e) if e <= sect.len() => Ok(ExprRef { bytes: sect[off..e].to_vec(), pos: Some(off as u64) }),
        _ => Err(format!("expression window {}+{} outside the section ({} bytes)", off, len, sect.len())),
    }
}

pub fn conv_rule(r: &RegisterRule<usize>, sect: &[u8]) -> Result<MRule, String> {
    Ok(match r {
        RegisterRule::Undefined => MRule::Undefined,
        RegisterRule::SameValue => MRule::SameValue,
        RegisterRule::Offset(o) => MRule::Offset(*o),
        RegisterRule::ValOffset(o) => MRule::ValOffset(*o),
        RegisterRule::Register(r) => MRule::Register(r.0),
        RegisterRule::Expression(e) => MRule::Expr(expr_ref(e.offset, e.length, sect)?),
        RegisterRule::ValExpression(e) => MRule::ValExpr(expr_ref(e.offset, e.length, sect)?),
        RegisterRule::Constant(v) => MRule::Constant(*v),
        RegisterRule::Architectural => return Err("Architectural rule (never produced by any instruction)".into()),
        #[allow(unreachable_patterns)]
        _ => return Err("unknown rule variant".into()),
    })
}

#[derive(Clone, Debug)]
pub struct ObsRow {
    pub start: u64,
    pub end: u64,
    pub row: MRow,
}

/// Convert a row; `probe` registers are additionally read through
/// `register(r)` and must agree with the `registers()` iteration.
pub fn conv_row<S: UnwindContextStorage<usize>>(row: &UnwindTableRow<usize, S>, sect: &[u8], probe: &[u16]) -> Result<ObsRow, String> {
    let cfa = match row.cfa() {
        CfaRule::RegisterAndOffset { register, offset } => MCfa::RegOff(register.0, *offset),
        CfaRule::Expression(e) => MCfa::Expr(expr_ref(e.offset, e.length, sect)?),
    };
    let mut regs = BTreeMap::new();
    for (r, rule) in row.registers() {
        if regs.insert(r.0, conv_rule(rule, sect)?).is_some() {
            return Err(format!("registers() yields r{} twice", r.0));
        }
    }
    for &p in probe {
        let got = match row.register(Register(p)) {
            None => None,
            Some(r) => Some(conv_rule(&r, sect)?),
        };
        if got.as_ref() != regs.get(&p) {
            return Err(format!("register(r{}) = {:?} but registers() has {:?}", p, got, regs.get(&p)));
        }
    }
    Ok(ObsRow { start: row.start_address(), end: row.end_address(), row: MRow { cfa, regs, args: row.saved_args_size() } })
}

#[derive(Debug, Default)]
pub struct Obs {
    pub rows: Vec<ObsRow>,
    pub err: Option<gimli::Error>,
    /// the error came from `rows()` (initial instructions), not from next_row
    pub init_err: bool,
    pub conv: Option<String>,
    /// next_row kept producing rows beyond this bound
    pub runaway: bool,
    /// after the first Err, what further calls returned (rows, errors)
    pub after_err: (usize, usize),
}

/// Execute the table for `fde` with storage `S` and record every row.
pub fn run_table<'a, Sec, S>(sec: &Sec, bases: &BaseAddresses, fde: &FrameDescriptionEntry<Sl<'a>>, sect: &[u8], probe: &[u16], max_rows: usize) -> Result<Obs, Panic>
where
    Sec: UnwindSection<Sl<'a>>,
    S: UnwindContextStorage<usize>,
{
    guard(|| {
        let mut obs = Obs::default();
        let mut ctx = UnwindContext::<usize, S>::new_in();
        if PREUSE.with(|p| p.get()) {
            preuse_context(&mut ctx);
        }
        let mut table = match fde.rows(sec, bases, &mut ctx) {
            Ok(t) => t,
            Err(e) => {
                obs.err = Some(e);
                obs.init_err = true;
                return obs;
            }
        };
        loop {
            match table.next_row() {
                Ok(None) => {
                    // the end of the table is final
                    for _ in 0..2 {
                        match table.next_row() {
                            Ok(None) => {}
                            Ok(Some(_)) => obs.conv = Some("a row was yielded when next_row was polled again after the end of the table".into()),
                            Err(e) => obs.conv = Some(format!("{:?} when next_row was polled again after the end of the table", e)),
                        }
                    }
                    break;
                }
                Ok(Some(row)) => match conv_row(row, sect, probe) {
                    Ok(r) => {
                        obs.rows.push(r);
                        if obs.rows.len() > max_rows {
                            obs.runaway = true;
                            break;
                        }
                    }
                    Err(s) => {
                        obs.conv = Some(s);
                        break;
                    }
                },
                Err(e) => {
                    obs.err = Some(e);
                    // Keep calling: must terminate and must not panic.
                    for _ in 0..max_rows + 2 {
                        match table.next_row() {
                            Ok(None) => break,
                            Ok(Some(_)) => obs.after_err.0 += 1,
                            Err(_) => obs.after_err.1 += 1,
                        }
                    }
                    break;
                }
            }
        }
        obs
    })
}

thread_local! {
    /// When set, `run_table` first uses its context for the FDEs of `dirty_section()`.
    pub static PREUSE: std::cell::Cell<bool> = const { std::cell::Cell::new(false) };
}

/// A small `.debug_frame` (32-bit, little endian, 4-byte addresses) whose evaluation leaves as
/// much behind in a context as possible: CIE A with two initial register rules, a CFA and an
/// argument size on the bottom row, FDE A1 with two unbalanced remember_state; CIE B whose
/// initial instructions set CFA, argument size and a rule and then fail (restore_state on an
/// empty stack) without having pushed anything, FDE B1.
pub fn dirty_section() -> Vec<u8> {
    fn entry(out: &mut Vec<u8>, body: &[u8]) {
        let mut b = body.to_vec();
        while (b.len() + 4) % 4 != 0 {
            b.push(0);
        }
        out.extend_from_slice(&(b.len() as u32).to_le_bytes());
        out.extend_from_slice(&b);
    }
    let mut out = vec![];
    let cie = |init: &[u8]| {
        let mut b = vec![0xff, 0xff, 0xff, 0xff, 1, 0, 1, 0x78, 16];
        b.extend_from_slice(init);
        b
    };
    let fde = |cie_off: u32, addr: u32, insns: &[u8]| {
        let mut b = cie_off.to_le_bytes().to_vec();
        b.extend_from_slice(&addr.to_le_bytes());
        b.extend_from_slice(&0x10u32.to_le_bytes());
        b.extend_from_slice(insns);
        b
    };
    // CIE A: def_cfa r7,8; GNU_args_size 16; offset r4,2; offset r5,3
    entry(&mut out, &cie(&[0x0c, 7, 8, 0x2e, 16, 0x84, 2, 0x85, 3]));
    let a1 = out.len();
    // FDE A1: advance 1; remember; def_cfa_offset 32; GNU_args_size 8; advance 1; remember; undefined r4
    entry(&mut out, &fde(0, 0x1000, &[0x41, 0x0a, 0x0e, 32, 0x2e, 8, 0x41, 0x0a, 0x07, 4]));
    let b = out.len();
    // CIE B: def_cfa r7,8; GNU_args_size 16; offset r4,2; restore_state (fails: nothing remembered)
    entry(&mut out, &cie(&[0x0c, 7, 8, 0x2e, 16, 0x84, 2, 0x0b]));
    let _ = a1;
    entry(&mut out, &fde(b as u32, 0x2000, &[0x41, 0x0e, 16]));
    out
}

/// Evaluate every FDE of `dirty_section()` on `ctx` (errors ignored), as an earlier user of
/// the context would have.
pub fn preuse_context<S: UnwindContextStorage<usize>>(ctx: &mut UnwindContext<usize, S>) {
    let bytes = dirty_section();
    let mut sec = gimli::read::DebugFrame::new(&bytes, RunTimeEndian::Little);
    sec.set_address_size(4);
    let bases = BaseAddresses::default();
    let mut it = sec.entries(&bases);
    while let Ok(Some(e)) = it.next() {
        if let gimli::read::CieOrFde::Fde(p) = e {
            if let Ok(f) = p.parse(gimli::read::DebugFrame::cie_from_offset) {
                if let Ok(mut t) = f.rows(&sec, &bases, ctx) {
                    let mut n = 0;
                    while let Ok(Some(_)) = t.next_row() {
                        n += 1;
                        if n > 16 {
                            break;
                        }
                    }
                }
            }
        }
    }
}

pub fn err_matches(g: &gimli::Error, m: &MErr) -> bool {
    match (g, m) {
        (gimli::Error::CfiInstructionInInvalidContext, MErr::InvalidContext) => true,
        (gimli::Error::PopWithEmptyStack, MErr::PopEmpty) => true,
        (gimli::Error::InvalidCfiSetLoc(a), MErr::SetLocBack(b)) => a == b,
        (gimli::Error::AddressOverflow, MErr::AddressOverflow) => true,
        (gimli::Error::UnknownCallFrameInstruction(op), MErr::Unknown(b)) => op.0 == *b,
        (gimli::Error::UnsupportedRegister(v), MErr::BadRegister(b)) => v == b,
        (gimli::Error::StackFull, MErr::StackFull) => true,
        (gimli::Error::TooManyRegisterRules, MErr::TooManyRules) => true,
        _ => false,
    }
}

pub fn render_row(start: u64, end: u64, r: &MRow) -> String {
    let cfa = match &r.cfa {
        MCfa::RegOff(reg, o) => format!("r{}{:+}", reg, o),
        MCfa::Expr(e) => format!("expr({}@{:?})", mcx::hex(&e.bytes), e.pos),
    };
    let regs: Vec<String> = r
        .regs
        .iter()
        .map(|(k, v)| {
            format!(
                "r{}={}",
                k,
                match v {
                    MRule::Undefined => "undef".to_string(),
                    MRule::SameValue => "same".to_string(),
                    MRule::Offset(o) => format!("cfa{:+}", o),
                    MRule::ValOffset(o) => format!("val(cfa{:+})", o),
                    MRule::Register(r) => format!("r{}", r),
                    MRule::Expr(e) => format!("expr({}@{:?})", mcx::hex(&e.bytes), e.pos),
                    MRule::ValExpr(e) => format!("valexpr({}@{:?})", mcx::hex(&e.bytes), e.pos),
                    MRule::Constant(c) => format!("const({})", c),
                }
            )
        })
        .collect();
    format!("[{:#x},{:#x}) cfa={} {{{}}} args={}", start, end, cfa, regs.join(","), r.args)
}

pub fn render_obs(o: &Obs) -> String {
    let rows: Vec<String> = o.rows.iter().map(|r| render_row(r.start, r.end, &r.row)).collect();
    format!("rows {:?} err {:?}{}", rows, o.err, if o.init_err { " (from rows())" } else { "" })
}

pub fn render_outcome(o: &Outcome) -> String {
    let rows: Vec<String> = o.rows.iter().map(|r| render_row(r.start, r.end, &r.row)).collect();
    format!("rows {:?} err {:?}{}", rows, o.err, if o.err_in_cie { " (in initial instructions)" } else { "" })
}

fn cfa_same(a: &MCfa, b: &MCfa) -> bool {
    match (a, b) {
        (MCfa::Expr(x), MCfa::Expr(y)) => x.same(y),
        _ => a == b,
    }
}

fn row_same(o: &ObsRow, m: &super::model::OutRow) -> Option<&'static str> {
    if o.start != m.start || o.end != m.end {
        return Some("row-address");
    }
    if !cfa_same(&o.row.cfa, &m.row.cfa) {
        return Some("cfa-rule");
    }
    if o.row.regs.len() != m.row.regs.len() || o.row.regs.iter().any(|(k, v)| m.row.regs.get(k).map(|w| v.same(w)) != Some(true)) {
        return Some("register-rule");
    }
    if o.row.args != m.row.args && o.row.args != m.args_alt {
        return Some("args-size");
    }
    None
}

pub fn diff_row(o: &ObsRow, m: &super::model::OutRow) -> Option<&'static str> {
    row_same(o, m)
}

/// First difference between what gimli reported and one model outcome
/// (None = agree). The string is the oracle clause that failed.
pub fn diff(obs: &Obs, m: &Outcome) -> Option<&'static str> {
    let n = obs.rows.len().min(m.rows.len());
    for k in 0..n {
        if let Some(d) = row_same(&obs.rows[k], &m.rows[k]) {
            return Some(d);
        }
    }
    match (&obs.err, &m.err) {
        (None, None) => {
            if obs.rows.len() != m.rows.len() {
                return Some("row-count");
            }
        }
        (Some(g), Some(e)) => {
            if obs.rows.len() != m.rows.len() {
                return Some("rows-before-error");
            }
            if !err_matches(g, e) {
                return Some("error-identity");
            }
            if obs.init_err != m.err_in_cie {
                return Some("error-phase");
            }
        }
        (Some(_), None) => return Some("spurious-error"),
        (None, Some(_)) => return Some("missing-error"),
    }
    None
}

/// Structural invariants of the rows gimli returned (checked on every table,
/// independent of the model).
pub fn structure(obs: &Obs, start: u64, end: u64) -> Option<&'static str> {
    let mut prev_end = start;
    let mut prev_start = start;
    for (k, r) in obs.rows.iter().enumerate() {
        if r.start != prev_end {
            return Some("rows-contiguous");
        }
        if r.start < prev_start {
            return Some("rows-non-decreasing");
        }
        if k + 1 < obs.rows.len() && r.end < r.start {
            return Some("row-end-before-start");
        }
        prev_end = r.end;
        prev_start = r.start;
    }
    if obs.err.is_none() && obs.conv.is_none() && !obs.runaway {
        match obs.rows.last() {
            None => return Some("no-row"),
            Some(r) if r.end != end => return Some("last-row-ends-at-fde-end"),
            _ => {}
        }
    }
    None
}

/// Decode-level translation of an encoded instruction to its meaning
/// (factoring, register range, vendor opcode space).
pub fn to_mi(i: &Insn, expr: Option<(usize, usize)>, caf: u64, daf: i64, aarch64: bool, addr: u8) -> MI {
    use Insn::*;
    let reg = |r: u64| -> Result<u16, MI> {
        if r > 0xffff {
            Err(MI::Bad(MErr::BadRegister(r)))
        } else {
            Ok(r as u16)
        }
    };
    macro_rules! reg {
        ($r:expr) => {
            match reg($r) {
                Ok(r) => r,
                Err(b) => return b,
            }
        };
    }
    let ex = |b: &Vec<u8>| ExprRef { bytes: b.clone(), pos: expr.map(|p| p.0 as u64) };
    match i {
        AdvanceLoc(d) => MI::Advance((*d as u64).wrapping_mul(caf)),
        AdvanceLoc1(d) => MI::Advance((*d as u64).wrapping_mul(caf)),
        AdvanceLoc2(d) => MI::Advance((*d as u64).wrapping_mul(caf)),
        AdvanceLoc4(d) => MI::Advance((*d as u64).wrapping_mul(caf)),
        SetLoc(a) => MI::SetLoc(*a & enc::mask(addr)),
        DefCfa(r, o) => MI::DefCfa(reg!(*r), *o as i64),
        DefCfaSf(r, o) => MI::DefCfa(reg!(*r), o.wrapping_mul(daf)),
        DefCfaRegister(r) => MI::DefCfaReg(reg!(*r)),
        DefCfaOffset(o) => MI::DefCfaOff(*o as i64),
        DefCfaOffsetSf(o) => MI::DefCfaOff(o.wrapping_mul(daf)),
        DefCfaExpression(b) => MI::DefCfaExpr(ex(b)),
        Undefined(r) => MI::Undefined(reg!(*r)),
        SameValue(r) => MI::SameValue(reg!(*r)),
        Offset(r, o) => MI::Offset(*r as u16, (*o as i64).wrapping_mul(daf)),
        OffsetExtended(r, o) => MI::Offset(reg!(*r), (*o as i64).wrapping_mul(daf)),
        OffsetExtendedSf(r, o) => MI::Offset(reg!(*r), o.wrapping_mul(daf)),
        ValOffset(r, o) => MI::ValOffset(reg!(*r), (*o as i64).wrapping_mul(daf)),
        ValOffsetSf(r, o) => MI::ValOffset(reg!(*r), o.wrapping_mul(daf)),
        Register(a, b) => {
            let a = reg!(*a);
            MI::Register(a, reg!(*b))
        }
        Expression(r, b) => MI::Expr(reg!(*r), ex(b)),
        ValExpression(r, b) => MI::ValExpr(reg!(*r), ex(b)),
        Restore(r) => MI::Restore(*r as u16),
        RestoreExtended(r) => MI::Restore(reg!(*r)),
        RememberState => MI::Remember,
        RestoreState => MI::RestoreState,
        GnuArgsSize(s) => MI::ArgsSize(*s),
        NegateRaState => {
            if aarch64 {
                MI::NegateRa
            } else {
                MI::Bad(MErr::Unknown(enc::CFA_AARCH64_NEGATE_RA_STATE))
            }
        }
        Nop => MI::Nop,
        Raw(b) => MI::Bad(MErr::Unknown(*b)),
    }
}

pub fn to_mis(p: &[Insn], exprs: &[Option<(usize, usize)>], caf: u64, daf: i64, aarch64: bool, addr: u8) -> Vec<MI> {
    p.iter().zip(exprs.iter()).map(|(i, e)| to_mi(i, *e, caf, daf, aarch64, addr)).collect()
}

/// Compare gimli's table with the model under the capacity tolerance rule:
/// the model is run without and with one reserved stack slot; gimli must
/// equal one of the two. Returns (clause, model rendering) on disagreement.
pub fn judge(obs: &Obs, cie: &[MI], fde: &[MI], start: u64, end: u64, addr: u8, stack: Option<usize>, rules: Option<usize>) -> (Outcome, Option<&'static str>) {
    let a = super::model::run(cie, fde, start, end, addr, Limits { stack, rules, reserve: false });
    let da = diff(obs, &a);
    if da.is_none() || stack.is_none() {
        return (a, da);
    }
    let b = super::model::run(cie, fde, start, end, addr, Limits { stack, rules, reserve: true });
    match diff(obs, &b) {
        None => (b, None),
        Some(_) => (a, da),
    }
}

pub fn count_outcomes(ctx: &mut Ctx, m: &Outcome) {
    match &m.err {
        None => ctx.outcome("rows:ok"),
        Some(e) => ctx.outcome(&format!("err:{}", e.class())),
    }
}
