//! Independent byte encoders for .debug_frame / .eh_frame / .eh_frame_hdr and
//! call frame instructions. Nothing here uses gimli: constants are transcribed
//! from DWARF 5 (section 6.4, table 7.29) and the LSB eh_frame chapter
//! (DW_EH_PE_* table), so that the oracle and the subject cannot share a bug.
#![allow(dead_code)]

use mcx::enc::Enc;

// --- DWARF 5 table 7.29: call frame instruction encodings -------------------
pub const CFA_ADVANCE_LOC: u8 = 0x1 << 6; // high 2 bits, delta in low 6
pub const CFA_OFFSET: u8 = 0x2 << 6; // high 2 bits, register in low 6
pub const CFA_RESTORE: u8 = 0x3 << 6; // high 2 bits, register in low 6
pub const CFA_NOP: u8 = 0x00;
pub const CFA_SET_LOC: u8 = 0x01;
pub const CFA_ADVANCE_LOC1: u8 = 0x02;
pub const CFA_ADVANCE_LOC2: u8 = 0x03;
pub const CFA_ADVANCE_LOC4: u8 = 0x04;
pub const CFA_OFFSET_EXTENDED: u8 = 0x05;
pub const CFA_RESTORE_EXTENDED: u8 = 0x06;
pub const CFA_UNDEFINED: u8 = 0x07;
pub const CFA_SAME_VALUE: u8 = 0x08;
pub const CFA_REGISTER: u8 = 0x09;
pub const CFA_REMEMBER_STATE: u8 = 0x0a;
pub const CFA_RESTORE_STATE: u8 = 0x0b;
pub const CFA_DEF_CFA: u8 = 0x0c;
pub const CFA_DEF_CFA_REGISTER: u8 = 0x0d;
pub const CFA_DEF_CFA_OFFSET: u8 = 0x0e;
pub const CFA_DEF_CFA_EXPRESSION: u8 = 0x0f;
pub const CFA_EXPRESSION: u8 = 0x10;
pub const CFA_OFFSET_EXTENDED_SF: u8 = 0x11;
pub const CFA_DEF_CFA_SF: u8 = 0x12;
pub const CFA_DEF_CFA_OFFSET_SF: u8 = 0x13;
pub const CFA_VAL_OFFSET: u8 = 0x14;
pub const CFA_VAL_OFFSET_SF: u8 = 0x15;
pub const CFA_VAL_EXPRESSION: u8 = 0x16;
// vendor extensions (GNU / AArch64 ABI)
pub const CFA_AARCH64_NEGATE_RA_STATE: u8 = 0x2d; // == DW_CFA_GNU_window_save
pub const CFA_GNU_ARGS_SIZE: u8 = 0x2e;

/// AArch64 DWARF ABI: RA_SIGN_STATE pseudo register.
pub const AARCH64_RA_SIGN_STATE: u16 = 34;

// --- LSB: DW_EH_PE_* ---------------------------------------------------------
pub const PE_ABSPTR: u8 = 0x00;
pub const PE_ULEB128: u8 = 0x01;
pub const PE_UDATA2: u8 = 0x02;
pub const PE_UDATA4: u8 = 0x03;
pub const PE_UDATA8: u8 = 0x04;
pub const PE_SLEB128: u8 = 0x09;
pub const PE_SDATA2: u8 = 0x0a;
pub const PE_SDATA4: u8 = 0x0b;
pub const PE_SDATA8: u8 = 0x0c;
pub const PE_PCREL: u8 = 0x10;
pub const PE_TEXTREL: u8 = 0x20;
pub const PE_DATAREL: u8 = 0x30;
pub const PE_FUNCREL: u8 = 0x40;
pub const PE_ALIGNED: u8 = 0x50;
pub const PE_INDIRECT: u8 = 0x80;
pub const PE_OMIT: u8 = 0xff;

pub fn mask(addr_size: u8) -> u64 {
    if addr_size >= 8 {
        u64::MAX
    } else {
        (1u64 << (8 * addr_size as u32)) - 1
    }
}

/// Is the low nibble one of the value formats of the LSB table?
pub fn pe_format_known(enc: u8) -> bool {
    matches!(enc & 0x0f, 0x00 | 0x01 | 0x02 | 0x03 | 0x04 | 0x09 | 0x0a | 0x0b | 0x0c)
}
/// Is the application (bits 4-6) one of the LSB table?
pub fn pe_app_known(enc: u8) -> bool {
    matches!(enc & 0x70, 0x00 | 0x10 | 0x20 | 0x30 | 0x40 | 0x50)
}
/// Is this byte a pointer encoding defined by the LSB table (incl. omit)?
pub fn pe_defined(enc: u8) -> bool {
    enc == PE_OMIT || (pe_format_known(enc) && pe_app_known(enc))
}

/// Write the stored bits of an encoded value: `raw` is truncated to the
/// width of the format (LEB formats write the full 64-bit quantity).
/// Unknown formats write `addr` bytes (the reader must reject before that).
pub fn put_raw(e: &mut Enc, enc: u8, raw: u64, addr: u8) {
    match enc & 0x0f {
        0x00 => {
            e.uint(raw & mask(addr), addr as usize);
        }
        0x01 => {
            e.uleb(raw);
        }
        0x02 => {
            e.uint(raw & 0xffff, 2);
        }
        0x03 => {
            e.uint(raw & 0xffff_ffff, 4);
        }
        0x04 => {
            e.uint(raw, 8);
        }
        0x09 => {
            e.sleb(raw as i64);
        }
        0x0a => {
            e.uint(raw & 0xffff, 2);
        }
        0x0b => {
            e.uint(raw & 0xffff_ffff, 4);
        }
        0x0c => {
            e.uint(raw, 8);
        }
        _ => {
            e.uint(raw & mask(addr), addr as usize);
        }
    }
}

/// Numeric value denoted by the stored bits (zero / sign extended to 64 bits).
pub fn raw_value(enc: u8, raw: u64, addr: u8) -> u64 {
    match enc & 0x0f {
        0x00 => raw & mask(addr),
        0x01 => raw,
        0x02 => raw & 0xffff,
        0x03 => raw & 0xffff_ffff,
        0x04 => raw,
        0x09 => raw,
        0x0a => (raw as u16 as i16) as i64 as u64,
        0x0b => (raw as u32 as i32) as i64 as u64,
        0x0c => raw,
        _ => raw,
    }
}

/// Can `v` (a 64-bit two's complement quantity) be stored in the format
/// without loss?
pub fn raw_fits(enc: u8, v: u64, addr: u8) -> bool {
    raw_value(enc, v, addr) == v
}

#[derive(Clone, Copy, Debug, Default, PartialEq, Eq)]
pub struct Bases {
    /// address of the section holding the pointer (pcrel)
    pub section: Option<u64>,
    pub text: Option<u64>,
    pub data: Option<u64>,
}

#[derive(Clone, Copy, Debug, PartialEq, Eq)]
pub enum PtrExp {
    /// byte is not a defined encoding: the reader must reject it
    Undefined,
    /// DW_EH_PE_omit: no value present
    Omit,
    /// DW_EH_PE_aligned: defined, the reader may refuse it as unsupported
    Aligned,
    /// the base the application needs was not supplied: must be an error
    MissingBase(u8),
    Value { indirect: bool, value: u64 },
}

/// What a pointer with encoding `enc`, stored bits `raw`, located at section
/// offset `pos`, denotes (LSB: value + base selected by the application bits,
/// modulo the pointer width).
pub fn expect_ptr(enc: u8, raw: u64, pos: u64, bases: &Bases, func: Option<u64>, addr: u8) -> PtrExp {
    if !pe_defined(enc) {
        return PtrExp::Undefined;
    }
    if enc == PE_OMIT {
        return PtrExp::Omit;
    }
    let base = match enc & 0x70 {
        0x00 => 0,
        0x10 => match bases.section {
            Some(s) => s.wrapping_add(pos) & mask(addr),
            None => return PtrExp::MissingBase(0x10),
        },
        0x20 => match bases.text {
            Some(s) => s,
            None => return PtrExp::MissingBase(0x20),
        },
        0x30 => match bases.data {
            Some(s) => s,
            None => return PtrExp::MissingBase(0x30),
        },
        0x40 => match func {
            Some(s) => s,
            None => return PtrExp::MissingBase(0x40),
        },
        _ => return PtrExp::Aligned,
    };
    let v = base.wrapping_add(raw_value(enc, raw, addr)) & mask(addr);
    PtrExp::Value { indirect: enc & 0x80 != 0, value: v }
}

/// Stored bits that make an `enc` pointer at `pos` denote `target` (may not
/// fit the format; callers check with `expect_ptr`).
pub fn raw_for_target(enc: u8, target: u64, pos: u64, bases: &Bases, func: Option<u64>) -> u64 {
    let base = match enc & 0x70 {
        0x10 => bases.section.unwrap_or(0).wrapping_add(pos),
        0x20 => bases.text.unwrap_or(0),
        0x30 => bases.data.unwrap_or(0),
        0x40 => func.unwrap_or(0),
        _ => 0,
    };
    target.wrapping_sub(base)
}

// --- call frame instructions --------------------------------------------------

/// An instruction as encoded (operands before factoring). Registers are u64
/// so that numbers beyond any implementation limit can be expressed.
#[derive(Clone, Debug, PartialEq, Eq)]
pub enum Insn {
    AdvanceLoc(u8),
    AdvanceLoc1(u8),
    AdvanceLoc2(u16),
    AdvanceLoc4(u32),
    /// target address (absolute); encoded as an address or with the FDE pointer encoding
    SetLoc(u64),
    DefCfa(u64, u64),
    DefCfaSf(u64, i64),
    DefCfaRegister(u64),
    DefCfaOffset(u64),
    DefCfaOffsetSf(i64),
    DefCfaExpression(Vec<u8>),
    Undefined(u64),
    SameValue(u64),
    /// DW_CFA_offset: register in the opcode (0..63)
    Offset(u8, u64),
    OffsetExtended(u64, u64),
    OffsetExtendedSf(u64, i64),
    ValOffset(u64, u64),
    ValOffsetSf(u64, i64),
    Register(u64, u64),
    Expression(u64, Vec<u8>),
    ValExpression(u64, Vec<u8>),
    /// DW_CFA_restore: register in the opcode
    Restore(u8),
    RestoreExtended(u64),
    RememberState,
    RestoreState,
    GnuArgsSize(u64),
    /// opcode 0x2d
    NegateRaState,
    Nop,
    /// any other primary-opcode-0 byte, no operands
    Raw(u8),
}

impl Insn {
    pub fn render(&self) -> String {
        use Insn::*;
        match self {
            AdvanceLoc(d) => format!("advance_loc({})", d),
            AdvanceLoc1(d) => format!("advance_loc1({})", d),
            AdvanceLoc2(d) => format!("advance_loc2({})", d),
            AdvanceLoc4(d) => format!("advance_loc4({})", d),
            SetLoc(a) => format!("set_loc({:#x})", a),
            DefCfa(r, o) => format!("def_cfa(r{},{})", r, o),
            DefCfaSf(r, o) => format!("def_cfa_sf(r{},{})", r, o),
            DefCfaRegister(r) => format!("def_cfa_register(r{})", r),
            DefCfaOffset(o) => format!("def_cfa_offset({})", o),
            DefCfaOffsetSf(o) => format!("def_cfa_offset_sf({})", o),
            DefCfaExpression(b) => format!("def_cfa_expression({})", mcx::hex(b)),
            Undefined(r) => format!("undefined(r{})", r),
            SameValue(r) => format!("same_value(r{})", r),
            Offset(r, o) => format!("offset(r{},{})", r, o),
            OffsetExtended(r, o) => format!("offset_extended(r{},{})", r, o),
            OffsetExtendedSf(r, o) => format!("offset_extended_sf(r{},{})", r, o),
            ValOffset(r, o) => format!("val_offset(r{},{})", r, o),
            ValOffsetSf(r, o) => format!("val_offset_sf(r{},{})", r, o),
            Register(a, b) => format!("register(r{},r{})", a, b),
            Expression(r, b) => format!("expression(r{},{})", r, mcx::hex(b)),
            ValExpression(r, b) => format!("val_expression(r{},{})", r, mcx::hex(b)),
            Restore(r) => format!("restore(r{})", r),
            RestoreExtended(r) => format!("restore_extended(r{})", r),
            RememberState => "remember_state".into(),
            RestoreState => "restore_state".into(),
            GnuArgsSize(s) => format!("GNU_args_size({})", s),
            NegateRaState => "AARCH64_negate_ra_state".into(),
            Nop => "nop".into(),
            Raw(b) => format!("op{:#04x}", b),
        }
    }
    pub fn is_loc(&self) -> bool {
        matches!(self, Insn::AdvanceLoc(_) | Insn::AdvanceLoc1(_) | Insn::AdvanceLoc2(_) | Insn::AdvanceLoc4(_) | Insn::SetLoc(_))
    }
}

pub fn render_prog(p: &[Insn]) -> String {
    let v: Vec<String> = p.iter().map(|i| i.render()).collect();
    format!("[{}]", v.join("; "))
}

/// How DW_CFA_set_loc operands are stored.
#[derive(Clone, Copy, Debug)]
pub enum SetLocEnc {
    /// target address in `addr` bytes
    Addr,
    /// encoded with the CIE's FDE pointer encoding ('R')
    Encoded { enc: u8, bases: Bases },
}

#[derive(Clone, Copy, Debug)]
pub struct InsnCx {
    pub addr: u8,
    pub setloc: SetLocEnc,
}

/// Append one instruction; returns the section position (offset in `e`) and
/// length of the expression block, if the instruction carries one.
pub fn put_insn(e: &mut Enc, i: &Insn, cx: &InsnCx) -> Option<(usize, usize)> {
    use Insn::*;
    let mut expr = None;
    let block = |e: &mut Enc, b: &Vec<u8>| {
        e.uleb(b.len() as u64);
        let p = e.len();
        e.bytes(b);
        (p, b.len())
    };
    match i {
        AdvanceLoc(d) => {
            assert!(*d < 64);
            e.u8(CFA_ADVANCE_LOC | d);
        }
        AdvanceLoc1(d) => {
            e.u8(CFA_ADVANCE_LOC1).u8(*d);
        }
        AdvanceLoc2(d) => {
            e.u8(CFA_ADVANCE_LOC2).u16(*d);
        }
        AdvanceLoc4(d) => {
            e.u8(CFA_ADVANCE_LOC4).u32(*d);
        }
        SetLoc(a) => {
            e.u8(CFA_SET_LOC);
            match cx.setloc {
                SetLocEnc::Addr => {
                    e.uint(*a & mask(cx.addr), cx.addr as usize);
                }
                SetLocEnc::Encoded { enc, bases } => {
                    let pos = e.len() as u64;
                    let raw = raw_for_target(enc, *a, pos, &bases, None);
                    put_raw(e, enc, raw, cx.addr);
                }
            }
        }
        DefCfa(r, o) => {
            e.u8(CFA_DEF_CFA).uleb(*r).uleb(*o);
        }
        DefCfaSf(r, o) => {
            e.u8(CFA_DEF_CFA_SF).uleb(*r).sleb(*o);
        }
        DefCfaRegister(r) => {
            e.u8(CFA_DEF_CFA_REGISTER).uleb(*r);
        }
        DefCfaOffset(o) => {
            e.u8(CFA_DEF_CFA_OFFSET).uleb(*o);
        }
        DefCfaOffsetSf(o) => {
            e.u8(CFA_DEF_CFA_OFFSET_SF).sleb(*o);
        }
        DefCfaExpression(b) => {
            e.u8(CFA_DEF_CFA_EXPRESSION);
            expr = Some(block(e, b));
        }
        Undefined(r) => {
            e.u8(CFA_UNDEFINED).uleb(*r);
        }
        SameValue(r) => {
            e.u8(CFA_SAME_VALUE).uleb(*r);
        }
        Offset(r, o) => {
            assert!(*r < 64);
            e.u8(CFA_OFFSET | r).uleb(*o);
        }
        OffsetExtended(r, o) => {
            e.u8(CFA_OFFSET_EXTENDED).uleb(*r).uleb(*o);
        }
        OffsetExtendedSf(r, o) => {
            e.u8(CFA_OFFSET_EXTENDED_SF).uleb(*r).sleb(*o);
        }
        ValOffset(r, o) => {
            e.u8(CFA_VAL_OFFSET).uleb(*r).uleb(*o);
        }
        ValOffsetSf(r, o) => {
            e.u8(CFA_VAL_OFFSET_SF).uleb(*r).sleb(*o);
        }
        Register(a, b) => {
            e.u8(CFA_REGISTER).uleb(*a).uleb(*b);
        }
        Expression(r, b) => {
            e.u8(CFA_EXPRESSION).uleb(*r);
            expr = Some(block(e, b));
        }
        ValExpression(r, b) => {
            e.u8(CFA_VAL_EXPRESSION).uleb(*r);
            expr = Some(block(e, b));
        }
        Restore(r) => {
            assert!(*r < 64);
            e.u8(CFA_RESTORE | r);
        }
        RestoreExtended(r) => {
            e.u8(CFA_RESTORE_EXTENDED).uleb(*r);
        }
        RememberState => {
            e.u8(CFA_REMEMBER_STATE);
        }
        RestoreState => {
            e.u8(CFA_RESTORE_STATE);
        }
        GnuArgsSize(s) => {
            e.u8(CFA_GNU_ARGS_SIZE).uleb(*s);
        }
        NegateRaState => {
            e.u8(CFA_AARCH64_NEGATE_RA_STATE);
        }
        Nop => {
            e.u8(CFA_NOP);
        }
        Raw(b) => {
            e.u8(*b);
        }
    }
    expr
}

// --- entries -------------------------------------------------------------------

#[derive(Clone, Copy, Debug, PartialEq, Eq)]
pub enum Kind {
    DebugFrame,
    EhFrame,
}

#[derive(Clone, Debug)]
pub struct CieSpec {
    pub fmt64: bool,
    pub version: u8,
    pub aug: Vec<u8>,
    /// address size: the value of the v4 field (.debug_frame v4), otherwise the
    /// size configured on the section
    pub addr: u8,
    pub seg: u8,
    pub caf: u64,
    pub daf: i64,
    pub ra: u64,
    pub lsda_enc: u8,
    pub pers_enc: u8,
    /// stored bits of the personality pointer
    pub pers_raw: u64,
    pub fde_enc: u8,
    pub insns: Vec<Insn>,
    /// pad (with DW_CFA_nop) until length-field + length is a multiple of this; 0 = none
    pub align: usize,
}

impl CieSpec {
    pub fn plain(version: u8, addr: u8) -> CieSpec {
        CieSpec {
            fmt64: false,
            version,
            aug: vec![],
            addr,
            seg: 0,
            caf: 1,
            daf: 1,
            ra: 16,
            lsda_enc: 0,
            pers_enc: 0,
            pers_raw: 0,
            fde_enc: 0,
            insns: vec![],
            align: addr as usize,
        }
    }
    pub fn has_z(&self) -> bool {
        self.aug.first() == Some(&b'z')
    }
    pub fn has(&self, c: u8) -> bool {
        self.aug.contains(&c)
    }
}

#[derive(Clone, Debug, Default)]
pub struct CieOut {
    pub off: usize,
    /// value of the length field
    pub len: usize,
    /// section offset of the stored personality pointer (after its encoding byte)
    pub pers_pos: Option<usize>,
    /// per instruction: expression block position/length
    pub exprs: Vec<Option<(usize, usize)>>,
    /// section range of the instruction bytes incl. padding
    pub insn_range: (usize, usize),
    /// number of padding bytes (DW_CFA_nop) after the instructions
    pub pad: usize,
}

/// A pointer operand: either the address it must denote (the stored bits are
/// derived from the encoding's base) or the stored bits themselves.
#[derive(Clone, Copy, Debug, PartialEq, Eq)]
pub enum Ptr {
    Target(u64),
    Raw(u64),
}

impl Ptr {
    pub fn raw(&self, enc: u8, pos: u64, bases: &Bases, func: Option<u64>) -> u64 {
        match *self {
            Ptr::Target(t) => raw_for_target(enc, t, pos, bases, func),
            Ptr::Raw(r) => r,
        }
    }
}

#[derive(Clone, Debug)]
pub struct FdeSpec {
    pub fmt64: bool,
    /// section offset the CIE pointer designates
    pub cie_off: usize,
    /// initial location
    pub start: Ptr,
    /// address range: stored with the value format of the FDE encoding
    pub len: u64,
    /// LSDA pointer (when the CIE has 'L'); func-relative base for `Target`
    /// is `func_base`
    pub lsda: Ptr,
    pub func_base: Option<u64>,
    pub insns: Vec<Insn>,
    pub align: usize,
    /// bytes of augmentation data beyond what the augmentation letters define (a 'z' FDE's
    /// augmentation length may cover more than the consumer knows; it must skip them)
    pub aug_extra: usize,
}

impl FdeSpec {
    pub fn simple(cie_off: usize, start: u64, len: u64, insns: Vec<Insn>, align: usize) -> FdeSpec {
        FdeSpec { fmt64: false, cie_off, start: Ptr::Target(start), len, lsda: Ptr::Target(0), func_base: Some(start), insns, align, aug_extra: 0 }
    }
}

#[derive(Clone, Debug, Default)]
pub struct FdeOut {
    pub off: usize,
    pub len: usize,
    pub start_pos: usize,
    pub lsda_pos: Option<usize>,
    pub exprs: Vec<Option<(usize, usize)>>,
    pub insn_range: (usize, usize),
    pub pad: usize,
}

pub struct Builder {
    pub e: Enc,
    pub kind: Kind,
    /// bases used to compute stored bits for pc/text/data-relative pointers
    pub bases: Bases,
}

impl Builder {
    pub fn new(kind: Kind, big: bool, bases: Bases) -> Builder {
        Builder { e: Enc::new(big), kind, bases }
    }

    fn begin(&mut self, fmt64: bool) -> (usize, usize) {
        let off = self.e.len();
        if fmt64 {
            self.e.u32(0xffff_ffff);
            self.e.u64(0);
        } else {
            self.e.u32(0);
        }
        (off, self.e.len())
    }

    fn end(&mut self, fmt64: bool, off: usize, body: usize, align: usize) -> usize {
        if align > 1 {
            while (self.e.len() - off) % align != 0 {
                self.e.u8(CFA_NOP);
            }
        }
        let len = self.e.len() - body;
        if fmt64 {
            self.e.patch_uint(off + 4, len as u64, 8);
        } else {
            self.e.patch_uint(off, len as u64, 4);
        }
        len
    }

    /// A 32-bit zero length (the .eh_frame terminator).
    pub fn zero32(&mut self) -> usize {
        let off = self.e.len();
        self.e.u32(0);
        off
    }
    /// A 64-bit-format zero length.
    pub fn zero64(&mut self) -> usize {
        let off = self.e.len();
        self.e.u32(0xffff_ffff);
        self.e.u64(0);
        off
    }

    pub fn cie(&mut self, c: &CieSpec) -> CieOut {
        let mut out = CieOut::default();
        let (off, body) = self.begin(c.fmt64);
        out.off = off;
        match self.kind {
            // LSB: CIE id 0, always 4 bytes
            Kind::EhFrame => {
                self.e.u32(0);
            }
            // DWARF 5 7.24: 0xffffffff / 0xffffffffffffffff
            Kind::DebugFrame => {
                if c.fmt64 {
                    self.e.u64(u64::MAX);
                } else {
                    self.e.u32(0xffff_ffff);
                }
            }
        }
        self.e.u8(c.version);
        self.e.cstr(&c.aug);
        if self.kind == Kind::DebugFrame && c.version >= 4 {
            self.e.u8(c.addr).u8(c.seg);
        }
        self.e.uleb(c.caf).sleb(c.daf);
        if c.version == 1 {
            self.e.u8(c.ra as u8);
        } else {
            self.e.uleb(c.ra);
        }
        // augmentation data
        let mut data = Enc::new(self.e.big);
        let mut pers_rel: Option<usize> = None;
        for &ch in c.aug.iter() {
            match ch {
                b'L' => {
                    data.u8(c.lsda_enc);
                }
                b'P' => {
                    data.u8(c.pers_enc);
                    pers_rel = Some(data.len());
                    if c.pers_enc != PE_OMIT {
                        put_raw(&mut data, c.pers_enc, c.pers_raw, c.addr);
                    }
                }
                b'R' => {
                    data.u8(c.fde_enc);
                }
                _ => {}
            }
        }
        if c.has_z() {
            self.e.uleb(data.len() as u64);
        }
        let dpos = self.e.len();
        self.e.bytes(&data.buf);
        out.pers_pos = pers_rel.map(|r| dpos + r);
        let cx = InsnCx { addr: c.addr, setloc: SetLocEnc::Addr };
        let i0 = self.e.len();
        for i in &c.insns {
            let x = put_insn(&mut self.e, i, &cx);
            out.exprs.push(x);
        }
        let before = self.e.len();
        out.len = self.end(c.fmt64, off, body, c.align);
        out.pad = self.e.len() - before;
        out.insn_range = (i0, self.e.len());
        out
    }

    /// `cie` supplies the parameters the FDE layout depends on (address size,
    /// augmentation, encodings).
    pub fn fde(&mut self, f: &FdeSpec, cie: &CieSpec) -> FdeOut {
        let mut out = FdeOut::default();
        let (off, body) = self.begin(f.fmt64);
        out.off = off;
        match self.kind {
            // LSB: distance from the CIE pointer field back to the CIE, 4 bytes
            Kind::EhFrame => {
                let here = self.e.len();
                self.e.u32((here as u64).wrapping_sub(f.cie_off as u64) as u32);
            }
            // DWARF: section offset, 4 or 8 bytes
            Kind::DebugFrame => {
                self.e.offset(f.cie_off as u64, f.fmt64);
            }
        }
        let has_r = cie.has_z() && cie.has(b'R');
        out.start_pos = self.e.len();
        if has_r {
            let pos = self.e.len() as u64;
            let raw = f.start.raw(cie.fde_enc, pos, &self.bases, None);
            if cie.fde_enc != PE_OMIT {
                put_raw(&mut self.e, cie.fde_enc, raw, cie.addr);
                // LSB: range uses the value format of the encoding only
                put_raw(&mut self.e, cie.fde_enc & 0x0f, f.len, cie.addr);
            }
        } else {
            let raw = f.start.raw(0, 0, &self.bases, None);
            self.e.uint(raw & mask(cie.addr), cie.addr as usize);
            self.e.uint(f.len & mask(cie.addr), cie.addr as usize);
        }
        if cie.has_z() {
            let mut data = Enc::new(self.e.big);
            let mut lsda_rel = None;
            if cie.has(b'L') && cie.lsda_enc != PE_OMIT {
                // position of the pointer = after the (1-byte) length
                let pos = (self.e.len() + 1) as u64;
                let raw = f.lsda.raw(cie.lsda_enc, pos, &self.bases, f.func_base);
                lsda_rel = Some(0usize);
                put_raw(&mut data, cie.lsda_enc, raw, cie.addr);
            }
            // would decode as def_cfa_offset 64; def_cfa_offset 80; nop if it were not skipped
            data.bytes(&[0x0e, 0x40, 0x0e, 0x50, 0x00][..f.aug_extra.min(5)]);
            assert!(data.len() < 0x80);
            self.e.uleb(data.len() as u64);
            let dpos = self.e.len();
            self.e.bytes(&data.buf);
            out.lsda_pos = lsda_rel.map(|r| dpos + r);
        }
        let cx = InsnCx {
            addr: cie.addr,
            setloc: if has_r { SetLocEnc::Encoded { enc: cie.fde_enc, bases: self.bases } } else { SetLocEnc::Addr },
        };
        let i0 = self.e.len();
        for i in &f.insns {
            let x = put_insn(&mut self.e, i, &cx);
            out.exprs.push(x);
        }
        let before = self.e.len();
        out.len = self.end(f.fmt64, off, body, f.align);
        out.pad = self.e.len() - before;
        out.insn_range = (i0, self.e.len());
        out
    }
}

// --- .eh_frame_hdr --------------------------------------------------------------

#[derive(Clone, Debug)]
pub struct HdrSpec {
    pub version: u8,
    pub ptr_enc: u8,
    pub count_enc: u8,
    pub table_enc: u8,
    /// stored bits
    pub ptr_raw: u64,
    pub count_raw: u64,
    /// (initial location, fde address)
    pub table: Vec<(Ptr, Ptr)>,
}

#[derive(Clone, Debug, Default)]
pub struct HdrOut {
    pub ptr_pos: usize,
    pub count_pos: usize,
    pub table_pos: usize,
    /// positions of each stored (loc, ptr) pair
    pub entry_pos: Vec<(usize, usize)>,
}

/// LSB .eh_frame_hdr: version, eh_frame_ptr_enc, fde_count_enc, table_enc,
/// eh_frame_ptr, fde_count, table[(initial_loc, fde address)].
pub fn build_hdr(h: &HdrSpec, big: bool, addr: u8, bases: &Bases) -> (Vec<u8>, HdrOut) {
    let mut e = Enc::new(big);
    let mut out = HdrOut::default();
    e.u8(h.version).u8(h.ptr_enc).u8(h.count_enc).u8(h.table_enc);
    out.ptr_pos = e.len();
    if h.ptr_enc != PE_OMIT {
        put_raw(&mut e, h.ptr_enc, h.ptr_raw, addr);
    }
    out.count_pos = e.len();
    if h.count_enc != PE_OMIT {
        put_raw(&mut e, h.count_enc, h.count_raw, addr);
    }
    out.table_pos = e.len();
    if h.table_enc != PE_OMIT {
        for (loc, ptr) in &h.table {
            let p0 = e.len();
            let r0 = loc.raw(h.table_enc, p0 as u64, bases, None);
            put_raw(&mut e, h.table_enc, r0, addr);
            let p1 = e.len();
            let r1 = ptr.raw(h.table_enc, p1 as u64, bases, None);
            put_raw(&mut e, h.table_enc, r1, addr);
            out.entry_pos.push((p0, p1));
        }
    }
    (e.buf, out)
}
