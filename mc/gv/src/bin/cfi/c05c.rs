//! C05 part 3: all 256 pointer-encoding bytes in each place an encoding is read.
use super::c05::{cmp_cie, entry_name, exp_fde_addrs, exp_lsda};
use super::enc::{self, expect_ptr, Bases, Builder, CieSpec, FdeSpec, HdrSpec, Insn, Kind, Ptr, PtrExp};
use super::glue;
use super::scan::{self, Got};
use gimli::read::EhFrameHdr;
use mcx::space::Mix;
use mcx::{guard, Ctx, Sub, Tier};

const RAWS: [u64; 15] = [
    0,
    1,
    0x7f,
    0x80,
    0x7fff,
    0x8000,
    0xffff,
    0x7fff_ffff,
    0x8000_0000,
    0xffff_ffff,
    0x1_0000_0000,
    0x7fff_ffff_ffff_ffff,
    0x8000_0000_0000_0000,
    0xffff_ffff_ffff_fffc,
    u64::MAX,
];

fn err_ok_for(exp: &PtrExp, e: &gimli::Error, encb: u8) -> bool {
    use gimli::Error as E;
    match exp {
        PtrExp::Undefined => matches!(e, E::UnknownPointerEncoding(x) if x.0 == encb),
        PtrExp::Omit => matches!(e, E::CannotParseOmitPointerEncoding),
        PtrExp::Aligned => matches!(e, E::UnsupportedPointerEncoding(_)),
        PtrExp::MissingBase(0x10) => matches!(e, E::PcRelativePointerButSectionBaseIsUndefined),
        PtrExp::MissingBase(0x20) => matches!(e, E::TextRelativePointerButTextBaseIsUndefined),
        PtrExp::MissingBase(0x30) => matches!(e, E::DataRelativePointerButDataBaseIsUndefined),
        PtrExp::MissingBase(0x40) => matches!(e, E::FuncRelativePointerInBadContext),
        _ => false,
    }
}

fn class(exp: &PtrExp) -> &'static str {
    match exp {
        PtrExp::Undefined => "enc:undefined-rejected",
        PtrExp::Omit => "enc:omit",
        PtrExp::Aligned => "enc:aligned-refused",
        PtrExp::MissingBase(_) => "enc:missing-base-error",
        PtrExp::Value { indirect: false, .. } => "enc:value-direct",
        PtrExp::Value { indirect: true, .. } => "enc:value-indirect",
    }
}

fn bases_for(addr: u8, with: bool, section: u64) -> Bases {
    if !with {
        return Bases::default();
    }
    if addr == 4 {
        Bases { section: Some(section), text: Some(0x0040_0000), data: Some(0xffff_f000) }
    } else {
        Bases { section: Some(section), text: Some(0x40_0000_0000), data: Some(0xffff_ffff_ffff_f000) }
    }
}

fn place_cie(ctx: &mut Ctx, place: u64, encb: u8, with: bool, addr: u8, big: bool) {
    let kind = Kind::EhFrame;
    let section_va = if addr == 4 { 0x7000_0000u64 } else { 0x7fff_0000_0000 };
    let bases = bases_for(addr, with, section_va);
    let gb = scan::mk_bases(&bases, &Bases::default());
    let e_entries = entry_name(kind, "entries");
    for &raw in RAWS.iter() {
        let mut b = Builder::new(kind, big, bases);
        let mut c = CieSpec::plain(1, addr);
        c.insns = vec![Insn::DefCfa(7, 8)];
        let setloc_target: u64 = 0x1234;
        let mut f = FdeSpec::simple(0, 0x1000, 0x20, vec![], addr as usize);
        match place {
            0 => {
                c.aug = b"zP".to_vec();
                c.pers_enc = encb;
                c.pers_raw = raw;
            }
            1 => {
                c.aug = b"zL".to_vec();
                c.lsda_enc = encb;
                f.lsda = Ptr::Raw(raw);
            }
            _ => {
                c.aug = b"zR".to_vec();
                c.fde_enc = encb;
                f.start = Ptr::Raw(raw);
                f.len = raw.rotate_left(5) ^ 0x21;
                f.insns = vec![Insn::SetLoc(setloc_target)];
            }
        }
        let co = b.cie(&c);
        f.cie_off = co.off;
        let fo = b.fde(&f, &c);
        let bytes = b.e.buf.clone();
        let case = || format!("place={} enc={:#04x} raw={:#x} bases={:?} addr{} {} section={}", ["CIE-P", "CIE-L/FDE-LSDA", "CIE-R/FDE-addresses/set_loc"][place as usize], encb, raw, bases, addr, if big { "BE" } else { "LE" }, mcx::hex(&bytes));
        ctx.eval(1);
        let sc = crate::with_sec!(kind, &bytes, big, addr, sec => guard(|| scan::scan(&sec, &gb, &bytes, 4)));
        let sc = match sc {
            Ok(s) => s,
            Err(p) => {
                ctx.fail_panic(&e_entries, &p, case());
                return;
            }
        };
        ctx.nontriv(1);
        // --- the CIE
        let cie_exp: PtrExp = match place {
            0 => expect_ptr(encb, raw, co.pers_pos.unwrap() as u64, &bases, None, addr),
            // L and R only store the encoding byte in the CIE
            _ => {
                if enc::pe_defined(encb) {
                    PtrExp::Value { indirect: false, value: 0 }
                } else {
                    PtrExp::Undefined
                }
            }
        };
        let got_cie = match sc.items.first() {
            Some(Got::Cie(g)) => Some(g),
            _ => None,
        };
        match (&cie_exp, got_cie) {
            (PtrExp::Value { .. }, Some(g)) => {
                if let Err(d) = cmp_cie(g, &c, &co, &bases) {
                    ctx.fail(&e_entries, "pointer-encoding-cie", "wrong-decoded-value", format!("{}: {}", case(), d));
                    return;
                }
                if place == 0 {
                    ctx.outcome(class(&cie_exp));
                }
            }
            (PtrExp::Value { .. }, None) => {
                ctx.fail(&e_entries, "pointer-encoding-cie", "rejected-valid-encoding", format!("{}: {:?}", case(), sc));
                return;
            }
            (PtrExp::Omit, Some(g)) if g.pers.is_none() => {
                ctx.outcome("enc:omit-accepted-as-absent");
                continue;
            }
            (exp, None) => {
                let ok = matches!(&sc.end, Err(e) if err_ok_for(exp, e, encb));
                if !ok || !sc.items.is_empty() {
                    ctx.fail(&e_entries, "pointer-encoding-cie", "wrong-refusal", format!("{}: expected {:?}, got {:?}", case(), exp, sc));
                    return;
                }
                ctx.outcome(class(exp));
                continue;
            }
            (exp, Some(g)) => {
                ctx.fail(&e_entries, "pointer-encoding-cie", "accepted-invalid-encoding", format!("{}: expected {:?}, got {:?}", case(), exp, g));
                return;
            }
        }
        if place == 0 {
            continue;
        }
        // --- the FDE
        let full = match sc.items.get(1) {
            Some(Got::Fde { full, .. }) => full,
            other => {
                ctx.fail(&e_entries, "entry-sequence", "wrong-entry", format!("{}: expected FDE, got {:?}", case(), other));
                return;
            }
        };
        if place == 1 {
            let exp = exp_lsda(&c, &f, &fo, &bases, 0x1000).unwrap();
            match (&exp, full) {
                (PtrExp::Value { indirect, value }, Ok((gf, _))) => {
                    if gf.lsda != Some((*indirect, *value)) || gf.start != 0x1000 || gf.range != 0x20 {
                        ctx.fail(&e_entries, "pointer-encoding-lsda", "wrong-decoded-value", format!("{}: got {:?} want lsda {:?}", case(), gf, exp));
                        return;
                    }
                    ctx.outcome(class(&exp));
                }
                (PtrExp::Omit, Ok((gf, _))) if gf.lsda.is_none() => ctx.outcome("enc:omit-accepted-as-absent"),
                (PtrExp::Omit, Err(gimli::Error::CannotParseOmitPointerEncoding)) => ctx.outcome("enc:L-omit-makes-fde-unparsable"),
                (e, Err(g)) if err_ok_for(e, g, encb) => ctx.outcome(class(e)),
                (e, g) => {
                    ctx.fail(&e_entries, "pointer-encoding-lsda", "wrong-result", format!("{}: expected {:?}, got {:?}", case(), e, g));
                    return;
                }
            }
            continue;
        }
        // place 2: addresses and set_loc
        match (exp_fde_addrs(&c, &f, &fo, &bases), full) {
            (Ok((start, range)), Ok((gf, _))) => {
                if gf.start != start || gf.range != range || gf.end != (start.wrapping_add(range) & enc::mask(addr)) {
                    ctx.fail(&e_entries, "pointer-encoding-fde-address", "wrong-decoded-value", format!("{}: got {:?} want start {:#x} range {:#x}", case(), gf, start, range));
                    return;
                }
                ctx.outcome(if encb & 0x80 != 0 { "enc:fde-address-indirect-ignored" } else { "enc:value-direct" });
                // set_loc operand
                let pos = (fo.insn_range.0 + 1) as u64;
                let sraw = enc::raw_for_target(encb, setloc_target, pos, &bases, None);
                match (expect_ptr(encb, sraw, pos, &bases, None, addr), &gf.insns) {
                    (PtrExp::Value { indirect: false, value }, Ok(v)) if v.first() == Some(&Insn::SetLoc(value)) && v[1..].iter().all(|x| *x == Insn::Nop) => ctx.outcome("enc:set_loc-decoded"),
                    (PtrExp::Value { indirect: true, .. }, Err(s)) if s.contains("UnsupportedIndirectPointer") => ctx.outcome("enc:set_loc-indirect-refused"),
                    (PtrExp::Value { indirect: true, value }, Ok(v)) if v.first() == Some(&Insn::SetLoc(value)) => ctx.outcome("enc:set_loc-decoded"),
                    (e, g) => {
                        ctx.fail(&entry_name(kind, "CallFrameInstructionIter::next"), "pointer-encoding-set_loc", "wrong-result", format!("{}: expected {:?}, got {:?}", case(), e, g));
                        return;
                    }
                }
            }
            // an FDE whose address encoding carries the indirect flag is well-formed and must be
            // reported (gimli reports the stored pointer); refusing it would also abort every
            // linear lookup in the section
            (Err(PtrExp::Omit), Err(_)) => ctx.outcome("enc:R-omit-refused"),
            (Err(e), Err(g)) if err_ok_for(&e, g, encb) => ctx.outcome(class(&e)),
            (e, g) => {
                ctx.fail(&e_entries, "pointer-encoding-fde-address", "wrong-result", format!("{}: expected {:?}, got {:?}", case(), e, g));
                return;
            }
        }
    }
}

fn place_hdr(ctx: &mut Ctx, place: u64, encb: u8, with: bool, addr: u8, big: bool) {
    let hdr_va = if addr == 4 { 0x6fff_f000u64 } else { 0x7ffe_ffff_f000 };
    let mut hb = bases_for(addr, with, hdr_va);
    if with {
        hb.data = Some(hdr_va + 0x100);
    }
    let gb = scan::mk_bases(&Bases::default(), &hb);
    let e_parse = "EhFrameHdr::parse";
    for &raw in RAWS.iter() {
        let mut spec = HdrSpec {
            version: 1,
            ptr_enc: enc::PE_UDATA4,
            count_enc: enc::PE_UDATA4,
            table_enc: enc::PE_UDATA4,
            ptr_raw: 0x3000,
            count_raw: 1,
            table: vec![(Ptr::Raw(0x1000), Ptr::Raw(0x3040))],
        };
        match place {
            3 => {
                spec.ptr_enc = encb;
                spec.ptr_raw = raw;
            }
            4 => {
                spec.count_enc = encb;
                spec.count_raw = raw;
            }
            _ => {
                spec.table_enc = encb;
                spec.count_raw = 3;
                spec.table = (0..3u64).map(|j| (Ptr::Raw(raw.wrapping_add(0x10 * j)), Ptr::Raw(0x100 * (j + 1)))).collect();
            }
        }
        let (bytes, out) = enc::build_hdr(&spec, big, addr, &hb);
        let case = || format!("place={} enc={:#04x} raw={:#x} bases={:?} addr{} {} hdr={}", ["", "", "", "hdr-eh_frame_ptr", "hdr-fde_count", "hdr-table"][place as usize], encb, raw, hb, addr, if big { "BE" } else { "LE" }, mcx::hex(&bytes));
        ctx.eval(1);
        ctx.nontriv(1);
        let hdr = EhFrameHdr::new(&bytes, glue::endian(big));
        let parsed = match guard(|| hdr.parse(&gb, addr)) {
            Ok(p) => p,
            Err(p) => {
                ctx.fail_panic(e_parse, &p, case());
                return;
            }
        };
        match place {
            3 => {
                let exp = expect_ptr(encb, raw, out.ptr_pos as u64, &hb, None, addr);
                match (&exp, &parsed) {
                    (PtrExp::Value { indirect, value }, Ok(p)) if scan::ptr_of(p.eh_frame_ptr()) == (*indirect, *value) => ctx.outcome(class(&exp)),
                    (e, Err(g)) if err_ok_for(e, g, encb) => ctx.outcome(class(e)),
                    (e, g) => {
                        ctx.fail(e_parse, "pointer-encoding-hdr-ptr", "wrong-result", format!("{}: expected {:?}, got {:?}", case(), e, g.as_ref().map(|p| p.eh_frame_ptr())));
                        return;
                    }
                }
            }
            4 => {
                if !enc::pe_defined(encb) {
                    match &parsed {
                        Err(g) if err_ok_for(&PtrExp::Undefined, g, encb) => ctx.outcome("enc:undefined-rejected"),
                        g => {
                            ctx.fail(e_parse, "pointer-encoding-hdr-count", "accepted-invalid-encoding", format!("{}: {:?}", case(), g.as_ref().map(|_| "Ok")));
                            return;
                        }
                    }
                    continue;
                }
                let p = match &parsed {
                    Ok(p) => p,
                    Err(gimli::Error::UnsupportedPointerEncoding(_)) if encb != enc::PE_OMIT && encb & 0xf0 != 0 => {
                        ctx.outcome("enc:count-with-application-refused");
                        continue;
                    }
                    Err(g) => {
                        ctx.fail(e_parse, "pointer-encoding-hdr-count", "rejected-valid-encoding", format!("{}: {:?}", case(), g));
                        return;
                    }
                };
                let want: u64 = if encb == enc::PE_OMIT { 0 } else { enc::raw_value(encb & 0x0f, raw, addr) };
                let got = guard(|| p.table().map(|t| Iterator::size_hint(&t.iter(&gb))));
                let got = match got {
                    Ok(g) => g,
                    Err(pn) => {
                        ctx.fail_panic("ParsedEhFrameHdr::table", &pn, case());
                        return;
                    }
                };
                let ok = match got {
                    None => want == 0,
                    Some((lo, hi)) => want != 0 && (usize::try_from(want).ok() == hi) && (lo as u64 == want || hi.is_none()),
                };
                if !ok {
                    ctx.fail(e_parse, "pointer-encoding-hdr-count", "wrong-decoded-value", format!("{}: table/size_hint {:?}, want count {}", case(), got, want));
                    return;
                }
                ctx.outcome(if encb == enc::PE_OMIT { "enc:omit" } else { "enc:value-direct" });
            }
            _ => {
                if !enc::pe_defined(encb) {
                    match &parsed {
                        Err(g) if err_ok_for(&PtrExp::Undefined, g, encb) => ctx.outcome("enc:undefined-rejected"),
                        g => {
                            ctx.fail(e_parse, "pointer-encoding-hdr-table", "accepted-invalid-encoding", format!("{}: {:?}", case(), g.as_ref().map(|_| "Ok")));
                            return;
                        }
                    }
                    continue;
                }
                let p = match &parsed {
                    Ok(p) => p,
                    Err(g) => {
                        ctx.fail(e_parse, "pointer-encoding-hdr-table", "rejected-valid-encoding", format!("{}: {:?}", case(), g));
                        return;
                    }
                };
                let Some(table) = p.table() else {
                    if encb == enc::PE_OMIT {
                        ctx.outcome("enc:omit");
                    } else {
                        ctx.fail(e_parse, "pointer-encoding-hdr-table", "missing-table", case());
                        return;
                    }
                    continue;
                };
                if encb == enc::PE_OMIT {
                    ctx.fail(e_parse, "pointer-encoding-hdr-table", "table-with-omit-encoding", case());
                    return;
                }
                ctx.eval(3);
                let walked = guard(|| {
                    let mut v = vec![];
                    let mut it = table.iter(&gb);
                    for _ in 0..5 {
                        match it.next() {
                            Ok(Some((a, b))) => v.push(Ok((scan::ptr_of(a), scan::ptr_of(b)))),
                            Ok(None) => break,
                            Err(e) => {
                                v.push(Err(e));
                                break;
                            }
                        }
                    }
                    v
                });
                let walk = match walked {
                    Ok(w) => w,
                    Err(pn) => {
                        ctx.fail_panic("EhHdrTableIter::next", &pn, case());
                        return;
                    }
                };
                // expectation entry by entry
                let mut k = 0usize;
                let mut ok = true;
                let mut last = PtrExp::Omit;
                'outer: for j in 0..3usize {
                    let (p0, p1) = out.entry_pos[j];
                    for (half, pos) in [(0, p0), (1, p1)] {
                        let r = if half == 0 { spec.table[j].0 } else { spec.table[j].1 };
                        let Ptr::Raw(r) = r else { unreachable!() };
                        let exp = expect_ptr(encb, r, pos as u64, &hb, None, addr);
                        last = exp;
                        match exp {
                            PtrExp::Value { indirect, value } => {
                                match walk.get(k) {
                                    Some(Ok(pair)) => {
                                        let g = if half == 0 { pair.0 } else { pair.1 };
                                        if g != (indirect, value) {
                                            ok = false;
                                            break 'outer;
                                        }
                                    }
                                    _ => {
                                        ok = false;
                                        break 'outer;
                                    }
                                }
                            }
                            other => {
                                ok = matches!(walk.get(k), Some(Err(g)) if err_ok_for(&other, g, encb)) && walk.len() == k + 1;
                                break 'outer;
                            }
                        }
                    }
                    k += 1;
                }
                if ok && matches!(last, PtrExp::Value { .. }) && walk.len() != 3 {
                    ok = false;
                }
                if !ok {
                    ctx.fail("EhHdrTableIter::next", "pointer-encoding-hdr-table", "wrong-decoded-value", format!("{}: walked {:?} (last expectation {:?})", case(), walk, last));
                    return;
                }
                ctx.outcome(class(&last));
            }
        }
    }
}

pub fn subs(_tier: Tier) -> Vec<Sub> {
    vec![Sub::new(
        "pointer-encodings-256",
        256 * 6 * 2 * 2 * 2,
        "all 256 encoding bytes x place {CIE personality (P), CIE L + FDE LSDA, CIE R + FDE initial location / range / set_loc operand, hdr eh_frame_ptr, hdr fde_count, hdr table entries} x base addresses {none, all set} x address size {4,8} x {LE,BE} x 15 stored bit patterns {0,1,0x7f,0x80,0x7fff,0x8000,0xffff,2^31-1,2^31,2^32-1,2^32,2^63-1,2^63,-4,-1}: undefined bytes rejected, missing bases reported, otherwise decoded value = base + zero/sign-extended stored value modulo 2^(8*address_size) with the indirect flag reported",
        move |ctx, i| {
            let mut mx = Mix(i);
            let encb = mx.take(256) as u8;
            let place = mx.take(6);
            let with = mx.flag();
            let addr = *mx.pick(&[4u8, 8]);
            let big = mx.flag();
            if place < 3 {
                place_cie(ctx, place, encb, with, addr, big);
            } else {
                place_hdr(ctx, place, encb, with, addr, big);
            }
            if ctx.want_sample() && crate::glue::sample_here(i, 41) {
                ctx.sample(format!("enc={:#04x} place={} bases={} addr{} {}", encb, place, with, addr, if big { "BE" } else { "LE" }));
            }
        },
    )]
}

pub fn required() -> Vec<String> {
    ["enc:undefined-rejected", "enc:omit", "enc:aligned-refused", "enc:missing-base-error", "enc:value-direct", "enc:value-indirect", "enc:set_loc-decoded", "enc:set_loc-indirect-refused", "enc:count-with-application-refused"]
        .iter()
        .map(|s| s.to_string())
        .collect()
}
