//! C07: expression decoding and evaluation equal the DWARF stack machine.
use super::glue::*;
use super::model::*;
use gimli::{EndianSlice, Expression, Operation, Reader};
use mcx::enc::Enc;
use mcx::{guard, CheckDef, Ctx, Sub, Tier};

// ---------------------------------------------------------------------------
// Configurations

fn cfg_of(asz: u8, fmt64: bool, ver: u16, big: bool) -> Cfg {
    Cfg { asz, fmt64, ver, big }
}

fn all_cfgs() -> Vec<Cfg> {
    let mut v = vec![];
    for asz in [1u8, 2, 4, 8] {
        for fmt64 in [false, true] {
            for ver in [2u16, 3, 4, 5] {
                for big in [false, true] {
                    v.push(cfg_of(asz, fmt64, ver, big));
                }
            }
        }
    }
    v
}

// ---------------------------------------------------------------------------
// (a) decode

/// Boundary values of one operand kind: (value, canonical) — raw LEB specials are separate.
fn values(k: K, cfg: &Cfg) -> Vec<u64> {
    let m = cfg.mask();
    match k {
        K::U1 | K::S1 => vec![0, 1, 0x7f, 0x80, 0xff],
        K::U2 | K::S2 => vec![0, 1, 0x7fff, 0x8000, 0xffff, 0x0102],
        K::U4 | K::S4 => vec![0, 1, 0x7fff_ffff, 0x8000_0000, 0xffff_ffff, 0x0102_0304],
        K::U8 | K::S8 => vec![0, 1, i64::MAX as u64, 1 << 63, u64::MAX, 0x0102_0304_0506_0708],
        K::Uleb => vec![0, 1, 0x7f, 0x80, 0x3fff, 0x4000, 0xffff, 0x1_0000, 0xffff_ffff, 0x1_0000_0000, (1 << 61) - 1, 1 << 61, 1 << 63, u64::MAX],
        K::Sleb => vec![0, 1, (-1i64) as u64, 63, 64, (-64i64) as u64, (-65i64) as u64, 0x7fff, (-0x8000i64) as u64, i64::MAX as u64, i64::MIN as u64],
        K::Addr => vec![0, 1, m, m >> 1, (m >> 1) + 1, 0x0102_0304_0506_0708 & m],
        K::Off => {
            let om = if cfg.fmt64 { u64::MAX } else { 0xffff_ffff };
            vec![0, 1, om, 0x0102_0304_0506_0708 & om]
        }
        K::Ref => {
            let om = if cfg.ver == 2 { m } else if cfg.fmt64 { u64::MAX } else { 0xffff_ffff };
            vec![0, 1, om, 0x0102_0304_0506_0708 & om]
        }
        K::WasmIdx => vec![0, 1, 0x7f, 0x80, 0xffff_ffff],
        K::Blk | K::Blk1 => vec![],
    }
}

fn blobs(k: K) -> Vec<Vec<u8>> {
    match k {
        K::Blk => vec![vec![], vec![0x50], vec![1, 2, 3], vec![0xaa; 128]],
        K::Blk1 => vec![vec![], vec![0x80], vec![1, 2, 3, 4], vec![0x55; 255]],
        _ => vec![],
    }
}

/// All operations of one opcode over the boundary patterns.
fn ops_of(code: u8, cfg: &Cfg) -> Vec<Op> {
    let Some(l) = layout(code) else { return vec![] };
    let mut out = vec![Op::n(code)];
    let mut slot = 0;
    for &k in l {
        let mut next = vec![];
        if matches!(k, K::Blk | K::Blk1) {
            for o in &out {
                for b in blobs(k) {
                    let mut o = o.clone();
                    o.blob = b;
                    next.push(o);
                }
            }
        } else {
            for o in &out {
                let vals = if k == K::WasmIdx && o.a > 3 { vec![0] } else { values(k, cfg) };
                let first_vals: Vec<u64> = if code == WASM_LOCATION && slot == 0 { vec![0, 1, 2, 3, 4, 0xff] } else { vals };
                for v in first_vals {
                    let v = match k {
                        K::S1 => v as u8 as i8 as i64 as u64,
                        K::S2 => v as u16 as i16 as i64 as u64,
                        K::S4 => v as u32 as i32 as i64 as u64,
                        _ => v,
                    };
                    let mut o = o.clone();
                    if slot == 0 {
                        o.a = v;
                    } else {
                        o.b = v;
                    }
                    next.push(o);
                }
            }
            slot += 1;
        }
        out = next;
    }
    out
}

/// Raw LEB128 operand encodings that `encode` never produces.
fn raw_lebs() -> Vec<Vec<u8>> {
    let mut v = vec![
        vec![0x80, 0x00],                                                       // padded zero
        vec![0xff, 0x00],                                                       // 127 padded
        vec![0x80, 0x7f],                                                       // sleb -128 / uleb 0x3f80
        vec![0xff, 0xff, 0x03],                                                 // 0xffff
        vec![0x80, 0x80, 0x04],                                                 // 0x10000: register above u16
        vec![0xff, 0xff, 0xff, 0xff, 0x0f],                                     // u32::MAX
        vec![0x80, 0x80, 0x80, 0x80, 0x10],                                     // 2^32
        vec![0x80, 0x80, 0x80, 0x80, 0x80, 0x80, 0x80, 0x80, 0x20],             // 2^61
        vec![0xff, 0xff, 0xff, 0xff, 0xff, 0xff, 0xff, 0xff, 0xff, 0x01],       // u64::MAX
        vec![0xff, 0xff, 0xff, 0xff, 0xff, 0xff, 0xff, 0xff, 0xff, 0x7f],       // uleb: too large; sleb: -1 padded
        vec![0x80, 0x80, 0x80, 0x80, 0x80, 0x80, 0x80, 0x80, 0x80, 0x02],       // 2^64
        vec![0x80, 0x80, 0x80, 0x80, 0x80, 0x80, 0x80, 0x80, 0x80, 0x7f],       // sleb i64::MIN
    ];
    v.push(vec![0x80]); // unterminated
    v
}

fn check_decode(ctx: &mut Ctx, cfg: &Cfg, bytes: &[u8]) {
    ctx.eval(1);
    let want = decode(bytes, 0, cfg);
    let mut r = EndianSlice::new(bytes, endian(cfg));
    let got = guard(|| Operation::parse(&mut r, encoding(cfg)));
    let used = bytes.len() - r.len();
    let case = || format!("{} bytes [{}]", cfg.name(), mcx::hex(bytes));
    match (got, want) {
        (Err(p), _) => ctx.fail_panic("Operation::parse", &p, case()),
        (Ok(Ok(g)), Ok((op, n))) => {
            let s = sem(&op, cfg);
            let unrep = matches!(s, Sem::Piece { bits, .. } if bits > u64::MAX as u128);
            if unrep {
                ctx.fail("Operation::parse", "piece-size", "accepted-unrepresentable-size", format!("{}: got {:?}, but the size in bits does not fit 64 bits", case(), g));
            } else if from_gimli(&g) != s {
                ctx.fail("Operation::parse", &format!("decode:{}", mnemonic(op.code)), "wrong-operands", format!("{}: got {:?} want {:?}", case(), g, s));
            } else if used != n {
                ctx.fail("Operation::parse", &format!("decode:{}", mnemonic(op.code)), "wrong-length", format!("{}: consumed {} want {}", case(), used, n));
            }
            ctx.outcome("decode:ok");
            ctx.nontriv(1);
        }
        (Ok(Ok(g)), Err(e)) => ctx.fail("Operation::parse", &format!("decode:{}", mnemonic(bytes[0])), "accepted-bad-encoding", format!("{}: got {:?} want {:?}", case(), g, e)),
        (Ok(Err(ge)), Ok((op, _))) => {
            let s = sem(&op, cfg);
            if matches!(s, Sem::Piece { bits, .. } if bits > u64::MAX as u128) {
                ctx.outcome("decode:err-piece-unrepresentable");
            } else {
                ctx.fail("Operation::parse", &format!("decode:{}", mnemonic(op.code)), &format!("rejected:{}", class_of(&ge)), format!("{}: got Err({:?}) want {:?}", case(), ge, s));
            }
        }
        (Ok(Err(ge)), Err(e)) => {
            let c = class_of(&ge);
            if !dec_err_classes(e).contains(&c) {
                ctx.fail("Operation::parse", &format!("decode:{}", if bytes.is_empty() { "empty".into() } else { mnemonic(bytes[0]) }), &format!("wrong-error:{}", c), format!("{}: got Err({:?}) want {:?}", case(), ge, e));
            }
            ctx.outcome(match e {
                DecErr::Eof => "decode:err-eof",
                DecErr::BadOp => "decode:err-badop",
                DecErr::Leb => "decode:err-leb",
                DecErr::Reg => "decode:err-register",
            });
        }
    }
}

fn decode_case(ctx: &mut Ctx, code: u8, cfg: &Cfg) {
    // canonical encodings, every truncation, one trailing byte
    let ops = ops_of(code, cfg);
    if ops.is_empty() {
        // not an operation: alone, and followed by bytes
        for tail in [&[][..], &[0u8][..], &[0xff, 0xff, 0xff, 0xff, 0xff, 0xff, 0xff, 0xff, 0xff][..]] {
            let mut b = vec![code];
            b.extend_from_slice(tail);
            check_decode(ctx, cfg, &b);
        }
        return;
    }
    for op in &ops {
        let mut e = Enc::new(cfg.big);
        encode(op, cfg, &mut e);
        let b = e.buf;
        // self-check of the model codec
        match decode(&b, 0, cfg) {
            Ok((o2, n)) => {
                let canon_same = o2 == *op || (code == WASM_LOCATION && op.a > 3);
                if !(canon_same && n == b.len()) && !(code == WASM_LOCATION && op.a > 3) {
                    ctx.machinery(format!("model codec round trip failed for {:?} -> {} -> {:?}", op, mcx::hex(&b), o2));
                }
            }
            Err(e) => {
                let fine = (code == WASM_LOCATION && op.a > 3) || (e == DecErr::Reg);
                if !fine {
                    ctx.machinery(format!("model codec cannot decode its own encoding of {:?}: {:?}", op, e));
                }
            }
        }
        check_decode(ctx, cfg, &b);
        for cut in 0..b.len() {
            // long blocks: only the interesting cuts
            if b.len() > 24 && cut > 12 && cut + 3 < b.len() {
                continue;
            }
            check_decode(ctx, cfg, &b[..cut]);
        }
        let mut b2 = b.clone();
        b2.push(0xaa);
        check_decode(ctx, cfg, &b2);
        if ctx.want_sample() {
            ctx.sample(format!("{} {} = [{}] and its truncations", cfg.name(), render_op(op), mcx::hex(&b)));
        }
    }
    // raw LEB operands in every LEB position (other operands minimal)
    let l = layout(code).unwrap();
    for (pos, &k) in l.iter().enumerate() {
        if !matches!(k, K::Uleb | K::Sleb | K::Blk | K::WasmIdx) {
            continue;
        }
        for raw in raw_lebs() {
            let mut b = vec![code];
            let mut first = 0u64;
            for (j, &kj) in l.iter().enumerate() {
                if j == pos {
                    b.extend_from_slice(&raw);
                    continue;
                }
                match kj {
                    K::U1 | K::S1 | K::Uleb | K::Sleb | K::Blk | K::Blk1 | K::WasmIdx => b.push(0),
                    K::U2 | K::S2 => b.extend_from_slice(&[0; 2]),
                    K::U4 | K::S4 => b.extend_from_slice(&[0; 4]),
                    K::U8 | K::S8 => b.extend_from_slice(&[0; 8]),
                    K::Addr => b.extend(std::iter::repeat(0).take(cfg.asz as usize)),
                    K::Off => b.extend(std::iter::repeat(0).take(if cfg.fmt64 { 8 } else { 4 })),
                    K::Ref => b.extend(std::iter::repeat(0).take(if cfg.ver == 2 { cfg.asz as usize } else if cfg.fmt64 { 8 } else { 4 })),
                }
                if j == 0 {
                    first = 0;
                }
            }
            let _ = first;
            check_decode(ctx, cfg, &b);
            // block lengths: also with some payload present
            if k == K::Blk {
                let mut b3 = b.clone();
                b3.extend_from_slice(&[0x11; 4]);
                check_decode(ctx, cfg, &b3);
            }
        }
    }
}

// ---------------------------------------------------------------------------
// Program alphabet

pub const T_CONST: u64 = 0x31;
pub const T_REGVAL: u64 = 0x32;
pub const T_DEREF: u64 = 0x33;
pub const T_CONVERT: u64 = 0x34;
pub const T_REINTERPRET: u64 = 0x35;

pub fn alphabet(cfg: &Cfg) -> Vec<Op> {
    let mut v = vec![
        // constants
        Op::n(LIT0),
        Op::n(LIT0 + 1),
        Op::n(LIT0 + 31),
        Op::s(CONST1S, -1),
        Op::u(CONST1U, 0x80),
        Op::u(CONST2U, 0x8000),
        Op::u(CONST4U, 0x8000_0000),
        Op::u(CONST8U, 1 << 63),
        Op::u(CONSTU, u64::MAX),
        Op::s(CONSTS, i64::MIN),
        // unary
        Op::n(ABS),
        Op::n(NEG),
        Op::n(NOT),
        Op::u(PLUS_UCONST, 1),
    ];
    for c in [AND, DIV, MINUS, MOD, MUL, OR, PLUS, SHL, SHR, SHRA, XOR, EQ, GE, GT, LE, LT, NE] {
        v.push(Op::n(c));
    }
    v.extend([Op::n(DUP), Op::n(DROP), Op::n(OVER), Op::u(PICK, 2), Op::n(SWAP), Op::n(ROT)]);
    v.extend([Op::n(NOP), Op::s(SKIP, 0), Op::s(SKIP, -3), Op::s(BRA, 1), Op::s(BRA, -4), Op::s(SKIP, 0x7fff)]);
    v.extend([
        Op::n(REG0),
        Op::u(REGX, 40),
        Op::n(STACK_VALUE),
        Op::u(PIECE, 4),
        Op::uu(BIT_PIECE, 3, 1),
        Op::blk(IMPLICIT_VALUE, &[0xaa, 0xbb]),
        Op::us(IMPLICIT_POINTER, 0x10, -1),
    ]);
    v.extend([
        Op::s(BREG0, 1),
        Op::us(BREGX, 40, -1),
        Op::s(FBREG, -1),
        Op::n(DEREF),
        Op::u(DEREF_SIZE, 1),
        Op::u(DEREF_SIZE, 9),
        Op::n(XDEREF),
        Op::n(PUSH_OBJECT_ADDRESS),
        Op::n(CALL_FRAME_CFA),
        Op::n(FORM_TLS_ADDRESS),
        Op::u(ADDR, (1u64 << (cfg.bits() - 1)) | 1),
        Op::u(ADDRX, 1),
        Op::u(CONSTX, 2),
        Op::u(CALL2, 0x11),
        Op::u(CALL4, 0x22),
        Op::u(CALL_REF, 0x33),
        Op::blk(ENTRY_VALUE, &[REG0]),
        Op::u(GNU_PARAMETER_REF, 0x44),
        Op::ublk(CONST_TYPE, T_CONST, &[0x01, 0x02, 0x03, 0x84]),
        Op::uu(REGVAL_TYPE, 1, T_REGVAL),
        Op::uu(DEREF_TYPE, 2, T_DEREF),
        Op::u(CONVERT, 0),
        Op::u(CONVERT, T_CONVERT),
        Op::u(REINTERPRET, T_REINTERPRET),
        Op::uu(WASM_LOCATION, 0, 1),
        Op::uu(WASM_LOCATION, 1, 2),
        Op::uu(WASM_LOCATION, 2, 3),
    ]);
    v
}

pub fn format_sensitive(op: &Op) -> bool {
    matches!(op.code, CALL_REF | IMPLICIT_POINTER)
}

// ---------------------------------------------------------------------------
// Answers

pub const DEFAULT_VAL: MVal = MVal::G(6, false);
pub const DEFAULT_U: u64 = 0x10;

pub fn expr_pool(cfg: &Cfg) -> Vec<Vec<u8>> {
    vec![
        encode_all(&[Op::n(LIT0 + 1)], cfg),                          // default
        vec![],                                                       // no DW_AT_location
        encode_all(&[Op::n(REG0)], cfg),                              // a register location
        encode_all(&[Op::u(CALL4, 0x77), Op::n(DUP)], cfg),           // a program that itself calls
        encode_all(&[Op::s(SKIP, -3)], cfg),                          // a looping program
        encode_all(&[Op::n(LIT0 + 2), Op::n(STACK_VALUE)], cfg),      // a value location
    ]
}

pub fn default_answer(r: &Request, pool: &[Vec<u8>]) -> Answer {
    match r {
        Request::Memory { .. } | Request::Register { .. } | Request::EntryValue(_) | Request::WasmLocal(_) | Request::WasmGlobal(_) | Request::WasmStack(_) => Answer::Val(DEFAULT_VAL),
        Request::FrameBase | Request::Tls(_) | Request::Cfa | Request::ParameterRef(_) | Request::RelocatedAddress(_) | Request::IndexedAddress { .. } => Answer::U(DEFAULT_U),
        Request::BaseType(0) => Answer::Ty(VT::G),
        Request::BaseType(_) => Answer::Ty(VT::U32),
        Request::AtLocation(_) => Answer::Expr(pool[0].clone()),
    }
}

pub fn typed_values(tier: Tier) -> Vec<MVal> {
    let mut v = vec![
        MVal::I8(-3),
        MVal::U8(0x80),
        MVal::I16(-2),
        MVal::U16(0xffff),
        MVal::I32(i32::MIN),
        MVal::U32(0x8000_0001),
        MVal::I64(-1),
        MVal::U64(1 << 63),
        MVal::F32(1.5),
        MVal::F64(-2.0),
    ];
    if tier == Tier::Thorough {
        v.extend([MVal::F32(f32::NAN), MVal::F64(f64::INFINITY), MVal::F32(0.0), MVal::I8(i8::MIN), MVal::U32(31)]);
    }
    v
}

/// Every alternative answer to a request (the default excluded).
pub fn alternatives(r: &Request, cfg: &Cfg, pool: &[Vec<u8>], tier: Tier) -> Vec<Answer> {
    match r {
        Request::Memory { .. } | Request::Register { .. } | Request::EntryValue(_) | Request::WasmLocal(_) | Request::WasmGlobal(_) | Request::WasmStack(_) => {
            let mut v = vec![Answer::Val(MVal::G(0, false)), Answer::Val(MVal::G(cfg.mask(), false))];
            v.extend(typed_values(tier).into_iter().map(Answer::Val));
            v
        }
        Request::FrameBase | Request::Tls(_) | Request::Cfa | Request::ParameterRef(_) | Request::RelocatedAddress(_) | Request::IndexedAddress { .. } => vec![Answer::U(0), Answer::U(cfg.mask())],
        Request::BaseType(o) => {
            let d = if *o == 0 { VT::G } else { VT::U32 };
            ALL_VT.iter().filter(|t| **t != d).map(|t| Answer::Ty(*t)).collect()
        }
        Request::AtLocation(_) => pool[1..].iter().map(|p| Answer::Expr(p.clone())).collect(),
    }
}

// ---------------------------------------------------------------------------
// Reporting

pub fn report(ctx: &mut Ctx, entry: &str, s: &Setup<'_>, t: &Trace) -> bool {
    for tag in &t.tags {
        ctx.outcome(tag);
    }
    if let Some(p) = &t.panic {
        ctx.fail_panic(entry, p, render_case(s, t));
        return false;
    }
    if let Some(m) = &t.mism {
        ctx.fail(entry, &m.site, &m.kind, format!("{} :: {}", render_case(s, t), m.detail));
        return false;
    }
    if t.unspec.is_some() {
        ctx.outcome("unspecified-by-standard-and-rustdoc");
    } else {
        ctx.nontriv(1);
    }
    true
}

/// gimli's limit for "unlimited" runs and the model cap that makes the comparison
/// rigorous: the model counts every decoded operation, gimli at least half of them.
pub const GL: u32 = 100;
pub const ML: u64 = 2 * GL as u64 + 1;

/// One run with planned answers; unlimited semantics.
pub fn run_plan<'a>(ctx: &mut Ctx, entry: &str, cfg: Cfg, code: &'a [u8], init: Option<u64>, obj: Option<u64>, pool: &'a [Vec<u8>], plan: &[(usize, Answer)]) -> Trace {
    let s = Setup { cfg, code, init, obj, glimit: Some(GL), mlimit: Some(ML), pool, mcode: None, sem_blobs: false };
    let mut t = lockstep(&s, &mut |k, r| match plan.iter().find(|(i, _)| *i == k) {
        Some((_, a)) => a.clone(),
        None => default_answer(r, pool),
    });
    ctx.eval(1);
    // a model run longer than gimli's limit but shorter than the cap cannot be compared
    if t.mism.is_some() && t.n_ops > GL as u64 && t.n_ops <= ML {
        t.mism = None;
        t.unspec = Some("indeterminate: run length between the two limits");
        ctx.outcome("indeterminate-length");
    }
    report(ctx, entry, &s, &t);
    t
}

fn check_iter(ctx: &mut Ctx, cfg: &Cfg, code: &[u8]) {
    // OperationIter over the whole program == model decode sequence with offsets
    ctx.eval(1);
    let expr = Expression(EndianSlice::new(code, endian(cfg)));
    let mut it = expr.operations(encoding(cfg));
    let mut pos = 0usize;
    loop {
        let want = if pos >= code.len() { None } else { Some(decode(code, pos, cfg)) };
        let got = guard(|| it.next());
        let case = || format!("{} bytes [{}] at offset {}", cfg.name(), mcx::hex(code), pos);
        match (got, want) {
            (Err(p), _) => {
                ctx.fail_panic("OperationIter::next", &p, case());
                return;
            }
            (Ok(Ok(None)), None) => return,
            (Ok(Ok(Some(g))), Some(Ok((op, n)))) => {
                let s = sem(&op, cfg);
                if from_gimli(&g) != s {
                    ctx.fail("OperationIter::next", &format!("decode:{}", mnemonic(op.code)), "wrong-operands", format!("{}: got {:?} want {:?}", case(), g, s));
                    return;
                }
                let off = guard(|| it.offset_from(&expr));
                match off {
                    Ok(o) if o == n => {}
                    Ok(o) => {
                        ctx.fail("OperationIter::offset_from", "offset", "wrong-offset", format!("{}: offset {} want {}", case(), o, n));
                        return;
                    }
                    Err(p) => {
                        ctx.fail_panic("OperationIter::offset_from", &p, case());
                        return;
                    }
                }
                pos = n;
            }
            (Ok(Err(e)), Some(Err(d))) => {
                if !dec_err_classes(d).contains(&class_of(&e)) {
                    ctx.fail("OperationIter::next", "decode-error", &format!("wrong-error:{}", class_of(&e)), format!("{}: got {:?} want {:?}", case(), e, d));
                }
                // after an error the iterator is exhausted
                match guard(|| it.next()) {
                    Ok(Ok(None)) => {}
                    Ok(o) => ctx.fail("OperationIter::next", "after-error", "not-exhausted", format!("{}: {:?}", case(), o)),
                    Err(p) => ctx.fail_panic("OperationIter::next", &p, case()),
                }
                return;
            }
            (Ok(g), w) => {
                ctx.fail("OperationIter::next", "sequence", "wrong-sequence", format!("{}: got {:?} want {:?}", case(), g, w));
                return;
            }
        }
    }
}

// ---------------------------------------------------------------------------
// Program spaces

fn pow(n: u64, l: u32) -> u64 {
    n.checked_pow(l).expect("space too large")
}

/// Decode case index -> (cfg index, prefix symbols) for programs of length `len`
/// (`len >= 1`): the case covers every last symbol.
fn split_case(i: u64, n: u64, len: u32, ncfg: u64) -> (usize, Vec<usize>) {
    let c = (i % ncfg) as usize;
    let mut r = i / ncfg;
    let mut p = vec![0usize; (len - 1) as usize];
    for k in (0..p.len()).rev() {
        p[k] = (r % n) as usize;
        r /= n;
    }
    (c, p)
}

fn init_value(cfg: &Cfg) -> u64 {
    // a boundary initial value: the sign bit of the generic type, plus one
    (1u64 << (cfg.bits() - 1)) | 1
}

const OBJ: u64 = 0x55;

fn program_cfgs(tier: Tier, len: u32) -> Vec<Cfg> {
    let mut v = vec![];
    let sizes: &[u8] = if len >= 4 { &[4, 8] } else { &[1, 2, 4, 8] };
    let _ = tier;
    for &a in sizes {
        v.push(cfg_of(a, false, 5, false));
        v.push(cfg_of(a, true, 2, true));
    }
    v
}

fn programs_sub(tier: Tier, len: u32) -> Sub {
    let cfgs = program_cfgs(tier, len);
    let n = alphabet(&cfgs[0]).len() as u64;
    let ncfg = cfgs.len() as u64;
    let cases = if len == 0 { ncfg } else { pow(n, len - 1) * ncfg };
    let bound = format!(
        "every program of exactly {} operations over the {}-symbol alphabet x address size {:?} x (dwarf32/v5/LE, dwarf64/v2/BE) [+ all format x version{{2,5}} x endian for programs with call_ref/implicit_pointer] x initial value unset/set, default answers; Evaluation vs machine, OperationIter vs model decode",
        len,
        n,
        if len >= 4 { vec![4, 8] } else { vec![1, 2, 4, 8] }
    );
    Sub::new(&format!("programs-len{}", len), cases, &bound, move |ctx, i| {
        let (ci, prefix) = if len == 0 { (i as usize, vec![]) } else { split_case(i, n, len, ncfg) };
        let base = cfgs[ci];
        let lasts: Vec<Option<usize>> = if len == 0 { vec![None] } else { (0..n as usize).map(Some).collect() };
        for last in lasts {
            let mut syms = prefix.clone();
            if let Some(l) = last {
                syms.push(l);
            }
            let mut run_cfgs = vec![base];
            {
                let al = alphabet(&base);
                if syms.iter().any(|&s| format_sensitive(&al[s])) && !base.fmt64 {
                    // the base pair covers (32,v5,LE) and (64,v2,BE); add the other six
                    for fmt64 in [false, true] {
                        for ver in [2u16, 5] {
                            for big in [false, true] {
                                let c = cfg_of(base.asz, fmt64, ver, big);
                                if c != base && !(fmt64 && ver == 2 && big) {
                                    run_cfgs.push(c);
                                }
                            }
                        }
                    }
                }
            }
            for cfg in run_cfgs {
                let al = alphabet(&cfg);
                let ops: Vec<Op> = syms.iter().map(|&s| al[s].clone()).collect();
                let code = encode_all(&ops, &cfg);
                let pool = expr_pool(&cfg);
                check_iter(ctx, &cfg, &code);
                for init in [None, Some(init_value(&cfg))] {
                    let t = run_plan(ctx, "Evaluation::evaluate", cfg, &code, init, Some(OBJ), &pool, &[]);
                    if ctx.want_sample() && !t.reqs.is_empty() && t.fin == "complete" {
                        let s = Setup { cfg, code: &code, init, obj: Some(OBJ), glimit: Some(GL), mlimit: Some(ML), pool: &pool, mcode: None, sem_blobs: false };
                        ctx.sample(format!("{} -> {}", render_case(&s, &t), t.fin));
                    }
                }
            }
        }
    })
}

// ---------------------------------------------------------------------------
// (c) protocol states

fn protocol_program(ctx: &mut Ctx, tier: Tier, cfg: Cfg, code: &[u8], init: Option<u64>, pool: &[Vec<u8>], depth: usize) {
    let entry = "Evaluation::evaluate";
    let t0 = run_plan(ctx, entry, cfg, code, init, Some(OBJ), pool, &[]);
    ctx.states += t0.reqs.len() as u64 + 1;
    ctx.transitions += t0.calls;
    ctx.traces += 1;
    if t0.mism.is_some() || t0.panic.is_some() {
        return;
    }
    for k in 0..t0.reqs.len() {
        for alt in alternatives(&t0.reqs[k], &cfg, pool, tier) {
            let plan1 = vec![(k, alt)];
            let t1 = run_plan(ctx, entry, cfg, code, init, Some(OBJ), pool, &plan1);
            ctx.states += (t1.reqs.len() - k.min(t1.reqs.len())) as u64 + 1;
            ctx.transitions += t1.calls;
            ctx.traces += 1;
            ctx.outcome("protocol:single-deviation");
            if depth < 2 || t1.mism.is_some() || t1.panic.is_some() {
                continue;
            }
            for k2 in k + 1..t1.reqs.len() {
                for alt2 in alternatives(&t1.reqs[k2], &cfg, pool, tier) {
                    let mut plan2 = plan1.clone();
                    plan2.push((k2, alt2));
                    let t2 = run_plan(ctx, entry, cfg, code, init, Some(OBJ), pool, &plan2);
                    ctx.states += (t2.reqs.len() - k2.min(t2.reqs.len())) as u64 + 1;
                    ctx.transitions += t2.calls;
                    ctx.traces += 1;
                    ctx.outcome("protocol:pair-deviation");
                }
            }
        }
    }
}

fn protocol_sub(tier: Tier, len: u32, depth: usize) -> Sub {
    let sizes: Vec<u8> = if len >= 4 { vec![4, 8] } else { vec![1, 2, 4, 8] };
    let cfgs: Vec<Cfg> = sizes.iter().map(|&a| cfg_of(a, false, 5, false)).collect();
    let n = alphabet(&cfgs[0]).len() as u64;
    let ncfg = cfgs.len() as u64;
    let cases = if len == 0 { ncfg } else { pow(n, len - 1) * ncfg };
    let bound = format!(
        "protocol states of every program of exactly {} operations x address size {:?} x initial value unset/set: default answer everywhere, then every alternative answer at each single request{}; answers: values Generic 0/max + one of each typed ValueType (floats incl.), addresses 0/max, all 11 base types, at_location empty/reg0/calling/looping/value programs",
        len,
        sizes,
        if depth >= 2 { ", then every pair of deviations" } else { "" }
    );
    Sub::new(&format!("protocol-len{}-dev{}", len, depth), cases, &bound, move |ctx, i| {
        let (ci, prefix) = if len == 0 { (i as usize, vec![]) } else { split_case(i, n, len, ncfg) };
        let cfg = cfgs[ci];
        let al = alphabet(&cfg);
        let pool = expr_pool(&cfg);
        let lasts: Vec<Option<usize>> = if len == 0 { vec![None] } else { (0..n as usize).map(Some).collect() };
        for last in lasts {
            let mut syms = prefix.clone();
            if let Some(l) = last {
                syms.push(l);
            }
            let ops: Vec<Op> = syms.iter().map(|&s| al[s].clone()).collect();
            let code = encode_all(&ops, &cfg);
            for init in [None, Some(init_value(&cfg))] {
                protocol_program(ctx, tier, cfg, &code, init, &pool, depth);
            }
        }
    })
    .timeout(300)
}

// ---------------------------------------------------------------------------
// (d) iteration limits

const LIMITS: [u32; 6] = [0, 1, 2, 3, 5, 64];

fn limits_program(ctx: &mut Ctx, cfg: Cfg, code: &[u8], init: Option<u64>, obj: Option<u64>, pool: &[Vec<u8>]) {
    let entry = "Evaluation::set_max_iterations";
    // reference run: learn which operations are pieces attached to a location-completing one
    let s0 = Setup { cfg, code, init, obj, glimit: Some(GL), mlimit: Some(ML), pool, mcode: None, sem_blobs: false };
    let t0 = lockstep(&s0, &mut |_, r| default_answer(r, pool));
    ctx.eval(1);
    if t0.mism.is_some() || t0.panic.is_some() {
        // reported by the programs sub; limits are compared only on agreeing programs
        ctx.outcome("limits:skipped-disagreeing-program");
        return;
    }
    for &l in &LIMITS {
        // candidate counts of operations an implementation inside the documented band
        // may execute before stopping: l plus the attached pieces among them
        let mut cands = vec![];
        for j in 0..=t0.attached.len() as u64 {
            let within = t0.attached.iter().filter(|&&a| a <= l as u64 + j).count() as u64;
            if j <= within {
                cands.push(l as u64 + j);
            }
        }
        let mut first: Option<(Trace, u64)> = None;
        let mut ok = false;
        for &c in &cands {
            let s = Setup { cfg, code, init, obj, glimit: Some(l), mlimit: Some(c), pool, mcode: None, sem_blobs: false };
            let t = lockstep(&s, &mut |_, r| default_answer(r, pool));
            ctx.eval(1);
            if let Some(p) = &t.panic {
                ctx.fail_panic(entry, p, render_case(&s, &t));
                return;
            }
            if t.mism.is_none() {
                ok = true;
                for tag in &t.tags {
                    ctx.outcome(tag);
                }
                if t.fin == "err:iterations" {
                    ctx.outcome(if t0.n_ops > ML { "limits:stopped-divergent-program" } else { "limits:stopped-finite-program" });
                } else {
                    ctx.outcome("limits:within-limit");
                }
                if cands.len() > 1 {
                    ctx.outcome("limits:band-with-attached-piece");
                }
                ctx.nontriv(1);
                break;
            }
            if first.is_none() {
                first = Some((t, c));
            }
        }
        if !ok {
            let (t, c) = first.unwrap();
            let s = Setup { cfg, code, init, obj, glimit: Some(l), mlimit: Some(c), pool, mcode: None, sem_blobs: false };
            let m = t.mism.clone().unwrap();
            ctx.fail(if m.noted { "Evaluation::evaluate" } else { entry }, if m.noted { &m.site } else { "iteration-bound" }, &m.kind, format!("{} :: no operation count in {:?} explains it; for {}: {}", render_case(&s, &t), cands, c, m.detail));
        }
    }
}

fn limits_sub(len: u32) -> Sub {
    let cfgs: Vec<Cfg> = [1u8, 2, 4, 8].iter().map(|&a| cfg_of(a, false, 5, false)).collect();
    let n = alphabet(&cfgs[0]).len() as u64;
    let ncfg = cfgs.len() as u64;
    let cases = if len == 0 { ncfg } else { pow(n, len - 1) * ncfg };
    let bound = format!("max_iterations in {:?} on every program of exactly {} operations x address size 1/2/4/8 x (object address, initial value) unset/set, default answers; accepted: the result of the machine stopped after L..L+a operations, a = pieces decoded together with a location-completing operation", LIMITS, len);
    Sub::new(&format!("iteration-limit-len{}", len), cases, &bound, move |ctx, i| {
        let (ci, prefix) = if len == 0 { (i as usize, vec![]) } else { split_case(i, n, len, ncfg) };
        let cfg = cfgs[ci];
        let al = alphabet(&cfg);
        let pool = expr_pool(&cfg);
        let lasts: Vec<Option<usize>> = if len == 0 { vec![None] } else { (0..n as usize).map(Some).collect() };
        for last in lasts {
            let mut syms = prefix.clone();
            if let Some(l) = last {
                syms.push(l);
            }
            let ops: Vec<Op> = syms.iter().map(|&s| al[s].clone()).collect();
            let code = encode_all(&ops, &cfg);
            limits_program(ctx, cfg, &code, None, None, &pool);
            limits_program(ctx, cfg, &code, Some(init_value(&cfg)), Some(OBJ), &pool);
        }
    })
}

// ---------------------------------------------------------------------------
// (e) arithmetic on boundary operands

const BINOPS: [u8; 17] = [AND, DIV, MINUS, MOD, MUL, OR, PLUS, SHL, SHR, SHRA, XOR, EQ, GE, GT, LE, LT, NE];
const UNOPS: [u8; 3] = [ABS, NEG, NOT];

fn generic_operands(cfg: &Cfg) -> Vec<u64> {
    let n = cfg.bits() as u64;
    let m = cfg.mask();
    let half = 1u64 << (n - 1);
    let mut v = vec![0, 1, 2, 3, 7, n - 1, n, n + 1, 63, 64, 65, half - 1, half, half + 1, m - 1, m];
    if n < 64 {
        // operands that only make sense modulo 2^n (wrap-around on push)
        v.extend([m + 1, m + 2, (m + 1) | 1 << 63, u64::MAX]);
    }
    v.sort();
    v.dedup();
    v
}

fn typed_operands(t: VT) -> Vec<MVal> {
    match t {
        VT::G => vec![],
        VT::I8 => [i8::MIN, -1, 0, 1, 7, 8, i8::MAX].iter().map(|&x| MVal::I8(x)).collect(),
        VT::U8 => [0u8, 1, 7, 8, 0x80, u8::MAX].iter().map(|&x| MVal::U8(x)).collect(),
        VT::I16 => [i16::MIN, -1, 0, 1, 15, 16, i16::MAX].iter().map(|&x| MVal::I16(x)).collect(),
        VT::U16 => [0u16, 1, 15, 16, 0x8000, u16::MAX].iter().map(|&x| MVal::U16(x)).collect(),
        VT::I32 => [i32::MIN, -1, 0, 1, 31, 32, i32::MAX].iter().map(|&x| MVal::I32(x)).collect(),
        VT::U32 => [0u32, 1, 31, 32, 0x8000_0000, u32::MAX].iter().map(|&x| MVal::U32(x)).collect(),
        VT::I64 => [i64::MIN, -1, 0, 1, 63, 64, i64::MAX].iter().map(|&x| MVal::I64(x)).collect(),
        VT::U64 => [0u64, 1, 63, 64, 1 << 63, u64::MAX].iter().map(|&x| MVal::U64(x)).collect(),
        VT::F32 => [0.0f32, 1.5, -2.0, f32::NAN, f32::INFINITY].iter().map(|&x| MVal::F32(x)).collect(),
        VT::F64 => [0.0f64, 1.5, -2.0, f64::NAN, f64::INFINITY, 1e19, -1e19, 4294967296.5].iter().map(|&x| MVal::F64(x)).collect(),
    }
}

fn arith_sub() -> Sub {
    let cfgs: Vec<Cfg> = [1u8, 2, 4, 8].iter().map(|&a| cfg_of(a, false, 5, false)).collect();
    // case = (cfg, left operand class): class 0 = generic constants, 1..=10 typed
    let cases = cfgs.len() as u64 * 12;
    Sub::new(
        "arithmetic-boundary-operands",
        cases,
        "generic: constu a; constu b; <op>; stack_value for every pair of boundary operands (0,1,2,3,7,N-1,N,N+1,63,64,65,2^(N-1)-1,2^(N-1),2^(N-1)+1,2^N-2,2^N-1, and for N<64 2^N,2^N+1,2^63+2^N,2^64-1) x 17 binary ops, every operand x 3 unary ops + plus_uconst; typed: regval_type x2 answered with every pair of boundary values of every pair of the 10 typed ValueTypes (min,-1,0,1,w-1,w,max; floats 0,1.5,-2,NaN,inf) x 17 binary ops, every value x unary ops, convert and reinterpret to all 11 types; ; in-range programs whose intermediate results wrap (shl overflow, frame base + offset, neg, not, negative div/shra/minus, breg - 9) x 20 consumers (shift count, deref/xderef/TLS/piece address, branch condition, compares, div/mod/mul, abs, convert/reinterpret to all types); address size 1/2/4/8",
        move |ctx, i| {
            let cfg = cfgs[(i % 4) as usize];
            let class = (i / 4) as usize;
            let pool = expr_pool(&cfg);
            let entry = "Evaluation::evaluate";
            if class == 0 {
                let vals = generic_operands(&cfg);
                for &a in &vals {
                    for op in UNOPS {
                        let code = encode_all(&[Op::u(CONSTU, a), Op::n(op), Op::n(STACK_VALUE)], &cfg);
                        run_plan(ctx, entry, cfg, &code, None, None, &pool, &[]);
                    }
                    for c in [0u64, 1, cfg.mask(), u64::MAX] {
                        let code = encode_all(&[Op::u(CONSTU, a), Op::u(PLUS_UCONST, c), Op::n(STACK_VALUE)], &cfg);
                        run_plan(ctx, entry, cfg, &code, None, None, &pool, &[]);
                    }
                    for &b in &vals {
                        for op in BINOPS {
                            let code = encode_all(&[Op::u(CONSTU, a), Op::u(CONSTU, b), Op::n(op), Op::n(STACK_VALUE)], &cfg);
                            run_plan(ctx, entry, cfg, &code, None, None, &pool, &[]);
                        }
                    }
                }
                if ctx.want_sample() {
                    ctx.sample(format!("{}: {} generic operands, all pairs x 17 binary ops", cfg.name(), vals.len()));
                }
                return;
            }
            if class == 11 {
                // In-range programs whose intermediate generic results exceed 2^N before
                // reduction (or are "negative"), followed by every kind of consumer.
                let n = cfg.bits() as u64;
                let k = if n - 1 < 32 { Op::n(LIT0 + (n - 1) as u8) } else { Op::u(CONSTU, n - 1) };
                let producers: Vec<(Vec<Op>, Vec<(usize, Answer)>)> = vec![
                    // (2^(N-1) + 1) << 1 == 2 (mod 2^N)
                    (vec![Op::n(LIT0 + 1), k.clone(), Op::n(SHL), Op::n(LIT0 + 1), Op::n(OR), Op::n(LIT0 + 1), Op::n(SHL)], vec![]),
                    // 2^(N-1) << 1 == 0
                    (vec![Op::n(LIT0 + 1), k.clone(), Op::n(SHL), Op::n(LIT0 + 1), Op::n(SHL)], vec![]),
                    // frame base 2^N - 1 plus 3 == 2
                    (vec![Op::s(FBREG, 3)], vec![(0, Answer::U(cfg.mask()))]),
                    (vec![Op::n(LIT0 + 1), Op::n(NEG)], vec![]),
                    (vec![Op::n(LIT0), Op::n(NOT)], vec![]),
                    (vec![Op::n(LIT0 + 4), Op::n(NEG), Op::n(LIT0 + 2), Op::n(DIV)], vec![]),
                    (vec![Op::n(LIT0 + 8), Op::n(NEG), Op::n(LIT0 + 1), Op::n(SHRA)], vec![]),
                    (vec![Op::n(LIT0 + 1), Op::n(LIT0 + 3), Op::n(MINUS)], vec![]),
                    (vec![Op::us(BREGX, 3, -9)], vec![]),
                ];
                let consumers: Vec<Vec<Op>> = vec![
                    vec![Op::n(STACK_VALUE)],
                    vec![],
                    vec![Op::n(LIT0 + 5), Op::n(SWAP), Op::n(SHL), Op::n(STACK_VALUE)],
                    vec![Op::n(LIT0 + 5), Op::n(SWAP), Op::n(SHR), Op::n(STACK_VALUE)],
                    vec![Op::n(LIT0 + 5), Op::n(NEG), Op::n(SWAP), Op::n(SHRA), Op::n(STACK_VALUE)],
                    vec![Op::n(DEREF)],
                    vec![Op::n(LIT0 + 7), Op::n(SWAP), Op::n(XDEREF)],
                    vec![Op::n(FORM_TLS_ADDRESS)],
                    vec![Op::u(PIECE, 2)],
                    vec![Op::s(BRA, 1), Op::n(LIT0 + 1), Op::n(LIT0 + 2)],
                    vec![Op::n(DUP), Op::n(EQ)],
                    vec![Op::n(LIT0 + 2), Op::n(EQ)],
                    vec![Op::n(LIT0 + 2), Op::n(LT)],
                    vec![Op::n(LIT0 + 2), Op::n(DIV)],
                    vec![Op::n(LIT0 + 2), Op::n(MOD)],
                    vec![Op::n(LIT0 + 2), Op::n(MUL)],
                    vec![Op::n(LIT0 + 7), Op::n(SWAP), Op::n(MOD)],
                    vec![Op::n(ABS)],
                    vec![Op::u(PLUS_UCONST, 1)],
                    vec![Op::u(CONVERT, 0), Op::n(STACK_VALUE)],
                ];
                for (p, plan) in &producers {
                    for c in &consumers {
                        let mut ops = p.clone();
                        ops.extend(c.iter().cloned());
                        let code = encode_all(&ops, &cfg);
                        run_plan(ctx, entry, cfg, &code, None, None, &pool, plan);
                    }
                    for t in ALL_VT {
                        for op in [CONVERT, REINTERPRET] {
                            let mut ops = p.clone();
                            ops.extend([Op::u(op, T_CONVERT), Op::n(STACK_VALUE)]);
                            let code = encode_all(&ops, &cfg);
                            let mut plan = plan.clone();
                            let nreq = p.iter().filter(|o| matches!(o.code, FBREG | BREGX)).count();
                            plan.push((nreq, Answer::Ty(t)));
                            run_plan(ctx, entry, cfg, &code, None, None, &pool, &plan);
                        }
                    }
                }
                if ctx.want_sample() {
                    ctx.sample(format!("{}: {} producers of wrapped generic values x {} consumers", cfg.name(), producers.len(), consumers.len()));
                }
                return;
            }
            let ta = ALL_VT[class];
            let la = typed_operands(ta);
            for a in &la {
                for op in UNOPS {
                    let code = encode_all(&[Op::uu(REGVAL_TYPE, 1, T_REGVAL), Op::n(op), Op::n(STACK_VALUE)], &cfg);
                    run_plan(ctx, entry, cfg, &code, None, None, &pool, &[(0, Answer::Val(*a))]);
                }
                for c in [0u64, 1, 0x80, u64::MAX] {
                    let code = encode_all(&[Op::uu(REGVAL_TYPE, 1, T_REGVAL), Op::u(PLUS_UCONST, c), Op::n(STACK_VALUE)], &cfg);
                    run_plan(ctx, entry, cfg, &code, None, None, &pool, &[(0, Answer::Val(*a))]);
                }
                for off in [0i64, 1, -1, 127, -128] {
                    let code = encode_all(&[Op::us(BREGX, 7, off), Op::n(STACK_VALUE)], &cfg);
                    run_plan(ctx, entry, cfg, &code, None, None, &pool, &[(0, Answer::Val(*a))]);
                }
                for t in ALL_VT {
                    let code = encode_all(&[Op::uu(REGVAL_TYPE, 1, T_REGVAL), Op::u(CONVERT, T_CONVERT), Op::n(STACK_VALUE)], &cfg);
                    run_plan(ctx, entry, cfg, &code, None, None, &pool, &[(0, Answer::Val(*a)), (1, Answer::Ty(t))]);
                    let code = encode_all(&[Op::uu(REGVAL_TYPE, 1, T_REGVAL), Op::u(REINTERPRET, T_REINTERPRET), Op::n(STACK_VALUE)], &cfg);
                    run_plan(ctx, entry, cfg, &code, None, None, &pool, &[(0, Answer::Val(*a)), (1, Answer::Ty(t))]);
                }
                // branch on a typed value, piece/deref/tls addressed by a typed value
                for tail in [vec![Op::s(BRA, 1), Op::n(LIT0 + 1), Op::n(LIT0 + 2)], vec![Op::u(PIECE, 1)], vec![Op::n(DEREF)], vec![Op::n(FORM_TLS_ADDRESS)], vec![]] {
                    let mut ops = vec![Op::uu(REGVAL_TYPE, 1, T_REGVAL)];
                    ops.extend(tail);
                    let code = encode_all(&ops, &cfg);
                    run_plan(ctx, entry, cfg, &code, None, None, &pool, &[(0, Answer::Val(*a))]);
                }
                // generic constants converted / reinterpreted to this type, and shifted by typed counts
                for &g in &generic_operands(&cfg) {
                    let code = encode_all(&[Op::u(CONSTU, g), Op::u(CONVERT, T_CONVERT), Op::n(STACK_VALUE)], &cfg);
                    run_plan(ctx, entry, cfg, &code, None, None, &pool, &[(0, Answer::Ty(ta))]);
                    let code = encode_all(&[Op::u(CONSTU, g), Op::u(REINTERPRET, T_REINTERPRET), Op::n(STACK_VALUE)], &cfg);
                    run_plan(ctx, entry, cfg, &code, None, None, &pool, &[(0, Answer::Ty(ta))]);
                    for op in [SHL, SHR, SHRA] {
                        let code = encode_all(&[Op::u(CONSTU, g), Op::uu(REGVAL_TYPE, 1, T_REGVAL), Op::n(op), Op::n(STACK_VALUE)], &cfg);
                        run_plan(ctx, entry, cfg, &code, None, None, &pool, &[(0, Answer::Val(*a))]);
                    }
                }
                for tb in ALL_VT.iter().skip(1) {
                    for b in &typed_operands(*tb) {
                        for op in BINOPS {
                            // same-type pairs: every op; mixed pairs: error classes (one value pair is enough per type pair, but all are run)
                            let code = encode_all(&[Op::uu(REGVAL_TYPE, 1, T_REGVAL), Op::uu(REGVAL_TYPE, 2, T_REGVAL), Op::n(op), Op::n(STACK_VALUE)], &cfg);
                            run_plan(ctx, entry, cfg, &code, None, None, &pool, &[(0, Answer::Val(*a)), (1, Answer::Val(*b))]);
                        }
                    }
                }
            }
            // const_type parsing of this type in both byte orders
            for big in [false, true] {
                let c2 = Cfg { big, ..cfg };
                let pool2 = expr_pool(&c2);
                for blob in [&[0x01u8, 0x02, 0x03, 0x84, 0x05, 0x06, 0x07, 0x88][..], &[0xff, 0xfe][..], &[0x80][..], &[0x00, 0x00, 0xc0, 0x7f][..], &[][..]] {
                    let code = encode_all(&[Op::ublk(CONST_TYPE, T_CONST, blob), Op::n(STACK_VALUE)], &c2);
                    run_plan(ctx, entry, c2, &code, None, None, &pool2, &[(0, Answer::Ty(ta))]);
                }
            }
            if ctx.want_sample() {
                ctx.sample(format!("{}: {:?} operands {:?} x all typed operands x 17 binary ops, unary, convert, reinterpret", cfg.name(), ta, la.iter().map(|v| v.render()).collect::<Vec<_>>()));
            }
        },
    )
}

// ---------------------------------------------------------------------------

pub fn def(tier: Tier) -> CheckDef {
    let mut subs = vec![];
    let cfgs = all_cfgs();
    let ncfg = cfgs.len() as u64;
    subs.push(Sub::new(
        "decode",
        256 * ncfg,
        "every opcode byte 0x00-0xff x operand boundary patterns (fixed-width 0/1/sign bit/max, LEB128 1-10 bytes incl. padded, 2^61, 2^64-1 and overflowing encodings, blocks of 0/1/3/128/255 bytes, registers up to 2^64-1, every WASM location kind) x every truncation x one trailing byte x address size 1/2/4/8 x format x version 2-5 x endian",
        move |ctx, i| {
            let cfg = cfgs[(i % ncfg) as usize];
            decode_case(ctx, (i / ncfg) as u8, &cfg);
        },
    ));
    let maxlen = tier.pick(3u32, 4u32);
    for len in 0..=maxlen {
        subs.push(programs_sub(tier, len));
    }
    for len in 0..=3 {
        // two deviations are cheap up to length 2: run them in both tiers
        subs.push(protocol_sub(tier, len, if len <= 2 { 2 } else { tier.pick(1, 2) }));
    }
    if tier == Tier::Thorough {
        subs.push(protocol_sub(tier, 4, 1));
    }
    for len in 0..=3 {
        subs.push(limits_sub(len));
    }
    subs.push(arith_sub());
    let mut required: Vec<String> = vec![];
    for r in [
        "RequiresMemory",
        "RequiresRegister",
        "RequiresFrameBase",
        "RequiresTls",
        "RequiresCallFrameCfa",
        "RequiresAtLocation",
        "RequiresEntryValue",
        "RequiresParameterRef",
        "RequiresRelocatedAddress",
        "RequiresIndexedAddress",
        "RequiresBaseType",
        "RequiresWasmLocal",
        "RequiresWasmGlobal",
        "RequiresWasmStack",
    ] {
        required.push(r.into());
    }
    for e in ["underflow", "divzero", "typemismatch", "integral", "shift", "branch", "derefsize", "piece", "terminator", "unsupported", "unsupported-type", "objaddr", "iterations", "eof", "badop"] {
        required.push(format!("err:{}", e));
    }
    for l in ["Empty", "Register", "Address", "Value", "Bytes", "ImplicitPointer"] {
        required.push(format!("loc:{}", l));
    }
    for t in ALL_VT {
        required.push(vt_tag(t).to_string());
    }
    for d in ["decode:ok", "decode:err-eof", "decode:err-badop", "decode:err-leb", "decode:err-register", "protocol:single-deviation", "limits:stopped-divergent-program", "limits:stopped-finite-program", "limits:within-limit", "limits:band-with-attached-piece"] {
        required.push(d.into());
    }
    if tier == Tier::Thorough {
        required.push("protocol:pair-deviation".into());
    }
    CheckDef {
        level: "model_checking",
        rule: "explicit enumeration of protocol states: a state is (program bytes, configuration, answer history); every state is reached by re-executing gimli's Evaluation and the reference stack machine in lock-step from the start, every request payload and the final pieces/value_result/error class are compared (generic values modulo the address mask, NaN == NaN). states = history nodes visited, transitions = evaluate/resume_with_* calls made on gimli. distinct_nontrivial = runs compared strictly to the end (runs that enter behaviour left undefined by DWARF 5 and the rustdoc are counted under 'unspecified-by-standard-and-rustdoc'); decode: byte strings whose decoded operands were compared".into(),
        assumptions: vec![
            "opcode numbers and operand layouts transcribed from DWARF 5 Table 7.9, binutils dwarf2.def (GNU) and the WebAssembly DWARF note (0xed); semantics from DWARF 5 section 2.5/2.6; where the standard is silent gimli's rustdoc decides (mod unsigned on generic, shr/shra type restrictions, shift saturation, documented Error variants for ill-formed piece/terminator sequences, deref size limit); where both are silent every behaviour except panic/hang is accepted".into(),
            "generic answers supplied by the driver are in range (0..2^N-1)".into(),
            "runs use max_iterations 100 as 'unlimited' with a model cap of 201 decoded operations, which makes 'the program diverges' decidable for the comparison (every operation gimli charges decodes at most two)".into(),
            "the order in which gimli detects simultaneous error conditions of one operation is not constrained (any applicable class accepted)".into(),
        ],
        subs,
        required_outcomes: required,
    }
}
