//! C15: expressions built through gimli::write::Expression serialise to bytecode
//! that decodes to the same operations, branches and references; the predicted
//! size equals the emitted size; evaluation gives the same result.
//!
//! Oracle: gimli's reader (decided by C02/C03/C05/C07/C08) over the emitted
//! sections, compared with the model's own mapping of the builder calls to
//! long-form operations (`model::Op`), and gimli's Evaluation of the emitted
//! bytes in lock-step with the reference machine running the model's own
//! encoding of the operations as built.
use super::c07::{default_answer, expr_pool, GL, ML};
use super::glue::*;
use super::model::*;
use gimli::write::{self, Address, AttributeValue, CallFrameInstruction, CommonInformationEntry, DebugInfoRef, Dwarf, EndianVec, Expression, FrameDescriptionEntry, FrameTable, LineProgram, LocationList, Sections, Unit, UnitEntryId, UnitId};
use gimli::{DwOp, EndianSlice, Register, RunTimeEndian, SectionId, UnwindSection};
use mcx::{guard, CheckDef, Ctx, Sub, Tier};

#[derive(Clone, Copy, Debug, PartialEq, Eq)]
pub enum Base {
    /// base type DIE created before the subject DIE
    B1,
    /// base type DIE created after the subject DIE (moved to the front by the writer)
    B2,
}

#[derive(Clone, Copy, Debug, PartialEq, Eq)]
pub enum Tgt {
    /// entry before the referring entry
    T1,
    /// entry after the referring entry
    T2,
}

/// One builder call.
#[derive(Clone, Debug, PartialEq)]
pub enum B {
    Simple(u8),
    Constu(u64),
    Consts(i64),
    Addr(u64),
    ConstType(Base, Vec<u8>),
    Fbreg(i64),
    Breg(u16, i64),
    RegvalType(u16, Base),
    Pick(u8),
    Deref,
    Xderef,
    DerefSize(u8),
    XderefSize(u8),
    DerefType(u8, Base),
    XderefType(u8, Base),
    PlusUconst(u64),
    Call(Tgt),
    CallRef(Tgt),
    VariableValue(Tgt),
    Convert(Option<Base>),
    Reinterpret(Option<Base>),
    EntryValue(Vec<B>),
    Reg(u16),
    ImplicitValue(Vec<u8>),
    ImplicitPointer(Tgt, i64),
    Piece(u64),
    BitPiece(u64, u64),
    ParameterRef(Tgt),
    WasmLocal(u32),
    WasmGlobal(u32),
    WasmStack(u32),
    /// branch to the operation with this index (== number of operations: the end)
    Skip(usize),
    Bra(usize),
}

impl B {
    fn needs_unit(&self) -> bool {
        match self {
            B::ConstType(..) | B::RegvalType(..) | B::DerefType(..) | B::XderefType(..) | B::Call(_) | B::CallRef(_) | B::VariableValue(_) | B::ImplicitPointer(..) | B::ParameterRef(_) => true,
            B::Convert(b) | B::Reinterpret(b) => b.is_some(),
            B::EntryValue(v) => v.iter().any(|x| x.needs_unit()),
            _ => false,
        }
    }
}

pub struct Ids {
    unit: UnitId,
    b1: UnitEntryId,
    b2: UnitEntryId,
    t1: UnitEntryId,
    t2: UnitEntryId,
}

impl Ids {
    fn base(&self, b: Base) -> UnitEntryId {
        match b {
            Base::B1 => self.b1,
            Base::B2 => self.b2,
        }
    }
    fn tgt(&self, t: Tgt) -> UnitEntryId {
        match t {
            Tgt::T1 => self.t1,
            Tgt::T2 => self.t2,
        }
    }
}

/// Apply the builder calls; branch targets are set afterwards.
thread_local! {
    /// 0: Expression::new(); 1: the expression starts as Expression::raw(empty); 2: it starts as
    /// Expression::raw([DW_OP_nop]), which stands for the leading B::Simple(NOP) of `bs`.
    static RAW_PREFIX: std::cell::Cell<u8> = const { std::cell::Cell::new(0) };
}

fn build(bs: &[B], ids: Option<&Ids>) -> Expression {
    // nested expressions (entry_value) are built by recursive calls: they start plainly
    let prefix = RAW_PREFIX.with(|p| p.replace(0));
    let mut e = match prefix {
        1 => Expression::raw(Vec::new()),
        2 => Expression::raw(vec![NOP]),
        _ => Expression::new(),
    };
    let mut branches = vec![];
    for b in bs.iter().skip(if prefix == 2 { 1 } else { 0 }) {
        fn i<'x>(ids: Option<&'x Ids>) -> &'x Ids {
            ids.expect("reference without a unit")
        }
        match b {
            B::Simple(c) => e.op(DwOp(*c)),
            B::Constu(v) => e.op_constu(*v),
            B::Consts(v) => e.op_consts(*v),
            B::Addr(a) => e.op_addr(Address::Constant(*a)),
            B::ConstType(b, d) => e.op_const_type(i(ids).base(*b), d.clone().into()),
            B::Fbreg(o) => e.op_fbreg(*o),
            B::Breg(r, o) => e.op_breg(Register(*r), *o),
            B::RegvalType(r, b) => e.op_regval_type(Register(*r), i(ids).base(*b)),
            B::Pick(x) => e.op_pick(*x),
            B::Deref => e.op_deref(),
            B::Xderef => e.op_xderef(),
            B::DerefSize(s) => e.op_deref_size(*s),
            B::XderefSize(s) => e.op_xderef_size(*s),
            B::DerefType(s, b) => e.op_deref_type(*s, i(ids).base(*b)),
            B::XderefType(s, b) => e.op_xderef_type(*s, i(ids).base(*b)),
            B::PlusUconst(v) => e.op_plus_uconst(*v),
            B::Call(t) => e.op_call(i(ids).tgt(*t)),
            B::CallRef(t) => e.op_call_ref(DebugInfoRef::Entry(i(ids).unit, i(ids).tgt(*t))),
            B::VariableValue(t) => e.op_variable_value(DebugInfoRef::Entry(i(ids).unit, i(ids).tgt(*t))),
            B::Convert(b) => e.op_convert(b.map(|b| i(ids).base(b))),
            B::Reinterpret(b) => e.op_reinterpret(b.map(|b| i(ids).base(b))),
            B::EntryValue(inner) => e.op_entry_value(build(inner, ids)),
            B::Reg(r) => e.op_reg(Register(*r)),
            B::ImplicitValue(d) => e.op_implicit_value(d.clone().into()),
            B::ImplicitPointer(t, o) => e.op_implicit_pointer(DebugInfoRef::Entry(i(ids).unit, i(ids).tgt(*t)), *o),
            B::Piece(s) => e.op_piece(*s),
            B::BitPiece(s, o) => e.op_bit_piece(*s, *o),
            B::ParameterRef(t) => e.op_gnu_parameter_ref(i(ids).tgt(*t)),
            B::WasmLocal(x) => e.op_wasm_local(*x),
            B::WasmGlobal(x) => e.op_wasm_global(*x),
            B::WasmStack(x) => e.op_wasm_stack(*x),
            B::Skip(t) => {
                let ix = e.op_skip();
                branches.push((ix, *t));
            }
            B::Bra(t) => {
                let ix = e.op_bra();
                branches.push((ix, *t));
            }
        }
    }
    for (ix, t) in branches {
        e.set_target(ix, t);
    }
    RAW_PREFIX.with(|p| p.set(prefix));
    e
}

/// Offsets of the referenced entries as read back from the emitted unit.
#[derive(Clone, Copy, Debug, Default)]
pub struct Offs {
    unit: u64,
    b1: u64,
    b2: u64,
    t1: u64,
    t2: u64,
}

impl Offs {
    fn base(&self, b: Base) -> u64 {
        match b {
            Base::B1 => self.b1,
            Base::B2 => self.b2,
        }
    }
    fn tgt(&self, t: Tgt) -> u64 {
        match t {
            Tgt::T1 => self.t1,
            Tgt::T2 => self.t2,
        }
    }
}

/// The operations as built, in the model's long forms. Branch displacements are
/// filled in by `model_program`.
fn model_ops(bs: &[B], cfg: &Cfg, o: &Offs) -> Vec<Op> {
    bs.iter()
        .map(|b| match b {
            B::Simple(c) => Op::n(*c),
            B::Constu(v) => Op::u(CONSTU, *v),
            B::Consts(v) => Op::s(CONSTS, *v),
            B::Addr(a) => Op::u(ADDR, *a),
            B::ConstType(b, d) => Op::ublk(CONST_TYPE, o.base(*b), d),
            B::Fbreg(x) => Op::s(FBREG, *x),
            B::Breg(r, x) => Op::us(BREGX, *r as u64, *x),
            B::RegvalType(r, b) => Op::uu(REGVAL_TYPE, *r as u64, o.base(*b)),
            B::Pick(x) => Op::u(PICK, *x as u64),
            B::Deref => Op::n(DEREF),
            B::Xderef => Op::n(XDEREF),
            B::DerefSize(s) => Op::u(DEREF_SIZE, *s as u64),
            B::XderefSize(s) => Op::u(XDEREF_SIZE, *s as u64),
            B::DerefType(s, b) => Op::uu(DEREF_TYPE, *s as u64, o.base(*b)),
            B::XderefType(s, b) => Op::uu(XDEREF_TYPE, *s as u64, o.base(*b)),
            B::PlusUconst(v) => Op::u(PLUS_UCONST, *v),
            B::Call(t) => Op::u(CALL4, o.tgt(*t)),
            B::CallRef(t) => Op::u(CALL_REF, o.unit + o.tgt(*t)),
            B::VariableValue(t) => Op::u(GNU_VARIABLE_VALUE, o.unit + o.tgt(*t)),
            B::Convert(b) => Op::u(CONVERT, b.map(|b| o.base(b)).unwrap_or(0)),
            B::Reinterpret(b) => Op::u(REINTERPRET, b.map(|b| o.base(b)).unwrap_or(0)),
            // nested branches are resolved on the nested block's own layout
            B::EntryValue(inner) => Op::blk(ENTRY_VALUE, &model_program(inner, cfg, o).1),
            B::Reg(r) => Op::u(REGX, *r as u64),
            B::ImplicitValue(d) => Op::blk(IMPLICIT_VALUE, d),
            B::ImplicitPointer(t, x) => Op::us(IMPLICIT_POINTER, o.unit + o.tgt(*t), *x),
            B::Piece(s) => Op::u(PIECE, *s),
            B::BitPiece(s, x) => Op::uu(BIT_PIECE, *s, *x),
            B::ParameterRef(t) => Op::u(GNU_PARAMETER_REF, o.tgt(*t)),
            B::WasmLocal(x) => Op::uu(WASM_LOCATION, 0, *x as u64),
            B::WasmGlobal(x) => Op::uu(WASM_LOCATION, 1, *x as u64),
            B::WasmStack(x) => Op::uu(WASM_LOCATION, 2, *x as u64),
            B::Skip(_) => Op::s(SKIP, 0),
            B::Bra(_) => Op::s(BRA, 0),
        })
        .collect()
}

/// Long-form bytes of the expression as built, branches resolved on the model's own layout.
fn model_program(bs: &[B], cfg: &Cfg, o: &Offs) -> (Vec<Op>, Vec<u8>) {
    let mut ops = model_ops(bs, cfg, o);
    let offs = offsets(&ops, cfg);
    for (i, b) in bs.iter().enumerate() {
        if let B::Skip(t) | B::Bra(t) = b {
            let d = offs[*t] as i64 - offs[i + 1] as i64;
            ops[i].a = d as u64;
        }
    }
    let bytes = encode_all(&ops, cfg);
    (ops, bytes)
}

pub fn render_b(bs: &[B]) -> String {
    format!("{:?}", bs)
}

// ---------------------------------------------------------------------------
// Checking emitted bytes

struct Emitted<'a> {
    host: &'static str,
    bytes: &'a [u8],
}

/// Decode equality, branch landing, reference resolution, evaluation equality.
fn check_emitted(ctx: &mut Ctx, cfg: &Cfg, bs: &[B], o: &Offs, em: &Emitted<'_>, evaluate: bool) {
    let entry = "write::Expression";
    let case = || format!("{} host {} built {} emitted [{}]", cfg.name(), em.host, render_b(bs), mcx::hex(em.bytes));
    let (mops, mbytes) = model_program(bs, cfg, o);
    // 1. operations() over the emitted bytes
    ctx.eval(1);
    let expr = gimli::Expression(EndianSlice::new(em.bytes, endian(cfg)));
    let mut it = expr.operations(encoding(cfg));
    let mut got: Vec<(usize, usize, Sem)> = vec![]; // (start, end, sem)
    let mut start = 0usize;
    loop {
        match guard(|| it.next()) {
            Err(p) => {
                ctx.fail_panic("read::Expression::operations", &p, case());
                return;
            }
            Ok(Err(e)) => {
                ctx.fail(entry, "decodes", "emitted-bytes-do-not-decode", format!("{}: {:?} at offset {}", case(), e, start));
                return;
            }
            Ok(Ok(None)) => break,
            Ok(Ok(Some(op))) => {
                let end = it.offset_from(&expr);
                got.push((start, end, from_gimli(&op)));
                start = end;
            }
        }
    }
    if got.len() != mops.len() {
        ctx.fail(entry, "operation-count", "wrong-operations", format!("{}: decoded {} operations {:?}, built {}", case(), got.len(), got, mops.len()));
        return;
    }
    for (i, ((_, end, g), m)) in got.iter().zip(&mops).enumerate() {
        let want = sem(m, cfg);
        let site = format!("op:{}", mnemonic(m.code));
        match (g, &want, &bs[i]) {
            (Sem::Skip(d), Sem::Skip(_), B::Skip(t)) | (Sem::Bra(d), Sem::Bra(_), B::Bra(t)) => {
                // 2. the branch lands on the intended operation
                let land = *end as i64 + *d as i64;
                let intended = if *t == got.len() { em.bytes.len() } else { got[*t].0 };
                if land != intended as i64 {
                    ctx.fail(entry, "branch-target", "branch-lands-elsewhere", format!("{}: branch {} lands on offset {}, operation {} starts at {}", case(), i, land, t, intended));
                    return;
                }
                ctx.outcome("branch:lands");
            }
            _ => {
                if !sem_equiv(g, &want, cfg) {
                    let kind = if bs[i].needs_unit() && std::mem::discriminant(g) == std::mem::discriminant(&want) { "wrong-reference-or-operand" } else { "wrong-operation" };
                    ctx.fail(entry, &site, kind, format!("{}: operation {} decodes to {:?}, built {:?} (entries: {:?})", case(), i, g, want, o));
                    return;
                }
                if bs[i].needs_unit() {
                    ctx.outcome("reference:resolves");
                }
            }
        }
    }
    ctx.outcome(match em.host {
        "die-exprloc" => "host:die-exprloc",
        "die-block" => "host:die-block",
        "loclist" => "host:loclist",
        "cfi" => "host:cfi",
        _ => "host:other",
    });
    ctx.nontriv(1);
    if ctx.want_sample() && bs.len() >= 2 {
        ctx.sample(format!("{} host {} built {} -> emitted [{}] decodes to {:?}", cfg.name(), em.host, render_b(bs), mcx::hex(em.bytes), got.iter().map(|g| &g.2).collect::<Vec<_>>()));
    }
    // 3. evaluation of the emitted bytes == the machine on the operations as built
    if evaluate {
        let pool = expr_pool(cfg);
        for init in [None, Some(0x21u64)] {
            let s = Setup { cfg: *cfg, code: em.bytes, init, obj: Some(0x55), glimit: Some(GL), mlimit: Some(ML), pool: &pool, mcode: Some(&mbytes), sem_blobs: true };
            let t = lockstep(&s, &mut |_, r| default_answer(r, &pool));
            ctx.eval(1);
            if let Some(p) = &t.panic {
                ctx.fail_panic("Evaluation::evaluate", p, case());
                return;
            }
            if let Some(m) = &t.mism {
                if m.noted {
                    // a C07 defect of the evaluator, not of the writer
                    ctx.outcome("evaluation:c07-noted-divergence");
                } else if t.n_ops > GL as u64 && t.n_ops <= ML {
                    ctx.outcome("evaluation:indeterminate-length");
                } else {
                    ctx.fail(entry, "evaluation", &m.kind, format!("{} init {:?}: model bytes [{}] :: {}", case(), init, mcx::hex(&mbytes), m.detail));
                    return;
                }
            } else {
                ctx.outcome(if t.fin == "complete" { "evaluation:complete" } else { "evaluation:error" });
            }
        }
    }
}

// ---------------------------------------------------------------------------
// Hosts

fn wencoding(cfg: &Cfg) -> gimli::Encoding {
    encoding(cfg)
}

const SENT_A: u64 = 0x5a;
const SENT_B: u64 = 0x77;

fn load<'a>(sections: &'a Sections<EndianVec<RunTimeEndian>>, cfg: &Cfg) -> gimli::Dwarf<EndianSlice<'a, RunTimeEndian>> {
    gimli::Dwarf::load(|id: SectionId| -> Result<_, gimli::Error> { Ok(EndianSlice::new(sections.get(id).map(|w| w.slice()).unwrap_or(&[]), endian(cfg))) }).unwrap()
}

#[derive(Clone, Copy, PartialEq, Eq, Debug)]
pub enum Host {
    Die,
    LocList,
}

/// Write the expression inside a unit and check what comes back.
/// Upper bound of the encoded size of the built operations (every operand at its widest).
fn max_size(bs: &[B]) -> usize {
    bs.iter()
        .map(|b| match b {
            B::ConstType(_, d) | B::ImplicitValue(d) => 22 + d.len(),
            B::EntryValue(v) => 11 + max_size(v),
            _ => 22,
        })
        .sum()
}

/// Can `ValueTooLarge` be a justified refusal for these operations? (Never says no when the
/// writer's documented limits are touched: an address wider than the address size, a constant
/// block longer than its one-byte length, a branch that may have to jump further than 16 bits,
/// a `.debug_loc` expression that may be longer than its two-byte length.)
fn value_too_large_possible(bs: &[B], cfg: &Cfg, loc_host: bool) -> bool {
    fn any(bs: &[B], f: &dyn Fn(&B) -> bool) -> bool {
        bs.iter().any(|b| f(b) || matches!(b, B::EntryValue(v) if any(v, f)))
    }
    let mask = cfg.mask();
    any(bs, &|b| matches!(b, B::Addr(a) if *a > mask))
        || any(bs, &|b| matches!(b, B::ConstType(_, d) if d.len() > 255))
        || (any(bs, &|b| matches!(b, B::Skip(_) | B::Bra(_))) && max_size(bs) > 32767)
        || (loc_host && cfg.ver < 5 && max_size(bs) > 65535)
}

thread_local! {
    /// Creation order of the entries around the referring entry (see `host_unit`).
    static LAYOUT: std::cell::Cell<u8> = const { std::cell::Cell::new(0) };
}
const LAYOUTS: [&str; 8] = ["base1,before,subject,after,base2", "before,subject,after,base1,base2", "base1,base2,before,subject,after", "before,base2,subject,base1,after", "before{subject},after,base2,base1", "before,subject,base1,after,base2", "root with a 200-byte attribute; base1,before,subject,after,base2", "root with a 200-byte attribute; before,subject,after,base1,base2"];

fn host_unit(ctx: &mut Ctx, cfg: &Cfg, bs: &[B], host: Host, evaluate: bool) {
    let case = || format!("{} host {:?} entries created as [{}] built {}", cfg.name(), host, LAYOUTS[LAYOUT.with(|l| l.get()) as usize], render_b(bs));
    ctx.eval(1);
    let built = guard(|| {
        let mut dwarf = Dwarf::new();
        let unit_id = dwarf.units.add(Unit::new(wencoding(cfg), LineProgram::none()));
        let unit = dwarf.units.get_mut(unit_id);
        let root = unit.root();
        // creation order of the root's children (the writer moves base types to the front)
        let order: &[u8] = match LAYOUT.with(|l| l.get()) {
            0 => b"1vs2c",
            1 => b"vsc12",
            2 => b"12vsc",
            3 => b"v2s1c",
            4 => b"vSc21",
            6 => b"1vs2c",
            7 => b"vsc12",
            _ => b"vs1c2",
        };
        if LAYOUT.with(|l| l.get()) >= 6 {
            // a long root attribute: every entry, base types included, lies beyond unit offset 128
            // (references to base types then need a two-byte ULEB128)
            unit.get_mut(root).set(gimli::DW_AT_producer, AttributeValue::String(vec![b'p'; 200]));
        }
        let (mut b1, mut b2, mut t1, mut t2, mut subj) = (root, root, root, root, root);
        for &k in order {
            match k {
                b'1' => {
                    b1 = unit.add(root, gimli::DW_TAG_base_type);
                    unit.get_mut(b1).set(gimli::DW_AT_byte_size, AttributeValue::Udata(4));
                }
                b'2' => {
                    b2 = unit.add(root, gimli::DW_TAG_base_type);
                    unit.get_mut(b2).set(gimli::DW_AT_byte_size, AttributeValue::Udata(8));
                }
                b'v' => {
                    t1 = unit.add(root, gimli::DW_TAG_variable);
                    unit.get_mut(t1).set(gimli::DW_AT_byte_size, AttributeValue::Udata(1));
                }
                b's' => subj = unit.add(root, gimli::DW_TAG_subprogram),
                // the referring entry as a child of the entry before it
                b'S' => subj = unit.add(t1, gimli::DW_TAG_subprogram),
                _ => {
                    t2 = unit.add(root, gimli::DW_TAG_constant);
                    unit.get_mut(t2).set(gimli::DW_AT_byte_size, AttributeValue::Udata(SENT_B));
                }
            }
        }
        let ids = Ids { unit: unit_id, b1, b2, t1, t2 };
        let expr = build(bs, Some(&ids));
        match host {
            Host::Die => {
                unit.get_mut(subj).set(gimli::DW_AT_location, AttributeValue::Exprloc(expr));
            }
            Host::LocList => {
                let mut sentinel = Expression::new();
                sentinel.op_constu(SENT_A);
                let list = LocationList(vec![
                    write::Location::StartEnd { begin: Address::Constant(0x1000), end: Address::Constant(0x1010), data: expr.clone() },
                    write::Location::StartLength { begin: Address::Constant(0x2000), length: 0x10, data: expr },
                    write::Location::StartEnd { begin: Address::Constant(0x3000), end: Address::Constant(0x3010), data: sentinel },
                ]);
                let id = unit.locations.add(list);
                unit.get_mut(subj).set(gimli::DW_AT_location, AttributeValue::LocationListRef(id));
            }
        }
        unit.get_mut(subj).set(gimli::DW_AT_byte_size, AttributeValue::Udata(SENT_A));
        let mut sections = Sections::new(EndianVec::new(endian(cfg)));
        let r = dwarf.write(&mut sections);
        (r, sections)
    });
    let (res, sections) = match built {
        Ok(x) => x,
        Err(p) => {
            ctx.fail_panic("write::Dwarf::write", &p, case());
            return;
        }
    };
    if let Err(e) = res {
        // a refusal is no wrong output; classes are recorded for the vacuity guards
        match e {
            write::Error::ValueTooLarge if value_too_large_possible(bs, cfg, host == Host::LocList) => ctx.outcome("refused:value-too-large"),
            write::Error::ValueTooLarge => ctx.fail("write::Dwarf::write", "refusal", "encodable-expression-refused", format!("{}: {:?}", case(), e)),
            // a fix-up that does not fit the section it is applied to is never a justified refusal
            write::Error::OffsetOutOfBounds | write::Error::LengthOutOfBounds => ctx.fail("write::Dwarf::write", "refusal", "fixup-out-of-bounds", format!("{}: {:?}", case(), e)),
            // base types are written before every other entry of the unit, and the other
            // references have a fixed size: nothing the harness builds refers forward
            write::Error::UnsupportedExpressionForwardReference => ctx.fail("write::Dwarf::write", "refusal", "forward-reference-to-base-type", format!("{}: {:?}", case(), e)),
            _ => ctx.fail("write::Dwarf::write", "refusal", "unexpected-error", format!("{}: {:?}", case(), e)),
        }
        return;
    }
    // read back
    let r = guard(|| -> Result<(), String> {
        let dw = load(&sections, cfg);
        let mut units = dw.units();
        let hdr = units.next().map_err(|e| format!("units: {:?}", e))?.ok_or("no unit")?;
        let unit = dw.unit(hdr).map_err(|e| format!("unit: {:?}", e))?;
        let unit_off = unit.header.offset().0 as u64;
        let mut o = Offs { unit: unit_off, ..Default::default() };
        let mut entries = unit.entries();
        let mut order = vec![];
        let mut subj_attr = None;
        let mut subj_raw = None;
        let mut subj_sentinel = None;
        let mut t2_sentinel = None;
        let mut nbase = 0;
        while let Some(e) = entries.next_dfs().map_err(|e| format!("entries: {:?}", e))? {
            let off = e.offset().0 as u64;
            order.push(e.tag());
            match e.tag() {
                gimli::DW_TAG_base_type => {
                    nbase += 1;
                    let sz = e.attr_value(gimli::DW_AT_byte_size).and_then(|v| v.udata_value());
                    match sz {
                        Some(4) => o.b1 = off,
                        Some(8) => o.b2 = off,
                        _ => return Err(format!("base type with size {:?}", sz)),
                    }
                }
                gimli::DW_TAG_variable => o.t1 = off,
                gimli::DW_TAG_constant => {
                    o.t2 = off;
                    t2_sentinel = e.attr_value(gimli::DW_AT_byte_size).and_then(|v| v.udata_value());
                }
                gimli::DW_TAG_subprogram => {
                    subj_attr = e.attr_value(gimli::DW_AT_location);
                    subj_raw = e.attr(gimli::DW_AT_location).map(|a| a.raw_value());
                    subj_sentinel = e.attr_value(gimli::DW_AT_byte_size).and_then(|v| v.udata_value());
                }
                _ => {}
            }
        }
        if nbase != 2 || o.t1 == 0 || o.t2 == 0 {
            return Err(format!("entries read back: {:?}", order));
        }
        // length prefix == emitted length: what follows the expression reads back intact
        if subj_sentinel != Some(SENT_A) || t2_sentinel != Some(SENT_B) {
            return Err(format!("SIZE attribute after the expression reads {:?}, next entry's reads {:?}", subj_sentinel, t2_sentinel));
        }
        let attr = subj_attr.ok_or("no DW_AT_location")?;
        match host {
            Host::Die => {
                let want_block = cfg.ver < 4;
                let raw = subj_raw.ok_or("no raw DW_AT_location")?;
                let (e, hostname) = match raw {
                    gimli::AttributeValue::Exprloc(e) if !want_block => (e, "die-exprloc"),
                    gimli::AttributeValue::Block(b) if want_block => (gimli::Expression(b), "die-block"),
                    other => return Err(format!("location attribute form read back as {:?}", other)),
                };
                match attr.exprloc_value() {
                    Some(x) if x.0.slice() == e.0.slice() => {}
                    other => return Err(format!("exprloc_value() of the location attribute is {:?}", other)),
                }
                check_emitted(ctx, cfg, bs, &o, &Emitted { host: hostname, bytes: e.0.slice() }, evaluate);
            }
            Host::LocList => {
                let mut it = dw.attr_locations(&unit, attr).map_err(|e| format!("attr_locations: {:?}", e))?.ok_or("not a location list")?;
                let mut n = 0;
                let mut datas = vec![];
                while let Some(l) = it.next().map_err(|e| format!("SIZE location list entry {}: {:?}", n, e))? {
                    datas.push((l.range.begin, l.range.end, l.data.0.slice()));
                    n += 1;
                }
                if datas.len() != 3 || datas[0].0 != 0x1000 || datas[1].0 != 0x2000 || datas[1].1 != 0x2010 || datas[2].0 != 0x3000 {
                    return Err(format!("SIZE location list reads back as {:?}", datas));
                }
                let mut pool = vec![];
                let want_sentinel = {
                    pool.push(0u8);
                    // constu 0x5a in gimli's chosen encoding decodes to UConst(0x5a)
                    sem_seq(datas[2].2, cfg).ok().map(|v| v.len() == 1 && v[0].1 == Sem::UConst(SENT_A)).unwrap_or(false)
                };
                if !want_sentinel {
                    return Err(format!("SIZE sentinel entry after the expression reads [{}]", mcx::hex(datas[2].2)));
                }
                if datas[0].2 != datas[1].2 {
                    return Err(format!("the same expression emitted twice differs: [{}] vs [{}]", mcx::hex(datas[0].2), mcx::hex(datas[1].2)));
                }
                check_emitted(ctx, cfg, bs, &o, &Emitted { host: "loclist", bytes: datas[0].2 }, evaluate);
            }
        }
        Ok(())
    });
    match r {
        Err(p) => ctx.fail_panic("read-back", &p, case()),
        Ok(Err(msg)) => {
            let (site, kind) = if msg.contains("SIZE") { ("size-prediction", "length-prefix-differs-from-emitted") } else { ("read-back", "emitted-unit-unreadable") };
            ctx.fail("write::Expression", site, kind, format!("{}: {}", case(), msg));
        }
        Ok(Ok(())) => {}
    }
}

fn cfi_version(v: u16) -> u16 {
    match v {
        2 => 1,
        3 => 3,
        _ => 4,
    }
}

/// Write the expression in the three CFI expression instructions of an FDE.
fn host_cfi(ctx: &mut Ctx, cfg: &Cfg, bs: &[B], evaluate: bool) {
    let ccfg = Cfg { ver: cfi_version(cfg.ver), ..*cfg };
    let case = || format!("{} host cfi (version {}) built {}", cfg.name(), ccfg.ver, render_b(bs));
    ctx.eval(1);
    let has_ref = bs.iter().any(|b| b.needs_unit());
    let built = guard(|| {
        // references need ids of some unit; in CFI they must be refused
        let mut dwarf = Dwarf::new();
        let unit_id = dwarf.units.add(Unit::new(wencoding(cfg), LineProgram::none()));
        let unit = dwarf.units.get_mut(unit_id);
        let root = unit.root();
        let b1 = unit.add(root, gimli::DW_TAG_base_type);
        let ids = Ids { unit: unit_id, b1, b2: b1, t1: b1, t2: b1 };
        let expr = build(bs, Some(&ids));
        let mut table = FrameTable::default();
        let cie = CommonInformationEntry::new(wencoding(&ccfg), 1, -8, Register(16));
        let cie_id = table.add_cie(cie);
        let mut fde = FrameDescriptionEntry::new(Address::Constant(0x1000), 0x100);
        fde.add_instruction(0, CallFrameInstruction::CfaExpression(expr.clone()));
        fde.add_instruction(0, CallFrameInstruction::Expression(Register(3), expr.clone()));
        fde.add_instruction(0, CallFrameInstruction::ValExpression(Register(4), expr));
        fde.add_instruction(0, CallFrameInstruction::Offset(Register(5), -16));
        table.add_fde(cie_id, fde);
        let mut w = write::DebugFrame(EndianVec::new(endian(cfg)));
        let r = table.write_debug_frame(&mut w);
        (r, w)
    });
    let (res, w) = match built {
        Ok(x) => x,
        Err(p) => {
            ctx.fail_panic("write::FrameTable::write_debug_frame", &p, case());
            return;
        }
    };
    match res {
        Err(write::Error::UnsupportedCfiExpressionReference) | Err(write::Error::InvalidReference) if has_ref => {
            ctx.outcome("refused:cfi-reference");
            return;
        }
        Err(write::Error::ValueTooLarge) if value_too_large_possible(bs, cfg, false) => {
            ctx.outcome("refused:value-too-large");
            return;
        }
        Err(e) => {
            ctx.fail("write::FrameTable::write_debug_frame", "refusal", "unexpected-error", format!("{}: {:?}", case(), e));
            return;
        }
        Ok(()) => {
            if has_ref {
                ctx.fail("write::FrameTable::write_debug_frame", "cfi-reference", "reference-accepted-in-cfi", format!("{}: bytes [{}]", case(), mcx::hex(w.0.slice())));
                return;
            }
        }
    }
    let bytes = w.0.slice().to_vec();
    let r = guard(|| -> Result<Vec<Vec<u8>>, String> {
        let mut sec = gimli::DebugFrame::new(&bytes, endian(cfg));
        sec.set_address_size(cfg.asz);
        let bases = gimli::BaseAddresses::default();
        let mut entries = sec.entries(&bases);
        let mut exprs = vec![];
        let mut sentinel = false;
        while let Some(e) = entries.next().map_err(|e| format!("SIZE entries: {:?}", e))? {
            if let gimli::CieOrFde::Fde(p) = e {
                let fde = p.parse(|s, b, o| s.cie_from_offset(b, o)).map_err(|e| format!("fde: {:?}", e))?;
                let mut it = fde.instructions(&sec, &bases);
                while let Some(i) = it.next().map_err(|e| format!("SIZE instruction: {:?}", e))? {
                    match i {
                        gimli::CallFrameInstruction::DefCfaExpression { expression } | gimli::CallFrameInstruction::Expression { expression, .. } | gimli::CallFrameInstruction::ValExpression { expression, .. } => {
                            let e = expression.get(&sec).map_err(|e| format!("SIZE expression: {:?}", e))?;
                            exprs.push(e.0.slice().to_vec());
                        }
                        gimli::CallFrameInstruction::Offset { register, factored_offset } => {
                            if register == Register(5) && factored_offset == 2 {
                                sentinel = true;
                            }
                        }
                        gimli::CallFrameInstruction::Nop => {}
                        other => return Err(format!("SIZE unexpected instruction after the expressions: {:?}", other)),
                    }
                }
            }
        }
        if exprs.len() != 3 || !sentinel {
            return Err(format!("SIZE read back {} expressions, sentinel instruction seen: {}", exprs.len(), sentinel));
        }
        Ok(exprs)
    });
    match r {
        Err(p) => ctx.fail_panic("read-back", &p, case()),
        Ok(Err(msg)) => ctx.fail("write::Expression", "size-prediction", "length-prefix-differs-from-emitted", format!("{}: {} in [{}]", case(), msg, mcx::hex(&bytes))),
        Ok(Ok(exprs)) => {
            if exprs[0] != exprs[1] || exprs[1] != exprs[2] {
                ctx.fail("write::Expression", "cfi-hosts", "same-expression-differs", format!("{}: {:?}", case(), exprs));
                return;
            }
            check_emitted(ctx, &ccfg, bs, &Offs::default(), &Emitted { host: "cfi", bytes: &exprs[0] }, evaluate);
        }
    }
}

// ---------------------------------------------------------------------------
// Alphabets

pub fn builder_alphabet(cfg: &Cfg) -> Vec<B> {
    let reg_expr = vec![B::Reg(5)];
    vec![
        B::Simple(DROP),
        B::Simple(SWAP),
        B::Simple(PLUS),
        B::Simple(NEG),
        B::Simple(NOP),
        B::Simple(STACK_VALUE),
        B::Simple(CALL_FRAME_CFA),
        B::Constu(31),
        B::Constu(32),
        B::Constu(u64::MAX),
        B::Consts(-1),
        B::Consts(64),
        B::Consts(i64::MIN),
        B::Addr(0x1234 & cfg.mask()),
        B::ConstType(Base::B1, vec![1, 2, 3, 4]),
        B::Fbreg(-1),
        B::Breg(31, 0),
        B::Breg(32, -65),
        B::RegvalType(32, Base::B2),
        B::Pick(0),
        B::Pick(1),
        B::Pick(2),
        B::Deref,
        B::XderefSize(2),
        B::DerefType(4, Base::B1),
        B::PlusUconst(128),
        B::Call(Tgt::T1),
        B::Call(Tgt::T2),
        B::CallRef(Tgt::T2),
        B::VariableValue(Tgt::T1),
        B::Convert(None),
        B::Convert(Some(Base::B1)),
        B::Reinterpret(Some(Base::B2)),
        B::EntryValue(reg_expr.clone()),
        B::EntryValue(vec![B::EntryValue(reg_expr), B::Constu(40)]),
        B::Reg(31),
        B::Reg(32),
        B::ImplicitValue(vec![1, 2, 3]),
        B::ImplicitPointer(Tgt::T2, -1),
        B::Piece(128),
        B::BitPiece(3, 128),
        B::ParameterRef(Tgt::T2),
        B::WasmLocal(0),
        B::WasmStack(u32::MAX),
        B::Xderef,
    ]
}

/// Simple opcodes the builder documents for `op()`.
const SIMPLE: [u8; 31] = [
    DROP, SWAP, ROT, PUSH_OBJECT_ADDRESS, FORM_TLS_ADDRESS, CALL_FRAME_CFA, ABS, AND, DIV, MINUS, MOD, MUL, NEG, NOT, OR, PLUS, SHL, SHR, SHRA, XOR, LE, GE, EQ, LT, GT, NE, NOP, STACK_VALUE, GNU_UNINIT, GNU_PUSH_TLS_ADDRESS,
    DEREF,
];

fn singles(cfg: &Cfg) -> Vec<Vec<B>> {
    let mut v: Vec<Vec<B>> = vec![vec![]];
    for c in SIMPLE {
        v.push(vec![B::Simple(c)]);
    }
    let ul = [0u64, 1, 30, 31, 32, 33, 127, 128, 255, 256, 16383, 16384, u32::MAX as u64, 1 << 32, (1 << 35) - 1, 1 << 35, 1 << 63, u64::MAX];
    let sl = [0i64, 1, -1, 63, 64, -64, -65, 8191, 8192, -8192, -8193, i32::MAX as i64, i32::MIN as i64, i64::MAX, i64::MIN];
    for &x in &ul {
        v.push(vec![B::Constu(x)]);
        v.push(vec![B::PlusUconst(x)]);
        if x < 1 << 61 {
            // larger byte sizes are legal DWARF but not representable as bits by the reader
            v.push(vec![B::Piece(x)]);
        } else {
            v.push(vec![B::Piece((1 << 61) - 1)]);
        }
        v.push(vec![B::BitPiece(x, 1)]);
        v.push(vec![B::BitPiece(1, x)]);
        if x <= u32::MAX as u64 {
            v.push(vec![B::WasmLocal(x as u32)]);
            v.push(vec![B::WasmGlobal(x as u32)]);
            v.push(vec![B::WasmStack(x as u32)]);
        }
        v.push(vec![B::Addr(x & cfg.mask())]);
    }
    for &x in &sl {
        v.push(vec![B::Consts(x)]);
        v.push(vec![B::Fbreg(x)]);
        for r in [0u16, 31, 32, 127, 128, u16::MAX] {
            v.push(vec![B::Breg(r, x)]);
        }
        v.push(vec![B::ImplicitPointer(Tgt::T1, x)]);
        v.push(vec![B::ImplicitPointer(Tgt::T2, x)]);
    }
    for r in (0u16..=34).chain([127, 128, 16383, 16384, u16::MAX]) {
        v.push(vec![B::Reg(r)]);
        v.push(vec![B::RegvalType(r, Base::B1)]);
        v.push(vec![B::RegvalType(r, Base::B2)]);
    }
    // every value of the one-byte operands (sizes equal to the address size or the offset size included)
    for p in 0u8..=255 {
        v.push(vec![B::Pick(p)]);
        v.push(vec![B::DerefSize(p)]);
        v.push(vec![B::XderefSize(p)]);
        for b in [Base::B1, Base::B2] {
            v.push(vec![B::DerefType(p, b)]);
            v.push(vec![B::XderefType(p, b)]);
        }
    }
    v.push(vec![B::Deref]);
    v.push(vec![B::Xderef]);
    for n in [0usize, 1, 2, 126, 127, 128, 129, 255, 256, 16383, 16384] {
        v.push(vec![B::ImplicitValue(vec![0xa5; n])]);
        if n <= 256 {
            v.push(vec![B::ConstType(Base::B1, vec![0x5a; n])]);
            v.push(vec![B::ConstType(Base::B2, vec![0x5a; n])]);
        }
        // nested expressions whose size crosses the ULEB length boundaries
        v.push(vec![B::EntryValue(vec![B::ImplicitValue(vec![1; n])])]);
        v.push(vec![B::EntryValue(vec![B::EntryValue(vec![B::ImplicitValue(vec![2; n])]), B::Simple(NOP)])]);
        v.push(vec![B::EntryValue(vec![B::Simple(NOP); n])]);
    }
    for t in [Tgt::T1, Tgt::T2] {
        v.push(vec![B::Call(t)]);
        v.push(vec![B::CallRef(t)]);
        v.push(vec![B::VariableValue(t)]);
        v.push(vec![B::ParameterRef(t)]);
        v.push(vec![B::EntryValue(vec![B::Call(t), B::CallRef(t), B::ImplicitPointer(t, 0)])]);
    }
    for b in [None, Some(Base::B1), Some(Base::B2)] {
        v.push(vec![B::Convert(b)]);
        v.push(vec![B::Reinterpret(b)]);
        if let Some(b) = b {
            v.push(vec![B::EntryValue(vec![B::Convert(Some(b)), B::ConstType(b, vec![9; 4])])]);
        }
    }
    v
}

fn c15_cfgs() -> Vec<Cfg> {
    let mut v = vec![];
    for ver in [2u16, 3, 4, 5] {
        for fmt64 in [false, true] {
            for asz in [4u8, 8] {
                v.push(Cfg { asz, fmt64, ver, big: asz == 8 });
            }
        }
    }
    v
}

fn pow(n: u64, l: u32) -> u64 {
    n.checked_pow(l).expect("space too large")
}

fn seq_sub(len: u32) -> Sub {
    let cfgs = c15_cfgs();
    let n = builder_alphabet(&cfgs[0]).len() as u64;
    let ncfg = cfgs.len() as u64;
    let cases = if len == 0 { ncfg } else { pow(n, len - 1) * ncfg };
    let bound = format!("every sequence of exactly {} builder calls over the {}-symbol write::Expression alphabet x version 2-5 x format x address size 4(LE)/8(BE), hosted in a DIE attribute (DW_FORM_exprloc, or DW_FORM_block before version 4) between base types/targets created before and after the referring entry", len, n);
    Sub::new(&format!("die-sequences-len{}", len), cases, &bound, move |ctx, i| {
        let cfg = cfgs[(i % ncfg) as usize];
        let al = builder_alphabet(&cfg);
        let mut r = i / ncfg;
        let mut prefix = vec![0usize; len.saturating_sub(1) as usize];
        for k in (0..prefix.len()).rev() {
            prefix[k] = (r % n) as usize;
            r /= n;
        }
        let lasts: Vec<Option<usize>> = if len == 0 { vec![None] } else { (0..n as usize).map(Some).collect() };
        for last in lasts {
            let mut bs: Vec<B> = prefix.iter().map(|&s| al[s].clone()).collect();
            if let Some(l) = last {
                bs.push(al[l].clone());
            }
            host_unit(ctx, &cfg, &bs, Host::Die, true);
        }
    })
}

fn other_hosts_sub(len: u32) -> Sub {
    let cfgs = c15_cfgs();
    let n = builder_alphabet(&cfgs[0]).len() as u64;
    let ncfg = cfgs.len() as u64;
    let cases = if len == 0 { ncfg } else { pow(n, len - 1) * ncfg };
    let bound = format!("every sequence of exactly {} builder calls over the same alphabet x version x format x address size, hosted in a location list (three entries: the expression twice and a sentinel) and in the CFA/register/value expression instructions of a .debug_frame FDE (references must be refused there)", len);
    Sub::new(&format!("loclist-cfi-sequences-len{}", len), cases, &bound, move |ctx, i| {
        let cfg = cfgs[(i % ncfg) as usize];
        let al = builder_alphabet(&cfg);
        let mut r = i / ncfg;
        let mut prefix = vec![0usize; len.saturating_sub(1) as usize];
        for k in (0..prefix.len()).rev() {
            prefix[k] = (r % n) as usize;
            r /= n;
        }
        let lasts: Vec<Option<usize>> = if len == 0 { vec![None] } else { (0..n as usize).map(Some).collect() };
        for last in lasts {
            let mut bs: Vec<B> = prefix.iter().map(|&s| al[s].clone()).collect();
            if let Some(l) = last {
                bs.push(al[l].clone());
            }
            host_unit(ctx, &cfg, &bs, Host::LocList, false);
            host_cfi(ctx, &cfg, &bs, false);
        }
    })
}

/// Every creation order of the base types and targets around the referring entry.
fn layouts_sub() -> Sub {
    let cfgs = c15_cfgs();
    let n = builder_alphabet(&cfgs[0]).len() as u64;
    let ncfg = cfgs.len() as u64;
    let nlay = LAYOUTS.len() as u64 - 1;
    Sub::new(
        "entry-creation-orders",
        (1 + n) * ncfg * nlay,
        &format!("every sequence of 1 or 2 builder calls over the {}-symbol alphabet x version x format x address size x 7 further layouts of the unit (base types all after the referring entry, all before it, interleaved the other way round, the referring entry nested in a child, base type between the referring entry and the later target, and two with a 200-byte root attribute that puts every base type beyond unit offset 128), hosted in a DIE attribute and in a location list: the writer moves base types to the front, so no reference may be refused as a forward reference", n),
        move |ctx, i| {
            let cfg = cfgs[(i % ncfg) as usize];
            let lay = 1 + ((i / ncfg) % nlay) as u8;
            let first = (i / ncfg / nlay) as usize;
            let al = builder_alphabet(&cfg);
            LAYOUT.with(|l| l.set(lay));
            if first == 0 {
                for x in &al {
                    let bs = vec![x.clone()];
                    host_unit(ctx, &cfg, &bs, Host::Die, true);
                    host_unit(ctx, &cfg, &bs, Host::LocList, false);
                }
            } else {
                for x in &al {
                    let bs = vec![al[first - 1].clone(), x.clone()];
                    host_unit(ctx, &cfg, &bs, Host::Die, true);
                    host_unit(ctx, &cfg, &bs, Host::LocList, false);
                }
            }
            LAYOUT.with(|l| l.set(0));
        },
    )
}

/// Expressions that start as a raw bytecode chunk and are continued with builder calls.
fn raw_prefix_sub() -> Sub {
    let cfgs = c15_cfgs();
    let n = builder_alphabet(&cfgs[0]).len() as u64;
    let ncfg = cfgs.len() as u64;
    Sub::new(
        "raw-chunk-then-builder-calls",
        (1 + n) * ncfg * 2,
        &format!("Expression::raw(chunk) for chunk in {{empty, [DW_OP_nop]}} continued with every sequence of 0..=2 builder calls over the {}-symbol alphabet x version x format x address size, hosted in a DIE attribute and in a location list: predicted size = emitted size, what follows the expression reads back intact, operations and evaluation as built", n),
        move |ctx, i| {
            let cfg = cfgs[(i % ncfg) as usize];
            let prefix = 1 + ((i / ncfg) % 2) as u8;
            let first = (i / ncfg / 2) as usize;
            let al = builder_alphabet(&cfg);
            let lead: Vec<B> = if prefix == 2 { vec![B::Simple(NOP)] } else { vec![] };
            RAW_PREFIX.with(|p| p.set(prefix));
            let mut run = |tail: Vec<B>| {
                let mut bs = lead.clone();
                bs.extend(tail);
                host_unit(ctx, &cfg, &bs, Host::Die, true);
                host_unit(ctx, &cfg, &bs, Host::LocList, false);
            };
            if first == 0 {
                run(vec![]);
                for x in &al {
                    run(vec![x.clone()]);
                }
            } else {
                for x in &al {
                    run(vec![al[first - 1].clone(), x.clone()]);
                }
            }
            RAW_PREFIX.with(|p| p.set(0));
            ctx.outcome("raw-prefix:checked");
        },
    )
}

fn singles_sub() -> Sub {
    let cfgs = c15_cfgs();
    let ncfg = cfgs.len() as u64;
    let count = singles(&cfgs[0]).len() as u64;
    Sub::new(
        "single-calls-boundary-parameters",
        count * ncfg,
        "every builder with boundary parameters alone: all documented simple opcodes; constu/plus_uconst/piece/bit_piece/wasm index/addr over ULEB boundaries (31/32, 127/128, 2^14, 2^32, 2^35, 2^63, 2^64-1); consts/fbreg/breg/implicit_pointer offsets over SLEB boundaries; registers 0-34, 127/128, 2^14, 65535; every pick index and every deref size 0..=255 (plain, xderef, typed); blocks of 0-16384 bytes; entry_value nested up to 2 deep with inner sizes around 127/128 and 16383/16384; every reference kind to entries before/after; x version x format x address size; DIE, location list and CFI hosts",
        move |ctx, i| {
            let cfg = cfgs[(i % ncfg) as usize];
            let all = singles(&cfg);
            let bs = &all[(i / ncfg) as usize];
            host_unit(ctx, &cfg, bs, Host::Die, true);
            host_unit(ctx, &cfg, bs, Host::LocList, false);
            host_cfi(ctx, &cfg, bs, true);
        },
    )
}

fn branch_core() -> Vec<B> {
    vec![B::Constu(5), B::Constu(200), B::Consts(-1), B::Pick(0), B::Pick(2), B::Breg(32, 64), B::Simple(NOP), B::PlusUconst(1)]
}

fn branch_sub(tier: Tier) -> Sub {
    let cfgs = c15_cfgs();
    let ncfg = cfgs.len() as u64;
    let core = branch_core();
    let n = core.len() as u64;
    let maxk = tier.pick(3u32, 4u32);
    // case = (core sequence of length <= maxk, cfg); inner = branch kind x position x target
    let nseq = mcx::space::seq_count(n, 0, maxk);
    Sub::new(
        "branches",
        nseq * ncfg,
        &format!("every sequence of <= {} operations over a variable-length core (lit5, constu 200, consts -1, dup, pick 2, bregx 32 64, nop, plus_uconst 1) with one skip or bra inserted at every position and aimed at every operation index incl. the end and the next operation, each also nested inside DW_OP_entry_value between two outer operations, plus every pair of two branches for sequences of <= 2; x version x format x address size; DIE host", maxk),
        move |ctx, i| {
            let cfg = cfgs[(i % ncfg) as usize];
            let seq = mcx::space::seq_decode(n, 0, maxk, i / ncfg);
            let k = seq.len();
            for pos in 0..=k {
                for kind in 0..2 {
                    for target in 0..=k + 1 {
                        if target == pos {
                            continue; // set_target(op, op) is excluded by the API (debug assertion)
                        }
                        let mut bs: Vec<B> = seq.iter().map(|&s| core[s].clone()).collect();
                        bs.insert(pos, if kind == 0 { B::Skip(target) } else { B::Bra(target) });
                        host_unit(ctx, &cfg, &bs, Host::Die, true);
                        // the same branching sequence nested in DW_OP_entry_value, between outer
                        // operations (targets are indices of the NESTED expression)
                        let nested = vec![B::Constu(300), B::EntryValue(bs), B::Simple(NOP)];
                        host_unit(ctx, &cfg, &nested, Host::Die, false);
                    }
                }
            }
            if k <= 2 {
                // two branches
                for p1 in 0..=k {
                    for p2 in p1 + 1..=k + 1 {
                        for t1 in 0..=k + 2 {
                            for t2 in 0..=k + 2 {
                                if t1 == p1 || t2 == p2 {
                                    continue;
                                }
                                let mut bs: Vec<B> = seq.iter().map(|&s| core[s].clone()).collect();
                                bs.insert(p1, B::Bra(t1));
                                bs.insert(p2, B::Skip(t2));
                                host_unit(ctx, &cfg, &bs, Host::Die, true);
                            }
                        }
                    }
                }
            }
            if ctx.want_sample() {
                ctx.sample(format!("{} core {:?} x every (position, target) of skip/bra", cfg.name(), seq.iter().map(|&s| core[s].clone()).collect::<Vec<_>>()));
            }
        },
    )
}

/// Values of symbols 0..=3 for the symbol-resolving writer.
const SYMVAL: [u64; 4] = [0x40_1000, 0x1234, 0x2345, 0x3456];

/// `EndianVec` that resolves symbolic addresses and symbolic `.debug_info` references (the stock
/// writer rejects both), so that expressions referring to symbols can be written and decoded.
#[derive(Clone, Debug)]
struct SymVec(EndianVec<RunTimeEndian>);
impl write::Writer for SymVec {
    type Endian = RunTimeEndian;
    fn endian(&self) -> RunTimeEndian {
        self.0.endian()
    }
    fn len(&self) -> usize {
        self.0.len()
    }
    fn write(&mut self, bytes: &[u8]) -> write::Result<()> {
        self.0.write(bytes)
    }
    fn write_at(&mut self, offset: usize, bytes: &[u8]) -> write::Result<()> {
        self.0.write_at(offset, bytes)
    }
    fn write_address(&mut self, address: Address, size: u8) -> write::Result<()> {
        match address {
            Address::Constant(v) => self.write_udata(v, size),
            Address::Symbol { symbol, addend } => self.write_udata(SYMVAL[symbol % 4].wrapping_add(addend as u64), size),
        }
    }
    fn write_reference(&mut self, symbol: usize, size: u8) -> write::Result<()> {
        self.write_udata(SYMVAL[symbol % 4], size)
    }
}

/// Expressions whose operands are SYMBOLS (external entries, relocatable addresses), written
/// through a writer that resolves them.
fn symbolic_sub() -> Sub {
    let cfgs = c15_cfgs();
    let ncfg = cfgs.len() as u64;
    Sub::new(
        "symbolic-references",
        ncfg * 4,
        "op_call_ref / op_implicit_pointer / op_variable_value with DebugInfoRef::Symbol and op_addr with Address::Symbol, each followed by a sentinel constant, x version x format x address size {4,8}, written to a DIE attribute through a symbol-resolving writer: the operand must have the width the version/format/address size prescribe (DWARF 2: address-sized references) and decode to the symbol's value; the sentinel must follow intact",
        move |ctx, i| {
            let cfg = cfgs[(i % ncfg) as usize];
            let k = i / ncfg;
            let case = format!("{} symbolic operand kind {}", cfg.name(), ["call_ref", "implicit_pointer", "variable_value", "addr"][k as usize]);
            ctx.eval(1);
            let built = guard(|| -> Result<Vec<u8>, write::Error> {
                let mut dwarf = Dwarf::new();
                let unit_id = dwarf.units.add(Unit::new(wencoding(&cfg), LineProgram::none()));
                let unit = dwarf.units.get_mut(unit_id);
                let root = unit.root();
                let var = unit.add(root, gimli::DW_TAG_variable);
                let mut e = Expression::new();
                match k {
                    0 => e.op_call_ref(DebugInfoRef::Symbol(1)),
                    1 => e.op_implicit_pointer(DebugInfoRef::Symbol(2), -3),
                    2 => e.op_variable_value(DebugInfoRef::Symbol(3)),
                    _ => e.op_addr(Address::Symbol { symbol: 0, addend: 8 }),
                }
                e.op_constu(SENT_A);
                unit.get_mut(var).set(gimli::DW_AT_location, AttributeValue::Exprloc(e));
                unit.get_mut(var).set(gimli::DW_AT_byte_size, AttributeValue::Udata(SENT_B));
                let mut sections = Sections::new(SymVec(EndianVec::new(endian(&cfg))));
                dwarf.write(&mut sections)?;
                let info = sections.get(SectionId::DebugInfo).map(|w| w.0.slice().to_vec()).unwrap_or_default();
                let abbrev = sections.get(SectionId::DebugAbbrev).map(|w| w.0.slice().to_vec()).unwrap_or_default();
                let mut both = (info.len() as u64).to_le_bytes().to_vec();
                both.extend_from_slice(&info);
                both.extend_from_slice(&abbrev);
                Ok(both)
            });
            let both = match built {
                Err(p) => return ctx.fail_panic("write::Dwarf::write", &p, case),
                Ok(Err(e)) => return ctx.fail("write::Expression", "symbolic-operand", "unexpected-error", format!("{}: {:?}", case, e)),
                Ok(Ok(b)) => b,
            };
            let n = u64::from_le_bytes(both[..8].try_into().unwrap()) as usize;
            let (info, abbrev) = (&both[8..8 + n], &both[8 + n..]);
            let r = guard(|| -> Result<(), String> {
                let en = endian(&cfg);
                let di = gimli::DebugInfo::new(info, en);
                let da = gimli::DebugAbbrev::new(abbrev, en);
                let h = di.units().next().map_err(|e| e.to_string())?.ok_or("no unit")?;
                let ab = h.abbreviations(&da).map_err(|e| e.to_string())?;
                let mut cur = h.entries(&ab);
                cur.next_dfs().map_err(|e| e.to_string())?;
                let die = cur.next_dfs().map_err(|e| format!("variable entry: {}", e))?.ok_or("no variable entry")?;
                if die.attr_value(gimli::DW_AT_byte_size).and_then(|v| v.udata_value()) != Some(SENT_B) {
                    return Err(format!("the attribute after the expression reads {:?}", die.attr_value(gimli::DW_AT_byte_size)));
                }
                let ex = match die.attr(gimli::DW_AT_location).map(|a| a.raw_value()) {
                    Some(gimli::AttributeValue::Exprloc(x)) => x,
                    Some(gimli::AttributeValue::Block(b)) => gimli::Expression(b),
                    other => return Err(format!("location reads back as {:?}", other)),
                };
                let mut ops = ex.operations(h.encoding());
                let first = ops.next().map_err(|e| format!("first operation: {}", e))?;
                let ok = match (k, &first) {
                    (0, Some(gimli::Operation::Call { offset: gimli::DieReference::DebugInfoRef(o) })) => o.0 as u64 == SYMVAL[1],
                    (1, Some(gimli::Operation::ImplicitPointer { value, byte_offset })) => value.0 as u64 == SYMVAL[2] && *byte_offset == -3,
                    (2, Some(gimli::Operation::VariableValue { offset })) => offset.0 as u64 == SYMVAL[3],
                    (3, Some(gimli::Operation::Address { address })) => *address == SYMVAL[0] + 8,
                    _ => false,
                };
                if !ok {
                    return Err(format!("first operation decodes to {:?}", first));
                }
                match ops.next().map_err(|e| format!("sentinel: {}", e))? {
                    Some(gimli::Operation::UnsignedConstant { value }) if value == SENT_A => {}
                    other => return Err(format!("the sentinel after the symbolic operand decodes to {:?}", other)),
                }
                if ops.next().map_err(|e| e.to_string())?.is_some() {
                    return Err("trailing operations".into());
                }
                Ok(())
            });
            match r {
                Err(p) => ctx.fail_panic("read-back", &p, case),
                Ok(Err(e)) => ctx.fail("write::Expression", "symbolic-operand", "operand-reads-back-differently", format!("{}: {}", case, e)),
                Ok(Ok(())) => {
                    ctx.nontriv(1);
                    ctx.outcome("symbolic:ok");
                }
            }
        },
    )
}

fn far_branch_sub() -> Sub {
    let cfgs = c15_cfgs();
    let ncfg = cfgs.len() as u64;
    let sizes: Vec<usize> = vec![0, 1, 124, 125, 126, 127, 128, 32760, 32761, 32762, 32763, 32764, 32765, 32766, 32767, 32768, 32769];
    let ns = sizes.len() as u64;
    Sub::new(
        "branch-displacement-range",
        ns * ncfg * 2,
        "one branch over an implicit_value block of 0..32769 bytes, forward and backward: displacements at the i16 limits must either land exactly or be refused",
        move |ctx, i| {
            let cfg = cfgs[(i % ncfg) as usize];
            let sz = sizes[((i / ncfg) % ns) as usize];
            let back = i / ncfg / ns == 1;
            let blk = B::EntryValue(vec![B::ImplicitValue(vec![7; sz])]);
            let bs = if back { vec![B::Simple(NOP), blk, B::Skip(0)] } else { vec![B::Skip(2), blk, B::Simple(NOP)] };
            host_unit(ctx, &cfg, &bs, Host::Die, false);
        },
    )
}

pub fn def(tier: Tier) -> CheckDef {
    let mut subs = vec![];
    let maxlen = tier.pick(3u32, 4u32);
    for len in 0..=maxlen {
        subs.push(seq_sub(len));
    }
    for len in 0..=3u32 {
        subs.push(other_hosts_sub(len));
    }
    subs.push(singles_sub());
    subs.push(layouts_sub());
    subs.push(raw_prefix_sub());
    subs.push(branch_sub(tier));
    subs.push(far_branch_sub());
    subs.push(symbolic_sub());
    let required = [
        "symbolic:ok",
        "host:die-exprloc",
        "host:die-block",
        "host:loclist",
        "host:cfi",
        "branch:lands",
        "reference:resolves",
        "refused:cfi-reference",
        "refused:value-too-large",
        "evaluation:complete",
        "evaluation:error",
    ]
    .iter()
    .map(|s| s.to_string())
    .collect();
    CheckDef {
        level: "exploration",
        rule: "one case = one built expression in one host and configuration; distinct_nontrivial = emitted expressions whose every decoded operation was compared with the operation as built (refused expressions are counted under refused:*)".into(),
        assumptions: vec![
            "oracle for the emitted bytes is gimli's reader (DIE/attribute decoding C02/C03, location lists C08, CFI C05, expression decoding and evaluation C07) composed with the independent model mapping of builder calls to long-form operations".into(),
            "size prediction is observed through the hosts' length prefixes: the attribute / list entry / CFI instruction following the expression must read back intact, and the chk build's debug assertions on predicted offsets are live".into(),
            "a refusal (Err) from the writer is allowed behaviour: ValueTooLarge for displacements/lengths that do not fit, UnsupportedExpressionForwardReference, references in CFI".into(),
            "branch targets equal to the branch itself are excluded (set_target debug-asserts, API contract)".into(),
            "evaluation divergences that the C07 model attributes to recorded evaluator defects (shift count, negative-to-float) are not charged to the writer".into(),
        ],
        subs,
        required_outcomes: required,
    }
}
