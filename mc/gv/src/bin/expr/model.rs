//! Reference model for DWARF expressions, independent of gimli.
//!
//! * `Op`: one encoded operation (opcode byte + operands); `layout` is the
//!   operand table transcribed from DWARF 5 section 7.7.1 (Table 7.9), plus the
//!   GNU extensions (binutils `dwarf2.def`) and DW_OP_WASM_location (WebAssembly
//!   DWARF conventions). Nothing here reads gimli's constants.
//! * `encode` / `decode`: byte codec on `mcx::enc::Enc` / `mcx::leb`.
//! * `sem`: the abstract operation an encoded operation denotes (DWARF 5 2.5, 2.6).
//! * `Machine`: the DWARF stack machine of section 2.5 working on bytes:
//!   generic values are integers modulo 2^(8*address_size) with the signedness
//!   each operation prescribes, typed values are computed in 128-bit integers
//!   and reduced to their width, suspension points are oracle calls
//!   (`Event::Need`), the result is the list of pieces or the error class.
//!
//! Where DWARF 5 is silent the model follows gimli's *rustdoc* (documented
//! signedness of `mod`, shift saturation, documented error variants); where both
//! are silent the expectation is a set of alternatives or `Unspec`.
use mcx::enc::Enc;
use mcx::leb::{self, Dec};
use std::rc::Rc;

#[derive(Clone, Copy, Debug, PartialEq, Eq, Hash)]
pub struct Cfg {
    pub asz: u8,
    pub fmt64: bool,
    pub ver: u16,
    pub big: bool,
}

impl Cfg {
    pub fn bits(&self) -> u32 {
        8 * self.asz as u32
    }
    pub fn mask(&self) -> u64 {
        if self.asz >= 8 {
            !0
        } else {
            (1u64 << self.bits()) - 1
        }
    }
    pub fn name(&self) -> String {
        format!("asz{}/{}/v{}/{}", self.asz, if self.fmt64 { "dwarf64" } else { "dwarf32" }, self.ver, if self.big { "BE" } else { "LE" })
    }
}

// ---------------------------------------------------------------------------
// Encoded operations

/// Operand kinds.
#[derive(Clone, Copy, Debug, PartialEq, Eq)]
pub enum K {
    U1,
    S1,
    U2,
    S2,
    U4,
    S4,
    U8,
    S8,
    Uleb,
    Sleb,
    /// target address (address_size bytes)
    Addr,
    /// section offset (4 or 8 bytes by format)
    Off,
    /// DIE reference of DW_OP_implicit_pointer: offset-sized, but address-sized in version 2
    Ref,
    /// ULEB length + bytes
    Blk,
    /// 1-byte length + bytes
    Blk1,
    /// index of DW_OP_WASM_location: ULEB (kinds 0..2) or 4-byte (kind 3)
    WasmIdx,
}

/// One encoded operation: numeric operands in `a`, `b` (signed ones stored as
/// two's complement), a block operand in `blob`.
#[derive(Clone, Debug, PartialEq, Eq, Hash)]
pub struct Op {
    pub code: u8,
    pub a: u64,
    pub b: u64,
    pub blob: Vec<u8>,
}

impl Op {
    pub fn n(code: u8) -> Op {
        Op { code, a: 0, b: 0, blob: vec![] }
    }
    pub fn u(code: u8, a: u64) -> Op {
        Op { code, a, b: 0, blob: vec![] }
    }
    pub fn s(code: u8, a: i64) -> Op {
        Op { code, a: a as u64, b: 0, blob: vec![] }
    }
    pub fn us(code: u8, a: u64, b: i64) -> Op {
        Op { code, a, b: b as u64, blob: vec![] }
    }
    pub fn uu(code: u8, a: u64, b: u64) -> Op {
        Op { code, a, b, blob: vec![] }
    }
    pub fn blk(code: u8, blob: &[u8]) -> Op {
        Op { code, a: 0, b: 0, blob: blob.to_vec() }
    }
    pub fn ublk(code: u8, a: u64, blob: &[u8]) -> Op {
        Op { code, a, b: 0, blob: blob.to_vec() }
    }
}

// DWARF 5, Table 7.9 (DWARF operation encodings).
pub const ADDR: u8 = 0x03;
pub const DEREF: u8 = 0x06;
pub const CONST1U: u8 = 0x08;
pub const CONST1S: u8 = 0x09;
pub const CONST2U: u8 = 0x0a;
pub const CONST2S: u8 = 0x0b;
pub const CONST4U: u8 = 0x0c;
pub const CONST4S: u8 = 0x0d;
pub const CONST8U: u8 = 0x0e;
pub const CONST8S: u8 = 0x0f;
pub const CONSTU: u8 = 0x10;
pub const CONSTS: u8 = 0x11;
pub const DUP: u8 = 0x12;
pub const DROP: u8 = 0x13;
pub const OVER: u8 = 0x14;
pub const PICK: u8 = 0x15;
pub const SWAP: u8 = 0x16;
pub const ROT: u8 = 0x17;
pub const XDEREF: u8 = 0x18;
pub const ABS: u8 = 0x19;
pub const AND: u8 = 0x1a;
pub const DIV: u8 = 0x1b;
pub const MINUS: u8 = 0x1c;
pub const MOD: u8 = 0x1d;
pub const MUL: u8 = 0x1e;
pub const NEG: u8 = 0x1f;
pub const NOT: u8 = 0x20;
pub const OR: u8 = 0x21;
pub const PLUS: u8 = 0x22;
pub const PLUS_UCONST: u8 = 0x23;
pub const SHL: u8 = 0x24;
pub const SHR: u8 = 0x25;
pub const SHRA: u8 = 0x26;
pub const XOR: u8 = 0x27;
pub const BRA: u8 = 0x28;
pub const EQ: u8 = 0x29;
pub const GE: u8 = 0x2a;
pub const GT: u8 = 0x2b;
pub const LE: u8 = 0x2c;
pub const LT: u8 = 0x2d;
pub const NE: u8 = 0x2e;
pub const SKIP: u8 = 0x2f;
pub const LIT0: u8 = 0x30;
pub const REG0: u8 = 0x50;
pub const BREG0: u8 = 0x70;
pub const REGX: u8 = 0x90;
pub const FBREG: u8 = 0x91;
pub const BREGX: u8 = 0x92;
pub const PIECE: u8 = 0x93;
pub const DEREF_SIZE: u8 = 0x94;
pub const XDEREF_SIZE: u8 = 0x95;
pub const NOP: u8 = 0x96;
pub const PUSH_OBJECT_ADDRESS: u8 = 0x97;
pub const CALL2: u8 = 0x98;
pub const CALL4: u8 = 0x99;
pub const CALL_REF: u8 = 0x9a;
pub const FORM_TLS_ADDRESS: u8 = 0x9b;
pub const CALL_FRAME_CFA: u8 = 0x9c;
pub const BIT_PIECE: u8 = 0x9d;
pub const IMPLICIT_VALUE: u8 = 0x9e;
pub const STACK_VALUE: u8 = 0x9f;
pub const IMPLICIT_POINTER: u8 = 0xa0;
pub const ADDRX: u8 = 0xa1;
pub const CONSTX: u8 = 0xa2;
pub const ENTRY_VALUE: u8 = 0xa3;
pub const CONST_TYPE: u8 = 0xa4;
pub const REGVAL_TYPE: u8 = 0xa5;
pub const DEREF_TYPE: u8 = 0xa6;
pub const XDEREF_TYPE: u8 = 0xa7;
pub const CONVERT: u8 = 0xa8;
pub const REINTERPRET: u8 = 0xa9;
// GNU extensions (binutils include/dwarf2.def).
pub const GNU_PUSH_TLS_ADDRESS: u8 = 0xe0;
pub const GNU_UNINIT: u8 = 0xf0;
pub const GNU_IMPLICIT_POINTER: u8 = 0xf2;
pub const GNU_ENTRY_VALUE: u8 = 0xf3;
pub const GNU_CONST_TYPE: u8 = 0xf4;
pub const GNU_REGVAL_TYPE: u8 = 0xf5;
pub const GNU_DEREF_TYPE: u8 = 0xf6;
pub const GNU_CONVERT: u8 = 0xf7;
pub const GNU_REINTERPRET: u8 = 0xf9;
pub const GNU_PARAMETER_REF: u8 = 0xfa;
pub const GNU_ADDR_INDEX: u8 = 0xfb;
pub const GNU_CONST_INDEX: u8 = 0xfc;
pub const GNU_VARIABLE_VALUE: u8 = 0xfd;
// WebAssembly: DW_OP_WASM_location.
pub const WASM_LOCATION: u8 = 0xed;

/// Operand layout of an opcode; `None` = not an operation this model knows.
pub fn layout(code: u8) -> Option<&'static [K]> {
    use K::*;
    Some(match code {
        ADDR => &[Addr],
        DEREF => &[],
        CONST1U => &[U1],
        CONST1S => &[S1],
        CONST2U => &[U2],
        CONST2S => &[S2],
        CONST4U => &[U4],
        CONST4S => &[S4],
        CONST8U => &[U8],
        CONST8S => &[S8],
        CONSTU => &[Uleb],
        CONSTS => &[Sleb],
        DUP | DROP | OVER => &[],
        PICK => &[U1],
        SWAP | ROT | XDEREF => &[],
        ABS | AND | DIV | MINUS | MOD | MUL | NEG | NOT | OR | PLUS => &[],
        PLUS_UCONST => &[Uleb],
        SHL | SHR | SHRA | XOR => &[],
        BRA => &[S2],
        EQ | GE | GT | LE | LT | NE => &[],
        SKIP => &[S2],
        0x30..=0x4f => &[],
        0x50..=0x6f => &[],
        0x70..=0x8f => &[Sleb],
        REGX => &[Uleb],
        FBREG => &[Sleb],
        BREGX => &[Uleb, Sleb],
        PIECE => &[Uleb],
        DEREF_SIZE | XDEREF_SIZE => &[U1],
        NOP | PUSH_OBJECT_ADDRESS => &[],
        CALL2 => &[U2],
        CALL4 => &[U4],
        CALL_REF => &[Off],
        FORM_TLS_ADDRESS | CALL_FRAME_CFA => &[],
        BIT_PIECE => &[Uleb, Uleb],
        IMPLICIT_VALUE => &[Blk],
        STACK_VALUE => &[],
        IMPLICIT_POINTER | GNU_IMPLICIT_POINTER => &[Ref, Sleb],
        ADDRX | CONSTX | GNU_ADDR_INDEX | GNU_CONST_INDEX => &[Uleb],
        ENTRY_VALUE | GNU_ENTRY_VALUE => &[Blk],
        CONST_TYPE | GNU_CONST_TYPE => &[Uleb, Blk1],
        REGVAL_TYPE | GNU_REGVAL_TYPE => &[Uleb, Uleb],
        DEREF_TYPE | GNU_DEREF_TYPE | XDEREF_TYPE => &[U1, Uleb],
        CONVERT | GNU_CONVERT | REINTERPRET | GNU_REINTERPRET => &[Uleb],
        GNU_PUSH_TLS_ADDRESS | GNU_UNINIT => &[],
        GNU_PARAMETER_REF => &[U4],
        GNU_VARIABLE_VALUE => &[Off],
        WASM_LOCATION => &[U1, WasmIdx],
        _ => return None,
    })
}

pub fn mnemonic(code: u8) -> String {
    let s = match code {
        ADDR => "addr",
        DEREF => "deref",
        CONST1U => "const1u",
        CONST1S => "const1s",
        CONST2U => "const2u",
        CONST2S => "const2s",
        CONST4U => "const4u",
        CONST4S => "const4s",
        CONST8U => "const8u",
        CONST8S => "const8s",
        CONSTU => "constu",
        CONSTS => "consts",
        DUP => "dup",
        DROP => "drop",
        OVER => "over",
        PICK => "pick",
        SWAP => "swap",
        ROT => "rot",
        XDEREF => "xderef",
        ABS => "abs",
        AND => "and",
        DIV => "div",
        MINUS => "minus",
        MOD => "mod",
        MUL => "mul",
        NEG => "neg",
        NOT => "not",
        OR => "or",
        PLUS => "plus",
        PLUS_UCONST => "plus_uconst",
        SHL => "shl",
        SHR => "shr",
        SHRA => "shra",
        XOR => "xor",
        BRA => "bra",
        EQ => "eq",
        GE => "ge",
        GT => "gt",
        LE => "le",
        LT => "lt",
        NE => "ne",
        SKIP => "skip",
        0x30..=0x4f => return format!("lit{}", code - LIT0),
        0x50..=0x6f => return format!("reg{}", code - REG0),
        0x70..=0x8f => return format!("breg{}", code - BREG0),
        REGX => "regx",
        FBREG => "fbreg",
        BREGX => "bregx",
        PIECE => "piece",
        DEREF_SIZE => "deref_size",
        XDEREF_SIZE => "xderef_size",
        NOP => "nop",
        PUSH_OBJECT_ADDRESS => "push_object_address",
        CALL2 => "call2",
        CALL4 => "call4",
        CALL_REF => "call_ref",
        FORM_TLS_ADDRESS => "form_tls_address",
        CALL_FRAME_CFA => "call_frame_cfa",
        BIT_PIECE => "bit_piece",
        IMPLICIT_VALUE => "implicit_value",
        STACK_VALUE => "stack_value",
        IMPLICIT_POINTER => "implicit_pointer",
        ADDRX => "addrx",
        CONSTX => "constx",
        ENTRY_VALUE => "entry_value",
        CONST_TYPE => "const_type",
        REGVAL_TYPE => "regval_type",
        DEREF_TYPE => "deref_type",
        XDEREF_TYPE => "xderef_type",
        CONVERT => "convert",
        REINTERPRET => "reinterpret",
        GNU_PUSH_TLS_ADDRESS => "GNU_push_tls_address",
        GNU_UNINIT => "GNU_uninit",
        GNU_IMPLICIT_POINTER => "GNU_implicit_pointer",
        GNU_ENTRY_VALUE => "GNU_entry_value",
        GNU_CONST_TYPE => "GNU_const_type",
        GNU_REGVAL_TYPE => "GNU_regval_type",
        GNU_DEREF_TYPE => "GNU_deref_type",
        GNU_CONVERT => "GNU_convert",
        GNU_REINTERPRET => "GNU_reinterpret",
        GNU_PARAMETER_REF => "GNU_parameter_ref",
        GNU_ADDR_INDEX => "GNU_addr_index",
        GNU_CONST_INDEX => "GNU_const_index",
        GNU_VARIABLE_VALUE => "GNU_variable_value",
        WASM_LOCATION => "WASM_location",
        _ => return format!("op{:#04x}", code),
    };
    s.to_string()
}

fn signed(k: K) -> bool {
    matches!(k, K::S1 | K::S2 | K::S4 | K::S8 | K::Sleb)
}

pub fn render_op(op: &Op) -> String {
    let mut s = mnemonic(op.code);
    if let Some(l) = layout(op.code) {
        let mut slot = 0;
        for &k in l {
            match k {
                K::Blk | K::Blk1 => s.push_str(&format!(" [{}]", mcx::hex(&op.blob))),
                _ => {
                    let v = if slot == 0 { op.a } else { op.b };
                    slot += 1;
                    if signed(k) {
                        s.push_str(&format!(" {}", v as i64));
                    } else {
                        s.push_str(&format!(" {:#x}", v));
                    }
                }
            }
        }
    }
    s
}

pub fn render_ops(ops: &[Op]) -> String {
    ops.iter().map(render_op).collect::<Vec<_>>().join("; ")
}

/// Append the encoding of `op`.
pub fn encode(op: &Op, cfg: &Cfg, e: &mut Enc) {
    e.u8(op.code);
    let l = layout(op.code).expect("encode: unknown opcode");
    let mut slot = 0;
    for &k in l {
        let mut next = || {
            let v = if slot == 0 { op.a } else { op.b };
            slot += 1;
            v
        };
        match k {
            K::U1 | K::S1 => {
                let v = next();
                e.uint(v & 0xff, 1);
            }
            K::U2 | K::S2 => {
                let v = next();
                e.uint(v & 0xffff, 2);
            }
            K::U4 | K::S4 => {
                let v = next();
                e.uint(v & 0xffff_ffff, 4);
            }
            K::U8 | K::S8 => {
                let v = next();
                e.uint(v, 8);
            }
            K::Uleb => {
                let v = next();
                e.uleb(v);
            }
            K::Sleb => {
                let v = next();
                e.sleb(v as i64);
            }
            K::Addr => {
                let v = next();
                e.addr(v, cfg.asz);
            }
            K::Off => {
                let v = next();
                e.offset(v, cfg.fmt64);
            }
            K::Ref => {
                let v = next();
                if cfg.ver == 2 {
                    e.addr(v, cfg.asz);
                } else {
                    e.offset(v, cfg.fmt64);
                }
            }
            K::Blk => {
                e.uleb(op.blob.len() as u64);
                e.bytes(&op.blob);
            }
            K::Blk1 => {
                e.u8(op.blob.len() as u8);
                e.bytes(&op.blob);
            }
            K::WasmIdx => {
                let v = next();
                if op.a == 3 {
                    e.uint(v & 0xffff_ffff, 4);
                } else {
                    e.uleb(v);
                }
            }
        }
    }
}

pub fn encode_all(ops: &[Op], cfg: &Cfg) -> Vec<u8> {
    let mut e = Enc::new(cfg.big);
    for op in ops {
        encode(op, cfg, &mut e);
    }
    e.buf
}

#[derive(Clone, Copy, Debug, PartialEq, Eq)]
pub enum DecErr {
    /// the bytes end inside the operation
    Eof,
    /// opcode (or WASM location kind) not known
    BadOp,
    /// a LEB128 operand does not fit 64 bits
    Leb,
    /// register number above u16::MAX (gimli documents Error::UnsupportedRegister)
    Reg,
}

fn fixed(b: &[u8], pos: &mut usize, n: usize, big: bool) -> Result<u64, DecErr> {
    if b.len() - *pos < n {
        return Err(DecErr::Eof);
    }
    let s = &b[*pos..*pos + n];
    *pos += n;
    let mut v = 0u64;
    if big {
        for &x in s {
            v = (v << 8) | x as u64;
        }
    } else {
        for &x in s.iter().rev() {
            v = (v << 8) | x as u64;
        }
    }
    Ok(v)
}

fn sext(v: u64, n: usize) -> u64 {
    let sh = 64 - 8 * n as u32;
    (((v << sh) as i64) >> sh) as u64
}

fn rd_uleb(b: &[u8], pos: &mut usize) -> Result<u64, DecErr> {
    match leb::uleb(&b[*pos..]) {
        Dec::Ok(v, n) => {
            *pos += n;
            if v > u64::MAX as u128 {
                Err(DecErr::Leb)
            } else {
                Ok(v as u64)
            }
        }
        Dec::Huge(n) => {
            *pos += n;
            Err(DecErr::Leb)
        }
        Dec::Incomplete => Err(DecErr::Eof),
    }
}

fn rd_sleb(b: &[u8], pos: &mut usize) -> Result<i64, DecErr> {
    match leb::sleb(&b[*pos..]) {
        Dec::Ok(v, n) => {
            *pos += n;
            if v > i64::MAX as i128 || v < i64::MIN as i128 {
                Err(DecErr::Leb)
            } else {
                Ok(v as i64)
            }
        }
        Dec::Huge(n) => {
            *pos += n;
            Err(DecErr::Leb)
        }
        Dec::Incomplete => Err(DecErr::Eof),
    }
}

/// Decode the operation at `pos`; returns it and the position after it.
pub fn decode(b: &[u8], pos: usize, cfg: &Cfg) -> Result<(Op, usize), DecErr> {
    if pos >= b.len() {
        return Err(DecErr::Eof);
    }
    let code = b[pos];
    let mut p = pos + 1;
    let Some(l) = layout(code) else { return Err(DecErr::BadOp) };
    let mut op = Op::n(code);
    let mut slot = 0;
    for &k in l {
        let mut v: Option<u64> = None;
        match k {
            K::U1 => v = Some(fixed(b, &mut p, 1, cfg.big)?),
            K::S1 => v = Some(sext(fixed(b, &mut p, 1, cfg.big)?, 1)),
            K::U2 => v = Some(fixed(b, &mut p, 2, cfg.big)?),
            K::S2 => v = Some(sext(fixed(b, &mut p, 2, cfg.big)?, 2)),
            K::U4 => v = Some(fixed(b, &mut p, 4, cfg.big)?),
            K::S4 => v = Some(sext(fixed(b, &mut p, 4, cfg.big)?, 4)),
            K::U8 | K::S8 => v = Some(fixed(b, &mut p, 8, cfg.big)?),
            K::Uleb => v = Some(rd_uleb(b, &mut p)?),
            K::Sleb => v = Some(rd_sleb(b, &mut p)? as u64),
            K::Addr => v = Some(fixed(b, &mut p, cfg.asz as usize, cfg.big)?),
            K::Off => v = Some(fixed(b, &mut p, if cfg.fmt64 { 8 } else { 4 }, cfg.big)?),
            K::Ref => {
                let n = if cfg.ver == 2 { cfg.asz as usize } else if cfg.fmt64 { 8 } else { 4 };
                v = Some(fixed(b, &mut p, n, cfg.big)?)
            }
            K::Blk => {
                let n = rd_uleb(b, &mut p)?;
                if (b.len() - p) as u64 >= n {
                    op.blob = b[p..p + n as usize].to_vec();
                    p += n as usize;
                } else {
                    return Err(DecErr::Eof);
                }
            }
            K::Blk1 => {
                let n = fixed(b, &mut p, 1, cfg.big)? as usize;
                if b.len() - p >= n {
                    op.blob = b[p..p + n].to_vec();
                    p += n;
                } else {
                    return Err(DecErr::Eof);
                }
            }
            K::WasmIdx => match op.a {
                0..=2 => {
                    let x = rd_uleb(b, &mut p)?;
                    if x > u32::MAX as u64 {
                        return Err(DecErr::Leb);
                    }
                    v = Some(x)
                }
                3 => v = Some(fixed(b, &mut p, 4, cfg.big)?),
                _ => return Err(DecErr::BadOp),
            },
        }
        if let Some(v) = v {
            if slot == 0 && v > u16::MAX as u64 && matches!(code, REGX | BREGX | REGVAL_TYPE | GNU_REGVAL_TYPE) {
                return Err(DecErr::Reg);
            }
            if slot == 0 {
                op.a = v;
            } else {
                op.b = v;
            }
            slot += 1;
        }
    }
    Ok((op, p))
}

// ---------------------------------------------------------------------------
// Abstract operations

#[derive(Clone, Copy, Debug, PartialEq, Eq, Hash)]
pub enum DieRef {
    Unit(u64),
    Info(u64),
}

/// What an encoded operation denotes (DWARF 5 sections 2.5.1, 2.6.1).
#[derive(Clone, Debug, PartialEq, Eq)]
pub enum Sem {
    Deref { base: u64, size: u8, space: bool },
    Drop,
    Pick(u8),
    Swap,
    Rot,
    Abs,
    And,
    Div,
    Minus,
    Mod,
    Mul,
    Neg,
    Not,
    Or,
    Plus,
    PlusConst(u64),
    Shl,
    Shr,
    Shra,
    Xor,
    Bra(i16),
    Eq,
    Ge,
    Gt,
    Le,
    Lt,
    Ne,
    Skip(i16),
    UConst(u64),
    SConst(i64),
    Register(u64),
    RegisterOffset { reg: u64, off: i64, base: u64 },
    FrameOffset(i64),
    Nop,
    PushObjectAddress,
    Call(DieRef),
    VariableValue(u64),
    Tls,
    Cfa,
    /// size in bits as a mathematical integer (DW_OP_piece: 8 * bytes)
    Piece { bits: u128, off: Option<u64> },
    ImplicitValue(Vec<u8>),
    StackValue,
    ImplicitPointer { value: u64, off: i64 },
    EntryValue(Vec<u8>),
    ParameterRef(u64),
    Address(u64),
    AddressIndex(u64),
    ConstantIndex(u64),
    TypedLiteral { base: u64, value: Vec<u8> },
    Convert(u64),
    Reinterpret(u64),
    Uninit,
    WasmLocal(u32),
    WasmGlobal(u32),
    WasmStack(u32),
}

pub fn sem(op: &Op, cfg: &Cfg) -> Sem {
    let a = op.a;
    let b = op.b;
    match op.code {
        ADDR => Sem::Address(a),
        DEREF => Sem::Deref { base: 0, size: cfg.asz, space: false },
        CONST1U | CONST2U | CONST4U | CONST8U | CONSTU => Sem::UConst(a),
        CONST1S | CONST2S | CONST4S | CONST8S | CONSTS => Sem::SConst(a as i64),
        DUP => Sem::Pick(0),
        DROP => Sem::Drop,
        OVER => Sem::Pick(1),
        PICK => Sem::Pick(a as u8),
        SWAP => Sem::Swap,
        ROT => Sem::Rot,
        XDEREF => Sem::Deref { base: 0, size: cfg.asz, space: true },
        ABS => Sem::Abs,
        AND => Sem::And,
        DIV => Sem::Div,
        MINUS => Sem::Minus,
        MOD => Sem::Mod,
        MUL => Sem::Mul,
        NEG => Sem::Neg,
        NOT => Sem::Not,
        OR => Sem::Or,
        PLUS => Sem::Plus,
        PLUS_UCONST => Sem::PlusConst(a),
        SHL => Sem::Shl,
        SHR => Sem::Shr,
        SHRA => Sem::Shra,
        XOR => Sem::Xor,
        BRA => Sem::Bra(a as i16),
        EQ => Sem::Eq,
        GE => Sem::Ge,
        GT => Sem::Gt,
        LE => Sem::Le,
        LT => Sem::Lt,
        NE => Sem::Ne,
        SKIP => Sem::Skip(a as i16),
        0x30..=0x4f => Sem::UConst((op.code - LIT0) as u64),
        0x50..=0x6f => Sem::Register((op.code - REG0) as u64),
        0x70..=0x8f => Sem::RegisterOffset { reg: (op.code - BREG0) as u64, off: a as i64, base: 0 },
        REGX => Sem::Register(a),
        FBREG => Sem::FrameOffset(a as i64),
        BREGX => Sem::RegisterOffset { reg: a, off: b as i64, base: 0 },
        PIECE => Sem::Piece { bits: 8 * a as u128, off: None },
        DEREF_SIZE => Sem::Deref { base: 0, size: a as u8, space: false },
        XDEREF_SIZE => Sem::Deref { base: 0, size: a as u8, space: true },
        NOP => Sem::Nop,
        PUSH_OBJECT_ADDRESS => Sem::PushObjectAddress,
        CALL2 | CALL4 => Sem::Call(DieRef::Unit(a)),
        CALL_REF => Sem::Call(DieRef::Info(a)),
        FORM_TLS_ADDRESS | GNU_PUSH_TLS_ADDRESS => Sem::Tls,
        CALL_FRAME_CFA => Sem::Cfa,
        BIT_PIECE => Sem::Piece { bits: a as u128, off: Some(b) },
        IMPLICIT_VALUE => Sem::ImplicitValue(op.blob.clone()),
        STACK_VALUE => Sem::StackValue,
        IMPLICIT_POINTER | GNU_IMPLICIT_POINTER => Sem::ImplicitPointer { value: a, off: b as i64 },
        ADDRX | GNU_ADDR_INDEX => Sem::AddressIndex(a),
        CONSTX | GNU_CONST_INDEX => Sem::ConstantIndex(a),
        ENTRY_VALUE | GNU_ENTRY_VALUE => Sem::EntryValue(op.blob.clone()),
        CONST_TYPE | GNU_CONST_TYPE => Sem::TypedLiteral { base: a, value: op.blob.clone() },
        REGVAL_TYPE | GNU_REGVAL_TYPE => Sem::RegisterOffset { reg: a, off: 0, base: b },
        DEREF_TYPE | GNU_DEREF_TYPE => Sem::Deref { base: b, size: a as u8, space: false },
        XDEREF_TYPE => Sem::Deref { base: b, size: a as u8, space: true },
        CONVERT | GNU_CONVERT => Sem::Convert(a),
        REINTERPRET | GNU_REINTERPRET => Sem::Reinterpret(a),
        GNU_UNINIT => Sem::Uninit,
        GNU_PARAMETER_REF => Sem::ParameterRef(a),
        GNU_VARIABLE_VALUE => Sem::VariableValue(a),
        WASM_LOCATION => match a {
            0 => Sem::WasmLocal(b as u32),
            1 | 3 => Sem::WasmGlobal(b as u32),
            _ => Sem::WasmStack(b as u32),
        },
        _ => unreachable!("sem of unknown opcode"),
    }
}

// ---------------------------------------------------------------------------
// Values

#[derive(Clone, Copy, Debug, PartialEq, Eq, Hash)]
pub enum VT {
    G,
    I8,
    U8,
    I16,
    U16,
    I32,
    U32,
    I64,
    U64,
    F32,
    F64,
}

pub const ALL_VT: [VT; 11] = [VT::G, VT::I8, VT::U8, VT::I16, VT::U16, VT::I32, VT::U32, VT::I64, VT::U64, VT::F32, VT::F64];

impl VT {
    pub fn bits(self, cfg: &Cfg) -> u32 {
        match self {
            VT::G => cfg.bits(),
            VT::I8 | VT::U8 => 8,
            VT::I16 | VT::U16 => 16,
            VT::I32 | VT::U32 | VT::F32 => 32,
            VT::I64 | VT::U64 | VT::F64 => 64,
        }
    }
    pub fn is_signed_int(self) -> bool {
        matches!(self, VT::I8 | VT::I16 | VT::I32 | VT::I64)
    }
    pub fn is_float(self) -> bool {
        matches!(self, VT::F32 | VT::F64)
    }
}

/// A stack value. `G(v, wrapped)`: generic value already reduced modulo
/// 2^(8*address_size); `wrapped` records (for diagnosis only) that the reduction
/// discarded non-zero high bits somewhere in the value's history.
#[derive(Clone, Copy, Debug)]
pub enum MVal {
    G(u64, bool),
    I8(i8),
    U8(u8),
    I16(i16),
    U16(u16),
    I32(i32),
    U32(u32),
    I64(i64),
    U64(u64),
    F32(f32),
    F64(f64),
}

impl MVal {
    pub fn vt(&self) -> VT {
        match self {
            MVal::G(..) => VT::G,
            MVal::I8(_) => VT::I8,
            MVal::U8(_) => VT::U8,
            MVal::I16(_) => VT::I16,
            MVal::U16(_) => VT::U16,
            MVal::I32(_) => VT::I32,
            MVal::U32(_) => VT::U32,
            MVal::I64(_) => VT::I64,
            MVal::U64(_) => VT::U64,
            MVal::F32(_) => VT::F32,
            MVal::F64(_) => VT::F64,
        }
    }
    /// Mathematical value of an integral value (generic: unsigned).
    pub fn int(&self) -> Option<i128> {
        Some(match *self {
            MVal::G(v, _) => v as i128,
            MVal::I8(v) => v as i128,
            MVal::U8(v) => v as i128,
            MVal::I16(v) => v as i128,
            MVal::U16(v) => v as i128,
            MVal::I32(v) => v as i128,
            MVal::U32(v) => v as i128,
            MVal::I64(v) => v as i128,
            MVal::U64(v) => v as i128,
            _ => return None,
        })
    }
    /// Same-type, same-value equality (generic modulo the mask, NaN == NaN).
    pub fn same(&self, o: &MVal) -> bool {
        match (*self, *o) {
            (MVal::G(a, _), MVal::G(b, _)) => a == b,
            (MVal::F32(a), MVal::F32(b)) => a.to_bits() == b.to_bits() || (a.is_nan() && b.is_nan()),
            (MVal::F64(a), MVal::F64(b)) => a.to_bits() == b.to_bits() || (a.is_nan() && b.is_nan()),
            (a, b) => a.vt() == b.vt() && a.int() == b.int(),
        }
    }
    pub fn render(&self) -> String {
        match *self {
            MVal::G(v, _) => format!("Generic({:#x})", v),
            MVal::F32(v) => format!("F32({:?})", v),
            MVal::F64(v) => format!("F64({:?})", v),
            v => format!("{:?}({})", v.vt(), v.int().unwrap()),
        }
    }
}

/// Reduce a mathematical integer to type `vt` (two's complement wrap-around).
pub fn mk_int(vt: VT, m: i128, cfg: &Cfg) -> MVal {
    let u = m as u128 as u64; // low 64 bits of the two's complement representation
    match vt {
        VT::G => {
            let r = u & cfg.mask();
            let wrapped = m < 0 || m > cfg.mask() as i128;
            MVal::G(r, wrapped)
        }
        VT::I8 => MVal::I8(u as i8),
        VT::U8 => MVal::U8(u as u8),
        VT::I16 => MVal::I16(u as i16),
        VT::U16 => MVal::U16(u as u16),
        VT::I32 => MVal::I32(u as i32),
        VT::U32 => MVal::U32(u as u32),
        VT::I64 => MVal::I64(u as i64),
        VT::U64 => MVal::U64(u),
        VT::F32 | VT::F64 => unreachable!(),
    }
}

/// Generic value from a 64-bit quantity supplied from outside (constant operand, answer).
pub fn generic(v: u64, cfg: &Cfg) -> MVal {
    MVal::G(v & cfg.mask(), v & !cfg.mask() != 0)
}

/// Signed interpretation: generic values are read as signed N-bit integers.
fn sint(v: &MVal, cfg: &Cfg) -> Option<i128> {
    match *v {
        MVal::G(x, _) => {
            let n = cfg.bits();
            let half = 1u128 << (n - 1);
            Some(if (x as u128) >= half { x as i128 - (1i128 << n) } else { x as i128 })
        }
        _ => v.int(),
    }
}

fn min_of(vt: VT, cfg: &Cfg) -> i128 {
    -(1i128 << (vt.bits(cfg) - 1))
}

// ---------------------------------------------------------------------------
// Requests, answers, results

#[derive(Clone, Debug, PartialEq)]
pub enum Request {
    /// `addr_loose`: the address came from a typed (non-generic) stack value, whose
    /// widening to an address the standard does not define; compared modulo the mask.
    Memory { addr: u64, addr_loose: bool, size: u8, space: Option<u64>, base: u64 },
    Register { reg: u64, base: u64 },
    FrameBase,
    Tls(u64),
    Cfa,
    AtLocation(DieRef),
    EntryValue(Vec<u8>),
    ParameterRef(u64),
    RelocatedAddress(u64),
    IndexedAddress { index: u64, relocate: bool },
    BaseType(u64),
    WasmLocal(u32),
    WasmGlobal(u32),
    WasmStack(u32),
}

impl Request {
    pub fn kind(&self) -> &'static str {
        match self {
            Request::Memory { .. } => "RequiresMemory",
            Request::Register { .. } => "RequiresRegister",
            Request::FrameBase => "RequiresFrameBase",
            Request::Tls(_) => "RequiresTls",
            Request::Cfa => "RequiresCallFrameCfa",
            Request::AtLocation(_) => "RequiresAtLocation",
            Request::EntryValue(_) => "RequiresEntryValue",
            Request::ParameterRef(_) => "RequiresParameterRef",
            Request::RelocatedAddress(_) => "RequiresRelocatedAddress",
            Request::IndexedAddress { .. } => "RequiresIndexedAddress",
            Request::BaseType(_) => "RequiresBaseType",
            Request::WasmLocal(_) => "RequiresWasmLocal",
            Request::WasmGlobal(_) => "RequiresWasmGlobal",
            Request::WasmStack(_) => "RequiresWasmStack",
        }
    }
}

#[derive(Clone, Debug)]
pub enum Answer {
    Val(MVal),
    U(u64),
    Ty(VT),
    Expr(Vec<u8>),
}

impl Answer {
    pub fn render(&self) -> String {
        match self {
            Answer::Val(v) => v.render(),
            Answer::U(v) => format!("{:#x}", v),
            Answer::Ty(t) => format!("{:?}", t),
            Answer::Expr(b) => format!("expr[{}]", mcx::hex(b)),
        }
    }
}

#[derive(Clone, Debug)]
pub enum MLoc {
    Empty,
    Register(u64),
    /// (address, loose: compared modulo the mask only)
    Address(u64, bool),
    Value(MVal),
    Bytes(Vec<u8>),
    ImplicitPointer { value: u64, off: i64 },
}

#[derive(Clone, Debug)]
pub struct MPiece {
    pub size: Option<u64>,
    pub off: Option<u64>,
    pub loc: MLoc,
}

/// One acceptable final behaviour.
#[derive(Clone, Debug)]
pub enum Expect {
    /// completes with these pieces and this `value_result`
    Complete { pieces: Vec<MPiece>, value: Option<MVal> },
    /// completes with this `value_result`, pieces not constrained
    CompleteValue(MVal),
    /// fails with an error of one of these classes (empty = any error)
    Error(Vec<&'static str>),
    /// behaviour not defined by the standard or the rustdoc: anything but a panic or a hang
    Unspec(&'static str),
}

pub enum Event {
    Need(Request),
    Done(Vec<Expect>),
}

enum Pending {
    PushVal,
    PushU,
    RegOffset(i64),
    FrameOffset(i64),
    Call,
    TypedLiteral(Vec<u8>),
    Convert,
    Reinterpret,
}

enum Flow {
    Next,
    Need(Request, Pending),
    Loc(MLoc),
    Piece(u64, Option<u64>),
    Done(Vec<Expect>),
}

fn err(classes: &[&'static str]) -> Flow {
    Flow::Done(vec![Expect::Error(classes.to_vec())])
}

pub struct Machine {
    pub cfg: Cfg,
    code: Rc<Vec<u8>>,
    pc: usize,
    frames: Vec<(Rc<Vec<u8>>, usize)>,
    pub stack: Vec<MVal>,
    pub pieces: Vec<MPiece>,
    obj: Option<u64>,
    pending: Option<Pending>,
    /// operations decoded so far (every operation, attached pieces included)
    pub n_ops: u64,
    /// indices (1-based, in `n_ops` numbering) of pieces decoded as the attachment of a
    /// location-completing operation
    pub attached: Vec<u64>,
    /// stop with `iterations` before decoding operation number `limit + 1`
    limit: Option<u64>,
    /// some operation ran since the last piece (or the start)
    tail: bool,
    /// opcode of the last executed operation that transforms values (diagnosis)
    pub last_code: Option<u8>,
    /// opcode being executed, and the opcode that raised the first note
    cur_code: u8,
    pub note_code: Option<u8>,
    /// diagnostic notes about special circumstances met during the run
    pub notes: Vec<&'static str>,
}

impl Machine {
    pub fn new(cfg: Cfg, code: Vec<u8>, init: Option<u64>, obj: Option<u64>, limit: Option<u64>) -> Machine {
        let mut stack = vec![];
        if let Some(v) = init {
            stack.push(generic(v, &cfg));
        }
        Machine {
            cfg,
            code: Rc::new(code),
            pc: 0,
            frames: vec![],
            stack,
            pieces: vec![],
            obj,
            pending: None,
            n_ops: 0,
            attached: vec![],
            limit,
            tail: false,
            last_code: None,
            cur_code: 0,
            note_code: None,
            notes: vec![],
        }
    }

    pub fn site(&self) -> String {
        match (self.note_code, self.last_code) {
            (Some(c), _) => format!("sem:{}", mnemonic(c)),
            (None, Some(c)) => format!("sem:{}", mnemonic(c)),
            _ => "sem:none".into(),
        }
    }

    fn note(&mut self, n: &'static str) {
        if !self.notes.contains(&n) {
            if self.notes.is_empty() {
                self.note_code = Some(self.cur_code);
            }
            self.notes.push(n);
        }
    }

    fn unwind(&mut self) -> bool {
        while self.pc >= self.code.len() {
            match self.frames.pop() {
                Some((c, p)) => {
                    self.code = c;
                    self.pc = p;
                }
                None => return true,
            }
        }
        false
    }

    fn over_limit(&mut self) -> bool {
        self.n_ops += 1;
        matches!(self.limit, Some(l) if self.n_ops > l)
    }

    /// Start, or continue after the answer to the pending request.
    pub fn resume(&mut self, ans: Option<&Answer>) -> Event {
        if let Some(p) = self.pending.take() {
            let a = ans.expect("answer required");
            if let Some(done) = self.apply(p, a) {
                return Event::Done(done);
            }
        }
        loop {
            if self.unwind() {
                return Event::Done(self.finish());
            }
            if self.over_limit() {
                return Event::Done(vec![Expect::Error(vec!["iterations"])]);
            }
            let (op, next) = match decode(&self.code, self.pc, &self.cfg) {
                Ok(x) => x,
                Err(e) => return Event::Done(vec![Expect::Error(dec_err_classes(e))]),
            };
            self.pc = next;
            let s = sem(&op, &self.cfg);
            if !matches!(s, Sem::UConst(_) | Sem::SConst(_) | Sem::Nop | Sem::StackValue | Sem::Piece { .. } | Sem::Register(_) | Sem::ImplicitValue(_) | Sem::ImplicitPointer { .. }) {
                self.last_code = Some(op.code);
            }
            self.cur_code = op.code;
            match self.exec(s) {
                Flow::Next => {
                    self.tail = true;
                }
                Flow::Need(r, p) => {
                    self.tail = true;
                    self.pending = Some(p);
                    return Event::Need(r);
                }
                Flow::Piece(size, off) => {
                    // A piece not attached to a location-completing operation: memory
                    // location from the stack top, or an empty piece.
                    let loc = match self.stack.pop() {
                        None => MLoc::Empty,
                        Some(v) => match v.int() {
                            Some(m) => MLoc::Address(m as u128 as u64 & self.cfg.mask(), v.vt() != VT::G),
                            None => return Event::Done(vec![Expect::Error(vec!["integral"])]),
                        },
                    };
                    self.pieces.push(MPiece { size: Some(size), off, loc });
                    self.tail = false;
                }
                Flow::Loc(loc) => {
                    if self.unwind() {
                        if !self.pieces.is_empty() {
                            // rustdoc Error::InvalidPiece: "a piece followed by an
                            // expression terminator without a piece"
                            return Event::Done(vec![Expect::Error(vec!["piece"])]);
                        }
                        return Event::Done(vec![Expect::Complete { pieces: vec![MPiece { size: None, off: None, loc }], value: None }]);
                    }
                    // The operation after a location-completing one must be a piece.
                    if self.over_limit() {
                        return Event::Done(vec![Expect::Error(vec!["iterations"])]);
                    }
                    self.attached.push(self.n_ops);
                    let (op, next) = match decode(&self.code, self.pc, &self.cfg) {
                        Ok(x) => x,
                        Err(e) => return Event::Done(vec![Expect::Error(dec_err_classes(e))]),
                    };
                    self.pc = next;
                    match sem(&op, &self.cfg) {
                        Sem::Piece { bits, off } => {
                            if bits > u64::MAX as u128 {
                                return Event::Done(vec![Expect::Error(vec![])]);
                            }
                            self.pieces.push(MPiece { size: Some(bits as u64), off, loc });
                            self.tail = false;
                        }
                        // rustdoc Error::InvalidExpressionTerminator
                        _ => return Event::Done(vec![Expect::Error(vec!["terminator"])]),
                    }
                }
                Flow::Done(d) => return Event::Done(d),
            }
        }
    }

    fn finish(&mut self) -> Vec<Expect> {
        if !self.pieces.is_empty() {
            if self.tail {
                // Operations after the last piece that are not terminated by a piece.
                // The rustdoc documents InvalidPiece; gimli reports it only when the
                // last operation did not suspend. Either is accepted.
                return vec![Expect::Error(vec!["piece"]), Expect::Complete { pieces: self.pieces.clone(), value: None }];
            }
            return vec![Expect::Complete { pieces: self.pieces.clone(), value: None }];
        }
        match self.stack.pop() {
            // An expression that leaves nothing: DWARF 2.6.1.1.1 calls the empty location
            // description "not available"; gimli documents NotEnoughStackItems.
            None => vec![Expect::Error(vec!["underflow"]), Expect::Complete { pieces: vec![MPiece { size: None, off: None, loc: MLoc::Empty }], value: None }],
            Some(v) => match v.int() {
                Some(m) => vec![Expect::Complete {
                    pieces: vec![MPiece { size: None, off: None, loc: MLoc::Address(m as u128 as u64 & self.cfg.mask(), v.vt() != VT::G) }],
                    value: Some(v),
                }],
                // A floating-point result is no address: error, or a value-only result.
                None => vec![Expect::Error(vec!["integral"]), Expect::CompleteValue(v)],
            },
        }
    }

    fn pop(&mut self) -> Result<MVal, Flow> {
        self.stack.pop().ok_or_else(|| err(&["underflow"]))
    }

    /// Pop an integral value and widen it to an address-like u64.
    fn pop_addr(&mut self) -> Result<(u64, bool), Flow> {
        let v = self.pop()?;
        match v.int() {
            Some(m) => Ok((m as u128 as u64 & if v.vt() == VT::G { self.cfg.mask() } else { !0 }, v.vt() != VT::G)),
            None => Err(err(&["integral"])),
        }
    }

    fn apply(&mut self, p: Pending, a: &Answer) -> Option<Vec<Expect>> {
        let cfg = self.cfg;
        match (p, a) {
            (Pending::PushVal, Answer::Val(v)) => {
                let v = match *v {
                    MVal::G(x, _) => generic(x, &cfg),
                    o => o,
                };
                self.stack.push(v);
            }
            (Pending::PushU, Answer::U(x)) => self.stack.push(generic(*x, &cfg)),
            (Pending::FrameOffset(off), Answer::U(x)) => {
                let m = (*x & cfg.mask()) as i128 + off as i128;
                self.stack.push(mk_int(VT::G, m, &cfg));
            }
            (Pending::RegOffset(off), Answer::Val(v)) => {
                let r = match *v {
                    MVal::G(x, _) => mk_int(VT::G, (x & cfg.mask()) as i128 + off as i128, &cfg),
                    MVal::F32(f) => {
                        if off < 0 {
                            return Some(vec![Expect::Unspec("negative register offset added to a float")]);
                        }
                        MVal::F32(f + off as f32)
                    }
                    MVal::F64(f) => {
                        if off < 0 {
                            return Some(vec![Expect::Unspec("negative register offset added to a float")]);
                        }
                        MVal::F64(f + off as f64)
                    }
                    o => mk_int(o.vt(), o.int().unwrap() + off as i128, &cfg),
                };
                self.stack.push(r);
            }
            (Pending::Call, Answer::Expr(bytes)) => {
                if !bytes.is_empty() {
                    let old = std::mem::replace(&mut self.code, Rc::new(bytes.clone()));
                    self.frames.push((old, self.pc));
                    self.pc = 0;
                }
            }
            (Pending::TypedLiteral(blob), Answer::Ty(t)) => {
                if *t == VT::G {
                    // rustdoc: Value::parse does not support the generic type
                    return Some(vec![Expect::Error(vec!["unsupported-type"]), Expect::Unspec("const_type of the generic type")]);
                }
                let n = (t.bits(&cfg) / 8) as usize;
                if blob.len() < n {
                    return Some(vec![Expect::Error(vec!["eof"])]);
                }
                if blob.len() > n {
                    return Some(vec![Expect::Unspec("const_type block longer than its type")]);
                }
                let mut v = 0u64;
                if cfg.big {
                    for &x in &blob[..n] {
                        v = (v << 8) | x as u64;
                    }
                } else {
                    for &x in blob[..n].iter().rev() {
                        v = (v << 8) | x as u64;
                    }
                }
                self.stack.push(from_bits(*t, v, &cfg));
            }
            (Pending::Convert, Answer::Ty(t)) => {
                let v = match self.stack.pop() {
                    Some(v) => v,
                    None => return Some(vec![Expect::Error(vec!["underflow"])]),
                };
                match convert(v, *t, &cfg) {
                    Ok((r, note)) => {
                        if let Some(n) = note {
                            self.note(n);
                        }
                        let r = match (v, r) {
                            (MVal::G(_, true), MVal::G(x, _)) => MVal::G(x, true),
                            _ => r,
                        };
                        self.stack.push(r)
                    }
                    Err(why) => return Some(vec![Expect::Unspec(why)]),
                }
            }
            (Pending::Reinterpret, Answer::Ty(t)) => {
                let v = match self.stack.pop() {
                    Some(v) => v,
                    None => return Some(vec![Expect::Error(vec!["underflow"])]),
                };
                if v.vt().bits(&cfg) != t.bits(&cfg) {
                    return Some(vec![Expect::Error(vec!["typemismatch"])]);
                }
                let r = match (v, from_bits(*t, to_bits(&v), &cfg)) {
                    (MVal::G(_, true), MVal::G(x, _)) => MVal::G(x, true),
                    (_, r) => r,
                };
                self.stack.push(r);
            }
            _ => panic!("answer kind does not match the pending request"),
        }
        None
    }

    fn binary_same_type(&mut self) -> Result<(MVal, MVal), Flow> {
        let rhs = self.pop()?;
        let lhs = self.pop()?;
        if lhs.vt() != rhs.vt() {
            return Err(err(&["typemismatch"]));
        }
        Ok((lhs, rhs))
    }

    fn exec(&mut self, s: Sem) -> Flow {
        match self.exec_inner(s) {
            Ok(f) => f,
            Err(f) => f,
        }
    }

    fn exec_inner(&mut self, s: Sem) -> Result<Flow, Flow> {
        let cfg = self.cfg;
        match s {
            Sem::UConst(v) => self.stack.push(generic(v, &cfg)),
            Sem::SConst(v) => self.stack.push(mk_int(VT::G, v as i128, &cfg)),
            Sem::Nop => {}
            Sem::Drop => {
                self.pop()?;
            }
            Sem::Pick(i) => {
                let n = self.stack.len();
                if i as usize >= n {
                    return Err(err(&["underflow"]));
                }
                let v = self.stack[n - 1 - i as usize];
                self.stack.push(v);
            }
            Sem::Swap => {
                let a = self.pop()?;
                let b = self.pop()?;
                self.stack.push(a);
                self.stack.push(b);
            }
            Sem::Rot => {
                // 2.5.1.3: the top becomes the third entry, the second becomes the top,
                // the third becomes the second.
                let top = self.pop()?;
                let second = self.pop()?;
                let third = self.pop()?;
                self.stack.push(top);
                self.stack.push(third);
                self.stack.push(second);
            }
            Sem::Abs => {
                let v = self.pop()?;
                // The sign of abs(-0.0) and abs(NaN) is not defined by the standard or the
                // rustdoc (gimli keeps the sign bit: `if value < 0. { -value } else { value }`).
                match v {
                    MVal::F32(f) if f.is_nan() || (f == 0.0 && f.is_sign_negative()) => return Err(Flow::Done(vec![Expect::Unspec("sign of abs(-0.0) / abs(NaN)")])),
                    MVal::F64(f) if f.is_nan() || (f == 0.0 && f.is_sign_negative()) => return Err(Flow::Done(vec![Expect::Unspec("sign of abs(-0.0) / abs(NaN)")])),
                    _ => {}
                }
                let r = match v {
                    MVal::F32(f) => MVal::F32(f.abs()),
                    MVal::F64(f) => MVal::F64(f.abs()),
                    MVal::U8(_) | MVal::U16(_) | MVal::U32(_) | MVal::U64(_) => v,
                    _ => {
                        let m = sint(&v, &cfg).unwrap();
                        if m == min_of(v.vt(), &cfg) {
                            return Err(Flow::Done(vec![Expect::Unspec("abs of the minimum value (2.5.1.4: undefined)")]));
                        }
                        mk_int(v.vt(), m.abs(), &cfg)
                    }
                };
                self.stack.push(r);
            }
            Sem::Neg => {
                let v = self.pop()?;
                let r = match v {
                    MVal::F32(f) => MVal::F32(-f),
                    MVal::F64(f) => MVal::F64(-f),
                    MVal::U8(_) | MVal::U16(_) | MVal::U32(_) | MVal::U64(_) => {
                        return Err(Flow::Done(vec![Expect::Error(vec!["unsupported-type"]), Expect::Unspec("neg of an unsigned typed value")]));
                    }
                    _ => {
                        let m = sint(&v, &cfg).unwrap();
                        if m == min_of(v.vt(), &cfg) {
                            return Err(Flow::Done(vec![Expect::Unspec("neg of the minimum value (2.5.1.4: undefined)")]));
                        }
                        mk_int(v.vt(), -m, &cfg)
                    }
                };
                self.stack.push(r);
            }
            Sem::Not => {
                let v = self.pop()?;
                let Some(m) = v.int() else { return Err(err(&["integral"])) };
                self.stack.push(mk_int(v.vt(), !m, &cfg));
            }
            Sem::And | Sem::Or | Sem::Xor => {
                let rhs = self.pop()?;
                let lhs = self.pop()?;
                let mut classes = vec![];
                if lhs.vt() != rhs.vt() {
                    classes.push("typemismatch");
                }
                if lhs.vt().is_float() || rhs.vt().is_float() {
                    classes.push("integral");
                }
                if !classes.is_empty() {
                    return Err(Flow::Done(vec![Expect::Error(classes)]));
                }
                let (a, b) = (lhs.int().unwrap(), rhs.int().unwrap());
                let m = match s {
                    Sem::And => a & b,
                    Sem::Or => a | b,
                    _ => a ^ b,
                };
                self.stack.push(mk_int(lhs.vt(), m, &cfg));
            }
            Sem::Plus | Sem::Minus | Sem::Mul => {
                let (lhs, rhs) = self.binary_same_type()?;
                let r = match (lhs, rhs) {
                    (MVal::F32(a), MVal::F32(b)) => MVal::F32(match s {
                        Sem::Plus => a + b,
                        Sem::Minus => a - b,
                        _ => a * b,
                    }),
                    (MVal::F64(a), MVal::F64(b)) => MVal::F64(match s {
                        Sem::Plus => a + b,
                        Sem::Minus => a - b,
                        _ => a * b,
                    }),
                    _ => {
                        let (a, b) = (lhs.int().unwrap(), rhs.int().unwrap());
                        let m = match s {
                            Sem::Plus => a.wrapping_add(b),
                            Sem::Minus => a.wrapping_sub(b),
                            _ => a.wrapping_mul(b),
                        };
                        mk_int(lhs.vt(), m, &cfg)
                    }
                };
                self.stack.push(r);
            }
            Sem::Div | Sem::Mod => {
                let rhs = self.pop()?;
                let lhs = self.pop()?;
                let mut classes = vec![];
                if lhs.vt() != rhs.vt() {
                    classes.push("typemismatch");
                }
                if rhs.int() == Some(0) {
                    classes.push("divzero");
                }
                if s == Sem::Mod && lhs.vt() == rhs.vt() && lhs.vt().is_float() {
                    classes.push("integral");
                }
                if !classes.is_empty() {
                    return Err(Flow::Done(vec![Expect::Error(classes)]));
                }
                let r = match (lhs, rhs) {
                    (MVal::F32(a), MVal::F32(b)) => MVal::F32(a / b),
                    (MVal::F64(a), MVal::F64(b)) => MVal::F64(a / b),
                    _ => {
                        if s == Sem::Div {
                            // 2.5.1.4: signed division; generic read as signed
                            let (a, b) = (sint(&lhs, &cfg).unwrap(), sint(&rhs, &cfg).unwrap());
                            mk_int(lhs.vt(), a / b, &cfg)
                        } else {
                            // rustdoc Value::rem: generic is unsigned; typed follow their type
                            let (a, b) = (lhs.int().unwrap(), rhs.int().unwrap());
                            mk_int(lhs.vt(), a % b, &cfg)
                        }
                    }
                };
                self.stack.push(r);
            }
            Sem::PlusConst(c) => {
                let v = self.pop()?;
                let r = match v {
                    MVal::F32(f) => MVal::F32(f + c as f32),
                    MVal::F64(f) => MVal::F64(f + c as f64),
                    _ => mk_int(v.vt(), v.int().unwrap().wrapping_add(c as i128), &cfg),
                };
                self.stack.push(r);
            }
            Sem::Shl | Sem::Shr | Sem::Shra => {
                let rhs = self.pop()?;
                let lhs = self.pop()?;
                let mut classes = vec![];
                let count = match rhs.int() {
                    None => {
                        classes.push("shift");
                        classes.push("integral");
                        0
                    }
                    Some(c) if c < 0 => {
                        classes.push("shift");
                        0
                    }
                    Some(c) => c as u128,
                };
                let vt = lhs.vt();
                if vt.is_float() {
                    classes.push("integral");
                } else if s == Sem::Shr && vt.is_signed_int() {
                    // rustdoc Value::shr: requires an unsigned type
                    classes.push("unsupported-type");
                } else if s == Sem::Shra && !vt.is_signed_int() && vt != VT::G {
                    // rustdoc Value::shra: requires a signed type
                    classes.push("unsupported-type");
                }
                if !classes.is_empty() {
                    return Err(Flow::Done(vec![Expect::Error(classes)]));
                }
                if let MVal::G(_, true) = rhs {
                    self.note("count-wrapped");
                }
                let w = vt.bits(&cfg) as u128;
                let r = match s {
                    Sem::Shl => {
                        if count >= w {
                            mk_int(vt, 0, &cfg)
                        } else {
                            mk_int(vt, lhs.int().unwrap() << count, &cfg)
                        }
                    }
                    Sem::Shr => {
                        if count >= w {
                            mk_int(vt, 0, &cfg)
                        } else {
                            mk_int(vt, lhs.int().unwrap() >> count, &cfg)
                        }
                    }
                    _ => {
                        let a = sint(&lhs, &cfg).unwrap();
                        if count >= w {
                            mk_int(vt, if a < 0 { -1 } else { 0 }, &cfg)
                        } else {
                            mk_int(vt, a >> count, &cfg)
                        }
                    }
                };
                // the result of a shift is not "wrapped" for diagnosis purposes unless
                // bits were shifted out; mk_int already tracks that
                self.stack.push(r);
            }
            Sem::Eq | Sem::Ge | Sem::Gt | Sem::Le | Sem::Lt | Sem::Ne => {
                let (lhs, rhs) = self.binary_same_type()?;
                let ord = match (lhs, rhs) {
                    (MVal::F32(a), MVal::F32(b)) => a.partial_cmp(&b),
                    (MVal::F64(a), MVal::F64(b)) => a.partial_cmp(&b),
                    _ => sint(&lhs, &cfg).unwrap().partial_cmp(&sint(&rhs, &cfg).unwrap()),
                };
                use std::cmp::Ordering::*;
                let t = match (&s, ord) {
                    (Sem::Ne, None) => true,
                    (_, None) => false,
                    (Sem::Eq, Some(o)) => o == Equal,
                    (Sem::Ne, Some(o)) => o != Equal,
                    (Sem::Ge, Some(o)) => o != Less,
                    (Sem::Gt, Some(o)) => o == Greater,
                    (Sem::Le, Some(o)) => o != Greater,
                    (_, Some(o)) => o == Less,
                };
                self.stack.push(MVal::G(t as u64, false));
            }
            Sem::Bra(d) | Sem::Skip(d) => {
                let taken = if let Sem::Bra(_) = s {
                    let v = self.pop()?;
                    match v.int() {
                        Some(m) => m != 0,
                        None => return Err(err(&["integral"])),
                    }
                } else {
                    true
                };
                if taken {
                    let t = self.pc as i64 + d as i64;
                    if t < 0 || t > self.code.len() as i64 {
                        return Err(err(&["branch"]));
                    }
                    self.pc = t as usize;
                }
            }
            Sem::Register(r) => {
                if r > u16::MAX as u64 {
                    // gimli documents UnsupportedRegister for numbers above u16
                    return Err(Flow::Done(vec![Expect::Error(vec!["register"])]));
                }
                return Ok(Flow::Loc(MLoc::Register(r)));
            }
            Sem::ImplicitValue(b) => return Ok(Flow::Loc(MLoc::Bytes(b))),
            Sem::StackValue => {
                let v = self.pop()?;
                return Ok(Flow::Loc(MLoc::Value(v)));
            }
            Sem::ImplicitPointer { value, off } => return Ok(Flow::Loc(MLoc::ImplicitPointer { value, off })),
            Sem::Piece { bits, off } => {
                if bits > u64::MAX as u128 {
                    // the size in bits is not representable: any error, no panic
                    return Err(Flow::Done(vec![Expect::Error(vec![])]));
                }
                return Ok(Flow::Piece(bits as u64, off));
            }
            Sem::Deref { base, size, space } => {
                // rustdoc Error::InvalidDerefSize / RequiresMemory::size
                let size_bad = size > cfg.asz;
                let need = if space { 2 } else { 1 };
                if size_bad {
                    let mut c = vec!["derefsize"];
                    if self.stack.len() < need {
                        c.push("underflow");
                    }
                    return Err(Flow::Done(vec![Expect::Error(c)]));
                }
                let (addr, loose) = self.pop_addr()?;
                let sp = if space { Some(self.pop_addr()?.0 & cfg.mask()) } else { None };
                return Ok(Flow::Need(Request::Memory { addr, addr_loose: loose, size, space: sp, base }, Pending::PushVal));
            }
            Sem::RegisterOffset { reg, off, base } => {
                if reg > u16::MAX as u64 {
                    return Err(Flow::Done(vec![Expect::Error(vec!["register"])]));
                }
                return Ok(Flow::Need(Request::Register { reg, base }, Pending::RegOffset(off)));
            }
            Sem::FrameOffset(off) => return Ok(Flow::Need(Request::FrameBase, Pending::FrameOffset(off))),
            Sem::PushObjectAddress => match self.obj {
                Some(a) => self.stack.push(generic(a, &cfg)),
                None => return Err(err(&["objaddr"])),
            },
            Sem::Call(r) => return Ok(Flow::Need(Request::AtLocation(r), Pending::Call)),
            Sem::Tls => {
                let (v, _) = self.pop_addr()?;
                return Ok(Flow::Need(Request::Tls(v & cfg.mask()), Pending::PushU));
            }
            Sem::Cfa => return Ok(Flow::Need(Request::Cfa, Pending::PushU)),
            Sem::EntryValue(b) => return Ok(Flow::Need(Request::EntryValue(b), Pending::PushVal)),
            Sem::ParameterRef(o) => return Ok(Flow::Need(Request::ParameterRef(o), Pending::PushU)),
            Sem::Address(a) => return Ok(Flow::Need(Request::RelocatedAddress(a), Pending::PushU)),
            Sem::AddressIndex(i) => return Ok(Flow::Need(Request::IndexedAddress { index: i, relocate: true }, Pending::PushU)),
            Sem::ConstantIndex(i) => return Ok(Flow::Need(Request::IndexedAddress { index: i, relocate: false }, Pending::PushU)),
            Sem::TypedLiteral { base, value } => return Ok(Flow::Need(Request::BaseType(base), Pending::TypedLiteral(value))),
            Sem::Convert(t) => return Ok(Flow::Need(Request::BaseType(t), Pending::Convert)),
            Sem::Reinterpret(t) => return Ok(Flow::Need(Request::BaseType(t), Pending::Reinterpret)),
            Sem::WasmLocal(i) => return Ok(Flow::Need(Request::WasmLocal(i), Pending::PushVal)),
            Sem::WasmGlobal(i) => return Ok(Flow::Need(Request::WasmGlobal(i), Pending::PushVal)),
            Sem::WasmStack(i) => return Ok(Flow::Need(Request::WasmStack(i), Pending::PushVal)),
            // rustdoc Error::UnsupportedEvaluation
            Sem::VariableValue(_) | Sem::Uninit => return Err(err(&["unsupported"])),
        }
        Ok(Flow::Next)
    }
}

pub fn dec_err_classes(e: DecErr) -> Vec<&'static str> {
    match e {
        DecErr::Eof => vec!["eof"],
        DecErr::BadOp => vec!["badop"],
        DecErr::Leb => vec!["leb"],
        DecErr::Reg => vec!["register"],
    }
}

pub fn to_bits(v: &MVal) -> u64 {
    match *v {
        MVal::F32(f) => f.to_bits() as u64,
        MVal::F64(f) => f.to_bits(),
        _ => v.int().unwrap() as u128 as u64,
    }
}

pub fn from_bits(t: VT, bits: u64, cfg: &Cfg) -> MVal {
    match t {
        VT::F32 => MVal::F32(f32::from_bits(bits as u32)),
        VT::F64 => MVal::F64(f64::from_bits(bits)),
        VT::G => generic(bits, cfg),
        _ => mk_int(t, bits as i128, cfg),
    }
}

/// DW_OP_convert. `Err(reason)`: the standard / rustdoc leave the result undefined.
pub fn convert(v: MVal, t: VT, cfg: &Cfg) -> Result<(MVal, Option<&'static str>), &'static str> {
    let w = t.bits(cfg);
    let range = |t: VT| -> (f64, f64) {
        // inclusive lower bound, exclusive upper bound, as f64 (exact powers of two)
        if t.is_signed_int() {
            (-(2f64.powi(w as i32 - 1)), 2f64.powi(w as i32 - 1))
        } else {
            (0.0, 2f64.powi(w as i32))
        }
    };
    let from_float = |f: f64| -> Result<MVal, &'static str> {
        if f.is_nan() {
            return Err("conversion of NaN to an integer");
        }
        let tr = f.trunc();
        let (lo, hi) = range(t);
        if tr < lo || tr >= hi {
            return Err("float does not fit the integer type");
        }
        // tr is integral and within 65 bits
        Ok(mk_int(t, tr as i128, cfg))
    };
    Ok(match v {
        MVal::F32(f) => match t {
            VT::F32 => (v, None),
            VT::F64 => (MVal::F64(f as f64), None),
            _ => (from_float(f as f64)?, None),
        },
        MVal::F64(f) => match t {
            VT::F64 => (v, None),
            VT::F32 => (MVal::F32(f as f32), None),
            _ => (from_float(f)?, None),
        },
        _ => {
            let m = v.int().unwrap();
            match t {
                VT::F32 => (MVal::F32(m as f32), if m < 0 { Some("negative-to-float") } else { None }),
                VT::F64 => (MVal::F64(m as f64), if m < 0 { Some("negative-to-float") } else { None }),
                _ => (mk_int(t, m, cfg), None),
            }
        }
    })
}

/// Byte offsets of the operations of a program encoded with `encode_all`.
pub fn offsets(ops: &[Op], cfg: &Cfg) -> Vec<usize> {
    let mut e = Enc::new(cfg.big);
    let mut v = vec![];
    for op in ops {
        v.push(e.len());
        encode(op, cfg, &mut e);
    }
    v.push(e.len());
    v
}

/// The operations of a byte string as abstract operations.
pub fn sem_seq(b: &[u8], cfg: &Cfg) -> Result<Vec<(usize, Sem)>, DecErr> {
    let mut v = vec![];
    let mut p = 0;
    while p < b.len() {
        let (op, n) = decode(b, p, cfg)?;
        v.push((p, sem(&op, cfg)));
        p = n;
    }
    Ok(v)
}

/// Equality of abstract operations where nested expressions are compared as
/// operation sequences (the writer may pick shorter encodings inside them).
pub fn sem_equiv(a: &Sem, b: &Sem, cfg: &Cfg) -> bool {
    match (a, b) {
        (Sem::EntryValue(x), Sem::EntryValue(y)) => blobs_equiv(x, y, cfg),
        _ => a == b,
    }
}

pub fn blobs_equiv(x: &[u8], y: &[u8], cfg: &Cfg) -> bool {
    match (sem_seq(x, cfg), sem_seq(y, cfg)) {
        (Ok(a), Ok(b)) => {
            if a.len() != b.len() {
                return false;
            }
            // index of the operation a branch at position i lands on (len = the end); the two
            // byte strings may encode operations with different lengths, so displacements are
            // compared through the operation they designate
            let land = |seq: &[(usize, Sem)], total: usize, i: usize, d: i16| -> Option<usize> {
                let next = if i + 1 < seq.len() { seq[i + 1].0 } else { total };
                let t = next as i64 + d as i64;
                if t == total as i64 {
                    Some(seq.len())
                } else {
                    seq.iter().position(|p| p.0 as i64 == t)
                }
            };
            for i in 0..a.len() {
                match (&a[i].1, &b[i].1) {
                    (Sem::Skip(d1), Sem::Skip(d2)) | (Sem::Bra(d1), Sem::Bra(d2)) => {
                        let (l1, l2) = (land(&a, x.len(), i, *d1), land(&b, y.len(), i, *d2));
                        if l1.is_none() || l1 != l2 {
                            return false;
                        }
                    }
                    (p, q) => {
                        if !sem_equiv(p, q, cfg) {
                            return false;
                        }
                    }
                }
            }
            true
        }
        _ => x == y,
    }
}
