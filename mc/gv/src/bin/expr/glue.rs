//! Glue between gimli's expression API and the reference model: conversion of
//! observations into model terms and the lock-step driver that respects the
//! documented Evaluation protocol (evaluate once, answer each Requires* with the
//! matching resume_with_*, result()/value_result() only after Complete).
use super::model::*;
use gimli::{EndianSlice, Encoding, Evaluation, EvaluationResult, Format, Location, Operation, Piece, RunTimeEndian, Value, ValueType};
use mcx::{guard, Panic};

pub type Rd<'a> = EndianSlice<'a, RunTimeEndian>;

pub fn endian(cfg: &Cfg) -> RunTimeEndian {
    if cfg.big {
        RunTimeEndian::Big
    } else {
        RunTimeEndian::Little
    }
}

pub fn encoding(cfg: &Cfg) -> Encoding {
    Encoding { address_size: cfg.asz, format: if cfg.fmt64 { Format::Dwarf64 } else { Format::Dwarf32 }, version: cfg.ver }
}

pub fn from_gimli(op: &Operation<Rd<'_>>) -> Sem {
    use gimli::DieReference;
    match *op {
        Operation::Deref { base_type, size, space } => Sem::Deref { base: base_type.0 as u64, size, space },
        Operation::Drop => Sem::Drop,
        Operation::Pick { index } => Sem::Pick(index),
        Operation::Swap => Sem::Swap,
        Operation::Rot => Sem::Rot,
        Operation::Abs => Sem::Abs,
        Operation::And => Sem::And,
        Operation::Div => Sem::Div,
        Operation::Minus => Sem::Minus,
        Operation::Mod => Sem::Mod,
        Operation::Mul => Sem::Mul,
        Operation::Neg => Sem::Neg,
        Operation::Not => Sem::Not,
        Operation::Or => Sem::Or,
        Operation::Plus => Sem::Plus,
        Operation::PlusConstant { value } => Sem::PlusConst(value),
        Operation::Shl => Sem::Shl,
        Operation::Shr => Sem::Shr,
        Operation::Shra => Sem::Shra,
        Operation::Xor => Sem::Xor,
        Operation::Bra { target } => Sem::Bra(target),
        Operation::Eq => Sem::Eq,
        Operation::Ge => Sem::Ge,
        Operation::Gt => Sem::Gt,
        Operation::Le => Sem::Le,
        Operation::Lt => Sem::Lt,
        Operation::Ne => Sem::Ne,
        Operation::Skip { target } => Sem::Skip(target),
        Operation::UnsignedConstant { value } => Sem::UConst(value),
        Operation::SignedConstant { value } => Sem::SConst(value),
        Operation::Register { register } => Sem::Register(register.0 as u64),
        Operation::RegisterOffset { register, offset, base_type } => Sem::RegisterOffset { reg: register.0 as u64, off: offset, base: base_type.0 as u64 },
        Operation::FrameOffset { offset } => Sem::FrameOffset(offset),
        Operation::Nop => Sem::Nop,
        Operation::PushObjectAddress => Sem::PushObjectAddress,
        Operation::Call { offset } => Sem::Call(match offset {
            DieReference::UnitRef(o) => DieRef::Unit(o.0 as u64),
            DieReference::DebugInfoRef(o) => DieRef::Info(o.0 as u64),
        }),
        Operation::VariableValue { offset } => Sem::VariableValue(offset.0 as u64),
        Operation::TLS => Sem::Tls,
        Operation::CallFrameCFA => Sem::Cfa,
        Operation::Piece { size_in_bits, bit_offset } => Sem::Piece { bits: size_in_bits as u128, off: bit_offset },
        Operation::ImplicitValue { data } => Sem::ImplicitValue(data.slice().to_vec()),
        Operation::StackValue => Sem::StackValue,
        Operation::ImplicitPointer { value, byte_offset } => Sem::ImplicitPointer { value: value.0 as u64, off: byte_offset },
        Operation::EntryValue { expression } => Sem::EntryValue(expression.slice().to_vec()),
        Operation::ParameterRef { offset } => Sem::ParameterRef(offset.0 as u64),
        Operation::Address { address } => Sem::Address(address),
        Operation::AddressIndex { index } => Sem::AddressIndex(index.0 as u64),
        Operation::ConstantIndex { index } => Sem::ConstantIndex(index.0 as u64),
        Operation::TypedLiteral { base_type, value } => Sem::TypedLiteral { base: base_type.0 as u64, value: value.slice().to_vec() },
        Operation::Convert { base_type } => Sem::Convert(base_type.0 as u64),
        Operation::Reinterpret { base_type } => Sem::Reinterpret(base_type.0 as u64),
        Operation::Uninitialized => Sem::Uninit,
        Operation::WasmLocal { index } => Sem::WasmLocal(index),
        Operation::WasmGlobal { index } => Sem::WasmGlobal(index),
        Operation::WasmStack { index } => Sem::WasmStack(index),
    }
}

pub fn class_of(e: &gimli::Error) -> &'static str {
    use gimli::Error::*;
    match e {
        NotEnoughStackItems => "underflow",
        DivisionByZero => "divzero",
        TypeMismatch => "typemismatch",
        IntegralTypeRequired => "integral",
        InvalidShiftExpression => "shift",
        BadBranchTarget(_) => "branch",
        InvalidDerefSize(_) => "derefsize",
        InvalidPiece => "piece",
        InvalidExpressionTerminator(_) => "terminator",
        UnsupportedEvaluation => "unsupported",
        UnsupportedTypeOperation => "unsupported-type",
        InvalidPushObjectAddress => "objaddr",
        TooManyIterations => "iterations",
        UnexpectedEof(_) => "eof",
        InvalidExpression(_) => "badop",
        BadUnsignedLeb128 | BadSignedLeb128 => "leb",
        UnsupportedRegister(_) => "register",
        StackFull => "stackfull",
        _ => "other",
    }
}

pub fn to_gvt(t: VT) -> ValueType {
    match t {
        VT::G => ValueType::Generic,
        VT::I8 => ValueType::I8,
        VT::U8 => ValueType::U8,
        VT::I16 => ValueType::I16,
        VT::U16 => ValueType::U16,
        VT::I32 => ValueType::I32,
        VT::U32 => ValueType::U32,
        VT::I64 => ValueType::I64,
        VT::U64 => ValueType::U64,
        VT::F32 => ValueType::F32,
        VT::F64 => ValueType::F64,
    }
}

pub fn to_gval(v: &MVal) -> Value {
    match *v {
        MVal::G(x, _) => Value::Generic(x),
        MVal::I8(x) => Value::I8(x),
        MVal::U8(x) => Value::U8(x),
        MVal::I16(x) => Value::I16(x),
        MVal::U16(x) => Value::U16(x),
        MVal::I32(x) => Value::I32(x),
        MVal::U32(x) => Value::U32(x),
        MVal::I64(x) => Value::I64(x),
        MVal::U64(x) => Value::U64(x),
        MVal::F32(x) => Value::F32(x),
        MVal::F64(x) => Value::F64(x),
    }
}

/// gimli value in model terms; generic values are reduced modulo the address mask
/// (the property compares generic values modulo the address size).
pub fn from_gval(v: &Value, cfg: &Cfg) -> MVal {
    match *v {
        Value::Generic(x) => generic(x, cfg),
        Value::I8(x) => MVal::I8(x),
        Value::U8(x) => MVal::U8(x),
        Value::I16(x) => MVal::I16(x),
        Value::U16(x) => MVal::U16(x),
        Value::I32(x) => MVal::I32(x),
        Value::U32(x) => MVal::U32(x),
        Value::I64(x) => MVal::I64(x),
        Value::U64(x) => MVal::U64(x),
        Value::F32(x) => MVal::F32(x),
        Value::F64(x) => MVal::F64(x),
    }
}

pub fn vt_tag(t: VT) -> &'static str {
    match t {
        VT::G => "value:Generic",
        VT::I8 => "value:I8",
        VT::U8 => "value:U8",
        VT::I16 => "value:I16",
        VT::U16 => "value:U16",
        VT::I32 => "value:I32",
        VT::U32 => "value:U32",
        VT::I64 => "value:I64",
        VT::U64 => "value:U64",
        VT::F32 => "value:F32",
        VT::F64 => "value:F64",
    }
}

pub fn err_tag(c: &str) -> &'static str {
    match c {
        "underflow" => "err:underflow",
        "divzero" => "err:divzero",
        "typemismatch" => "err:typemismatch",
        "integral" => "err:integral",
        "shift" => "err:shift",
        "branch" => "err:branch",
        "derefsize" => "err:derefsize",
        "piece" => "err:piece",
        "terminator" => "err:terminator",
        "unsupported" => "err:unsupported",
        "unsupported-type" => "err:unsupported-type",
        "objaddr" => "err:objaddr",
        "iterations" => "err:iterations",
        "eof" => "err:eof",
        "badop" => "err:badop",
        "leb" => "err:leb",
        "register" => "err:register",
        _ => "err:other",
    }
}

#[derive(Clone, Debug)]
pub struct Mismatch {
    /// the run met a circumstance the model flags for diagnosis (known defect classes)
    pub noted: bool,
    pub site: String,
    pub kind: String,
    pub detail: String,
}

pub struct Setup<'a> {
    pub cfg: Cfg,
    pub code: &'a [u8],
    pub init: Option<u64>,
    pub obj: Option<u64>,
    /// max_iterations given to gimli
    pub glimit: Option<u32>,
    /// limit of the model, counting every decoded operation
    pub mlimit: Option<u64>,
    /// expressions that may be supplied as at_location answers
    pub pool: &'a [Vec<u8>],
    /// bytes the reference machine runs when they differ from `code` (C15: the
    /// long-form encoding of the operations as built)
    pub mcode: Option<&'a [u8]>,
    /// compare entry_value payloads as operation sequences instead of bytes
    pub sem_blobs: bool,
}

#[derive(Default)]
pub struct Trace {
    pub reqs: Vec<Request>,
    pub answers: Vec<Answer>,
    /// evaluate + resume calls made on gimli
    pub calls: u64,
    pub tags: Vec<&'static str>,
    pub mism: Option<Mismatch>,
    pub panic: Option<Panic>,
    pub unspec: Option<&'static str>,
    /// the comparison was strict up to and including the final result
    pub strict: bool,
    pub n_ops: u64,
    pub attached: Vec<u64>,
    pub fin: String,
}

fn render_greq(r: &EvaluationResult<Rd<'_>>) -> String {
    match r {
        EvaluationResult::RequiresEntryValue(e) => format!("RequiresEntryValue([{}])", mcx::hex(e.0.slice())),
        o => format!("{:?}", o),
    }
}

/// Compare a gimli request with the model's; `None` = equal.
fn cmp_request(g: &EvaluationResult<Rd<'_>>, m: &Request, cfg: &Cfg, sem_blobs: bool) -> Option<String> {
    use gimli::DieReference;
    let mask = cfg.mask();
    let ok = match (g, m) {
        (EvaluationResult::RequiresMemory { address, size, space, base_type }, Request::Memory { addr, size: s, space: sp, base, .. }) => {
            (address & mask) == (addr & mask) && size == s && base_type.0 as u64 == *base && space.map(|x| x & mask) == sp.map(|x| x & mask)
        }
        (EvaluationResult::RequiresRegister { register, base_type }, Request::Register { reg, base }) => register.0 as u64 == *reg && base_type.0 as u64 == *base,
        (EvaluationResult::RequiresFrameBase, Request::FrameBase) => true,
        (EvaluationResult::RequiresTls(v), Request::Tls(w)) => (v & mask) == (w & mask),
        (EvaluationResult::RequiresCallFrameCfa, Request::Cfa) => true,
        (EvaluationResult::RequiresAtLocation(r), Request::AtLocation(d)) => match (r, d) {
            (DieReference::UnitRef(o), DieRef::Unit(x)) => o.0 as u64 == *x,
            (DieReference::DebugInfoRef(o), DieRef::Info(x)) => o.0 as u64 == *x,
            _ => false,
        },
        (EvaluationResult::RequiresEntryValue(e), Request::EntryValue(b)) => e.0.slice() == &b[..] || (sem_blobs && blobs_equiv(e.0.slice(), b, cfg)),
        (EvaluationResult::RequiresParameterRef(o), Request::ParameterRef(x)) => o.0 as u64 == *x,
        (EvaluationResult::RequiresRelocatedAddress(a), Request::RelocatedAddress(x)) => a == x,
        (EvaluationResult::RequiresIndexedAddress { index, relocate }, Request::IndexedAddress { index: i, relocate: r }) => index.0 as u64 == *i && relocate == r,
        (EvaluationResult::RequiresBaseType(o), Request::BaseType(x)) => o.0 as u64 == *x,
        (EvaluationResult::RequiresWasmLocal { index }, Request::WasmLocal(i)) => index == i,
        (EvaluationResult::RequiresWasmGlobal { index }, Request::WasmGlobal(i)) => index == i,
        (EvaluationResult::RequiresWasmStack { index }, Request::WasmStack(i)) => index == i,
        _ => false,
    };
    if ok {
        None
    } else {
        Some(format!("gimli asked {} ; the machine asks {:?}", render_greq(g), m))
    }
}

fn loc_tag(l: &Location<Rd<'_>>) -> &'static str {
    match l {
        Location::Empty => "loc:Empty",
        Location::Register { .. } => "loc:Register",
        Location::Address { .. } => "loc:Address",
        Location::Value { .. } => "loc:Value",
        Location::Bytes { .. } => "loc:Bytes",
        Location::ImplicitPointer { .. } => "loc:ImplicitPointer",
    }
}

fn cmp_pieces(g: &[Piece<Rd<'_>>], m: &[MPiece], cfg: &Cfg) -> bool {
    if g.len() != m.len() {
        return false;
    }
    let mask = cfg.mask();
    g.iter().zip(m).all(|(g, m)| {
        g.size_in_bits == m.size
            && g.bit_offset == m.off
            && match (&g.location, &m.loc) {
                (Location::Empty, MLoc::Empty) => true,
                (Location::Register { register }, MLoc::Register(r)) => register.0 as u64 == *r,
                (Location::Address { address }, MLoc::Address(a, _)) => (address & mask) == (a & mask),
                (Location::Value { value }, MLoc::Value(v)) => from_gval(value, cfg).same(v),
                (Location::Bytes { value }, MLoc::Bytes(b)) => value.slice() == &b[..],
                (Location::ImplicitPointer { value, byte_offset }, MLoc::ImplicitPointer { value: v, off }) => value.0 as u64 == *v && byte_offset == off,
                _ => false,
            }
    })
}

fn render_gpieces(g: &[Piece<Rd<'_>>]) -> String {
    g.iter()
        .map(|p| {
            let l = match &p.location {
                Location::Bytes { value } => format!("Bytes[{}]", mcx::hex(value.slice())),
                o => format!("{:?}", o),
            };
            format!("{{size {:?} off {:?} {}}}", p.size_in_bits, p.bit_offset, l)
        })
        .collect::<Vec<_>>()
        .join(",")
}

pub fn render_expect(e: &[Expect]) -> String {
    e.iter()
        .map(|x| match x {
            Expect::Complete { pieces, value } => format!(
                "Complete{{pieces [{}] value {}}}",
                pieces
                    .iter()
                    .map(|p| {
                        let l = match &p.loc {
                            MLoc::Value(v) => format!("Value({})", v.render()),
                            MLoc::Bytes(b) => format!("Bytes[{}]", mcx::hex(b)),
                            MLoc::Address(a, _) => format!("Address({:#x})", a),
                            o => format!("{:?}", o),
                        };
                        format!("{{size {:?} off {:?} {}}}", p.size, p.off, l)
                    })
                    .collect::<Vec<_>>()
                    .join(","),
                value.map(|v| v.render()).unwrap_or("None".into())
            ),
            Expect::CompleteValue(v) => format!("Complete{{value {}}}", v.render()),
            Expect::Error(c) => format!("Error{:?}", c),
            Expect::Unspec(w) => format!("Unspecified({})", w),
        })
        .collect::<Vec<_>>()
        .join(" | ")
}

/// Run gimli's Evaluation and the reference machine in lock-step on the same bytes.
pub fn lockstep<'a>(s: &Setup<'a>, answer: &mut dyn FnMut(usize, &Request) -> Answer) -> Trace {
    let cfg = s.cfg;
    let mut t = Trace::default();
    let mut m = Machine::new(cfg, s.mcode.unwrap_or(s.code).to_vec(), s.init, s.obj, s.mlimit);
    let mut ev: Evaluation<Rd<'a>> = Evaluation::new(EndianSlice::new(s.code, endian(&cfg)), encoding(&cfg));
    if let Some(v) = s.init {
        ev.set_initial_value(v);
    }
    if let Some(v) = s.obj {
        ev.set_object_address(v);
    }
    if let Some(l) = s.glimit {
        ev.set_max_iterations(l);
    }
    t.calls += 1;
    let mut g = match guard(|| ev.evaluate()) {
        Ok(r) => r,
        Err(p) => {
            t.panic = Some(p);
            return t;
        }
    };
    let mut me = m.resume(None);
    let site = |m: &Machine| m.site();
    let kindx = |m: &Machine, k: &str| match m.notes.first() {
        Some(n) => format!("diverges:{}", n),
        None => k.to_string(),
    };
    loop {
        match (me, &g) {
            (Event::Need(req), Ok(res)) if *res != EvaluationResult::Complete => {
                if let Some(d) = cmp_request(res, &req, &cfg, s.sem_blobs) {
                    t.mism = Some(Mismatch { noted: !m.notes.is_empty(), site: site(&m), kind: kindx(&m, "wrong-request"), detail: d });
                    break;
                }
                t.tags.push(req.kind());
                let a = answer(t.reqs.len(), &req);
                t.calls += 1;
                let r = guard(|| match (res, &a) {
                    (EvaluationResult::RequiresMemory { .. }, Answer::Val(v)) => ev.resume_with_memory(to_gval(v)),
                    (EvaluationResult::RequiresRegister { .. }, Answer::Val(v)) => ev.resume_with_register(to_gval(v)),
                    (EvaluationResult::RequiresEntryValue(_), Answer::Val(v)) => ev.resume_with_entry_value(to_gval(v)),
                    (EvaluationResult::RequiresWasmLocal { .. }, Answer::Val(v)) | (EvaluationResult::RequiresWasmGlobal { .. }, Answer::Val(v)) | (EvaluationResult::RequiresWasmStack { .. }, Answer::Val(v)) => {
                        ev.resume_with_wasm_value(to_gval(v))
                    }
                    (EvaluationResult::RequiresFrameBase, Answer::U(x)) => ev.resume_with_frame_base(*x),
                    (EvaluationResult::RequiresTls(_), Answer::U(x)) => ev.resume_with_tls(*x),
                    (EvaluationResult::RequiresCallFrameCfa, Answer::U(x)) => ev.resume_with_call_frame_cfa(*x),
                    (EvaluationResult::RequiresParameterRef(_), Answer::U(x)) => ev.resume_with_parameter_ref(*x),
                    (EvaluationResult::RequiresRelocatedAddress(_), Answer::U(x)) => ev.resume_with_relocated_address(*x),
                    (EvaluationResult::RequiresIndexedAddress { .. }, Answer::U(x)) => ev.resume_with_indexed_address(*x),
                    (EvaluationResult::RequiresBaseType(_), Answer::Ty(ty)) => ev.resume_with_base_type(to_gvt(*ty)),
                    (EvaluationResult::RequiresAtLocation(_), Answer::Expr(b)) => {
                        let sl: &'a [u8] = s.pool.iter().find(|p| **p == *b).map(|p| &p[..]).expect("at_location answer not in pool");
                        ev.resume_with_at_location(EndianSlice::new(sl, endian(&cfg)))
                    }
                    _ => panic!("harness: answer kind does not match request"),
                });
                t.reqs.push(req);
                me = m.resume(Some(&a));
                t.answers.push(a);
                match r {
                    Ok(r) => g = r,
                    Err(p) => {
                        t.panic = Some(p);
                        break;
                    }
                }
            }
            (Event::Need(req), Ok(_)) => {
                t.mism = Some(Mismatch { noted: !m.notes.is_empty(), site: site(&m), kind: kindx(&m, "missing-request"), detail: format!("gimli completed; the machine asks {:?}", req) });
                break;
            }
            (Event::Need(req), Err(e)) => {
                t.mism = Some(Mismatch { noted: !m.notes.is_empty(), site: site(&m), kind: kindx(&m, &format!("error-instead-of-request:{}", class_of(e))), detail: format!("gimli failed with {:?}; the machine asks {:?}", e, req) });
                break;
            }
            (Event::Done(exp), g_res) => {
                let unspec = exp.iter().find_map(|x| if let Expect::Unspec(w) = x { Some(*w) } else { None });
                let mut ok = false;
                let observed;
                match g_res {
                    Ok(EvaluationResult::Complete) => {
                        let (vr, pieces) = match guard(|| (ev.value_result(), ev.as_result().to_vec())) {
                            Ok(x) => x,
                            Err(p) => {
                                t.panic = Some(p);
                                break;
                            }
                        };
                        t.fin = "complete".into();
                        for p in &pieces {
                            t.tags.push(loc_tag(&p.location));
                            if let Location::Value { value } = &p.location {
                                t.tags.push(vt_tag(from_gval(value, &cfg).vt()));
                            }
                        }
                        if let Some(v) = &vr {
                            t.tags.push(vt_tag(from_gval(v, &cfg).vt()));
                        }
                        for x in &exp {
                            match x {
                                Expect::Complete { pieces: mp, value } => {
                                    let v_ok = match (&vr, value) {
                                        (None, None) => true,
                                        (Some(a), Some(b)) => from_gval(a, &cfg).same(b),
                                        _ => false,
                                    };
                                    if v_ok && cmp_pieces(&pieces, mp, &cfg) {
                                        ok = true;
                                    }
                                }
                                Expect::CompleteValue(v) => {
                                    if let Some(a) = &vr {
                                        if from_gval(a, &cfg).same(v) {
                                            ok = true;
                                        }
                                    }
                                }
                                _ => {}
                            }
                        }
                        observed = format!("Complete{{pieces [{}] value {:?}}}", render_gpieces(&pieces), vr);
                    }
                    Ok(other) => {
                        t.fin = "request".into();
                        observed = format!("request {}", render_greq(other));
                    }
                    Err(e) => {
                        let c = class_of(e);
                        t.fin = format!("err:{}", c);
                        t.tags.push(err_tag(c));
                        for x in &exp {
                            if let Expect::Error(cs) = x {
                                if cs.is_empty() || cs.contains(&c) {
                                    ok = true;
                                }
                            }
                        }
                        observed = format!("Err({:?})", e);
                    }
                }
                if ok {
                    t.strict = true;
                } else if let Some(w) = unspec {
                    t.unspec = Some(w);
                } else {
                    let k = match g_res {
                        Ok(EvaluationResult::Complete) => {
                            if exp.iter().any(|x| matches!(x, Expect::Complete { .. } | Expect::CompleteValue(_))) {
                                "wrong-result".to_string()
                            } else {
                                "completed-instead-of-error".to_string()
                            }
                        }
                        Ok(_) => "unexpected-request".to_string(),
                        Err(e) => {
                            if exp.iter().any(|x| matches!(x, Expect::Error(_))) {
                                format!("wrong-error:{}", class_of(e))
                            } else {
                                format!("error-instead-of-result:{}", class_of(e))
                            }
                        }
                    };
                    t.mism = Some(Mismatch { noted: !m.notes.is_empty(), site: site(&m), kind: kindx(&m, &k), detail: format!("observed {} ; expected {}", observed, render_expect(&exp)) });
                }
                break;
            }
        }
    }
    t.n_ops = m.n_ops;
    t.attached = m.attached.clone();
    t
}

/// Render a case for reports.
pub fn render_case(s: &Setup<'_>, t: &Trace) -> String {
    let mut ops = vec![];
    let mut p = 0;
    while p < s.code.len() {
        match decode(s.code, p, &s.cfg) {
            Ok((op, n)) => {
                ops.push(render_op(&op));
                p = n;
            }
            Err(e) => {
                ops.push(format!("<{:?}>", e));
                break;
            }
        }
    }
    let hist: Vec<String> = t.reqs.iter().zip(&t.answers).map(|(r, a)| format!("{:?} <- {}", r, a.render())).collect();
    format!(
        "{} bytes [{}] = {{{}}} init {:?} obj {:?} max_iterations {:?} history [{}]",
        s.cfg.name(),
        mcx::hex(s.code),
        ops.join("; "),
        s.init,
        s.obj,
        s.glimit,
        hist.join(" ; ")
    )
}
