//! C08: range and location lists resolve to the standard's address ranges.
use crate::model::{self as m, attr, Attr, Fam, Resolved, UnitSpec, E, Y};
use gimli::read::{
    DebugAddr, DebugLoc, DebugLocLists, DebugRanges, DebugRngLists, Dwarf, EndianSlice, LocationLists, RangeLists, RawLocListEntry, RawRngListEntry,
};
use gimli::{DebugAddrBase, DebugLocListsBase, DebugLocListsIndex, DebugRngListsBase, DebugRngListsIndex, DwarfFileType, Encoding, Format, LocationListsOffset, RangeListsOffset, RunTimeEndian, SectionId};
use mcx::enc::Enc;
use mcx::space::{seq_count, seq_decode, Mix};
use mcx::{guard, CheckDef, Ctx, Sub, Tier};

type R<'a> = EndianSlice<'a, RunTimeEndian>;

fn endian(big: bool) -> RunTimeEndian {
    if big {
        RunTimeEndian::Big
    } else {
        RunTimeEndian::Little
    }
}

fn fmt(fmt64: bool) -> Format {
    if fmt64 {
        Format::Dwarf64
    } else {
        Format::Dwarf32
    }
}

fn mid_base(size: u8) -> u64 {
    if size == 1 {
        0x40
    } else {
        0x1000
    }
}

/// The address table every indexed entry refers to: index -> address.
/// last = 4; index 5 is one past the end.
pub fn addr_table(size: u8) -> Vec<u64> {
    let mx = m::ones(size);
    vec![0x10, 0x20, mx - 2, mx - 1, 1]
}

/// The entry alphabet of one family for one address size.
pub fn alphabet(fam: Fam, size: u8) -> Vec<E> {
    let mx = m::ones(size);
    let mut v = vec![E::End];
    match fam {
        Fam::Ranges | Fam::Loc => {
            for a in [0, 0x10, mx - 2, mx - 1, mx] {
                v.push(E::LBase(a));
            }
            let pairs = [
                (0x10, 0x20),
                (0x20, 0x10),
                (0x10, 0x10),
                (0, 1),
                (1, 0),
                (0, mx),
                (1, mx - 1),
                (mx - 2, mx - 1),
                (mx - 2, mx),
                (mx - 1, mx),
                (mx - 2, 0),
                (mx - 2, 1),
                (0x20, mx - 2),
                (0, 0x10),
                (1, 1),
                (mx - 1, 0x10),
                (0x10, mx - 1),
                (1, 0x20),
            ];
            for (i, (b, e)) in pairs.iter().enumerate() {
                let x = if fam == Fam::Loc { (i % 3) as u8 } else { 0 };
                v.push(E::LPair(*b, *e, x));
            }
        }
        Fam::Rle | Fam::Lle => {
            let l = fam == Fam::Lle;
            let x = |i: u8| if l { i } else { 0 };
            v.push(E::Basex(0));
            v.push(E::Basex(3));
            v.push(E::Basex(5));
            v.push(E::SxEx(0, 1, x(0)));
            v.push(E::SxEx(1, 0, x(1)));
            v.push(E::SxEx(2, 3, x(2)));
            v.push(E::SxEx(4, 5, x(0)));
            v.push(E::SxLen(0, 0x10, x(1)));
            v.push(E::SxLen(1, 0, x(2)));
            v.push(E::SxLen(2, 3, x(0)));
            v.push(E::SxLen(2, 2, x(1)));
            v.push(E::OffPair(0x10, 0x20, x(2)));
            v.push(E::OffPair(0x20, 0x10, x(0)));
            v.push(E::OffPair(0, 0, x(1)));
            v.push(E::OffPair(1, mx, x(0)));
            v.push(E::Base(0x20));
            v.push(E::Base(mx - 1));
            v.push(E::Base(mx - 2));
            v.push(E::StartEnd(0x10, 0x20, x(1)));
            v.push(E::StartEnd(mx - 2, mx, x(2)));
            v.push(E::StartEnd(mx - 1, mx, x(0)));
            v.push(E::StartLen(0x10, 0x10, x(1)));
            v.push(E::StartLen(mx - 2, 3, x(0)));
            v.push(E::StartLen(mx, 1, x(1)));
            if l {
                v.push(E::Default(1));
                v.push(E::Default(2));
            } else {
                v.push(E::StartLen(0, 0, 0));
            }
        }
        Fam::GnuLle => {
            for i in [0, 3, 4, 5] {
                v.push(E::Basex(i));
            }
            v.push(E::SxEx(0, 1, 0));
            v.push(E::SxEx(1, 0, 1));
            v.push(E::SxEx(2, 3, 2));
            v.push(E::SxEx(3, 1, 0));
            v.push(E::SxEx(4, 5, 1));
            v.push(E::SxLen(0, 0x10, 2));
            v.push(E::SxLen(1, 0, 0));
            v.push(E::SxLen(2, 3, 1));
            v.push(E::SxLen(2, 2, 2));
            v.push(E::SxLen(4, 0xffff_ffff, 0));
        }
    }
    v
}

fn rng_raw_to_e(e: &RawRngListEntry<usize>, fam: Fam) -> E {
    match *e {
        RawRngListEntry::AddressOrOffsetPair { begin, end } => E::LPair(begin, end, 0),
        RawRngListEntry::BaseAddress { addr } => {
            if fam == Fam::Ranges {
                E::LBase(addr)
            } else {
                E::Base(addr)
            }
        }
        RawRngListEntry::BaseAddressx { addr } => E::Basex(addr.0 as u64),
        RawRngListEntry::StartxEndx { begin, end } => E::SxEx(begin.0 as u64, end.0 as u64, 0),
        RawRngListEntry::StartxLength { begin, length } => E::SxLen(begin.0 as u64, length, 0),
        RawRngListEntry::OffsetPair { begin, end } => E::OffPair(begin, end, 0),
        RawRngListEntry::StartEnd { begin, end } => E::StartEnd(begin, end, 0),
        RawRngListEntry::StartLength { begin, length } => E::StartLen(begin, length, 0),
    }
}

/// 0,1,2 for the three known location descriptions, 0xff for anything else.
fn expr_sel(d: &[u8]) -> u8 {
    for x in 0..3u8 {
        if d == &m::expr_bytes(x)[..] {
            return x;
        }
    }
    0xff
}

fn loc_raw_to_e(e: &RawLocListEntry<R<'_>>, fam: Fam) -> E {
    match e {
        RawLocListEntry::AddressOrOffsetPair { begin, end, data } => E::LPair(*begin, *end, expr_sel(data.0.slice())),
        RawLocListEntry::BaseAddress { addr } => {
            if fam == Fam::Loc {
                E::LBase(*addr)
            } else {
                E::Base(*addr)
            }
        }
        RawLocListEntry::BaseAddressx { addr } => E::Basex(addr.0 as u64),
        RawLocListEntry::StartxEndx { begin, end, data } => E::SxEx(begin.0 as u64, end.0 as u64, expr_sel(data.0.slice())),
        RawLocListEntry::StartxLength { begin, length, data } => E::SxLen(begin.0 as u64, *length, expr_sel(data.0.slice())),
        RawLocListEntry::OffsetPair { begin, end, data } => E::OffPair(*begin, *end, expr_sel(data.0.slice())),
        RawLocListEntry::DefaultLocation { data } => E::Default(expr_sel(data.0.slice())),
        RawLocListEntry::StartEnd { begin, end, data } => E::StartEnd(*begin, *end, expr_sel(data.0.slice())),
        RawLocListEntry::StartLength { begin, length, data } => E::StartLen(*begin, *length, expr_sel(data.0.slice())),
    }
}

/// What the resolving iterator produced: items, then how it ended.
#[derive(Debug, PartialEq, Eq)]
pub struct Got {
    pub items: Vec<Y>,
    pub err: Option<String>,
}

/// Compare observed items with the reference resolution. Default-location
/// entries have no range in the standard: any range covering every address
/// below the tombstones is accepted for them.
pub fn same_items(got: &[Y], want: &[Y], size: u8, loc: bool) -> bool {
    if got.len() != want.len() {
        return false;
    }
    for (g, w) in got.iter().zip(want) {
        if loc && g.x != w.x {
            return false;
        }
        if w.default {
            if !(g.begin == 0 && g.end >= m::ones(size) - 1) {
                return false;
            }
        } else if g.begin != w.begin || g.end != w.end {
            return false;
        }
    }
    true
}

fn verdict(ctx: &mut Ctx, entry: &str, got: &Got, want: &Resolved, size: u8, loc: bool, case: &dyn Fn() -> String) {
    // Every yielded range, whatever the list: non-empty, begins below the tombstones.
    for y in &got.items {
        if y.begin >= y.end || y.begin >= m::ones(size) - 1 {
            ctx.fail(entry, "nonempty-below-tombstone", "yielded-empty-or-tombstone", format!("{} yielded {:#x}..{:#x}", case(), y.begin, y.end));
            return;
        }
    }
    let n = want.items.len();
    if want.bad_index {
        // The list names an address-table slot that does not exist: everything
        // before it must be resolved, then the iterator must report an error.
        if got.items.len() < n || !same_items(&got.items[..n], &want.items, size, loc) {
            ctx.fail(entry, "resolved-list", "wrong-ranges", format!("{} got {:?} want prefix {:?}", case(), got, want.items));
        } else if got.items.len() > n || got.err.is_none() {
            ctx.fail(entry, "address-table", "missing-error", format!("{} got {:?}; entry after {:?} names an address index outside .debug_addr", case(), got, want.items));
        }
        return;
    }
    if let Some(e) = &got.err {
        ctx.fail(entry, "resolved-list", "unexpected-error", format!("{} got Err({}) after {:?}; want {:?}", case(), e, got.items, want.items));
        return;
    }
    if !same_items(&got.items, &want.items, size, loc) {
        ctx.fail(entry, "resolved-list", "wrong-ranges", format!("{} got {:?} want {:?}", case(), got.items, want.items));
    }
}

// ---------------------------------------------------------------------------
// Direct-API subs: RangeLists::{raw_ranges,ranges}, LocationLists::{raw_locations,
// locations,raw_locations_dwo,locations_dwo}, DebugAddr::get_address.

#[derive(Clone, Copy, Debug)]
struct Cfg {
    size: u8,
    base_sel: u8,
    version: u16,
    fmt64: bool,
    pad: bool,
    addr_far: bool,
    big: bool,
    dwo_api: bool,
}

impl Cfg {
    fn base(&self) -> u64 {
        match self.base_sel {
            0 => 0,
            1 => mid_base(self.size),
            _ => m::ones(self.size) - 1,
        }
    }
    fn render(&self) -> String {
        format!(
            "size={} unit_base={:#x} version={} format={} list_offset_pad={} addr_base={} endian={} api={}",
            self.size,
            self.base(),
            self.version,
            if self.fmt64 { 64 } else { 32 },
            self.pad,
            if self.addr_far { "second-contribution" } else { "first-contribution" },
            if self.big { "big" } else { "little" },
            if self.dwo_api { "dwo" } else { "main" }
        )
    }
}

fn sizes_of(fam: Fam) -> &'static [u8] {
    match fam {
        Fam::Ranges | Fam::Loc => &[1, 2, 4, 8],
        Fam::Rle | Fam::Lle | Fam::GnuLle => &[2, 4, 8],
    }
}

fn versions_of(fam: Fam) -> &'static [u16] {
    match fam {
        Fam::Ranges | Fam::Loc => &[2, 4],
        Fam::Rle | Fam::Lle => &[5],
        Fam::GnuLle => &[4],
    }
}

/// All configurations of a family for one address size.
fn configs(fam: Fam, size: u8) -> Vec<Cfg> {
    let mut out = vec![];
    let indexed = !matches!(fam, Fam::Ranges | Fam::Loc);
    for base_sel in 0..3u8 {
        for &version in versions_of(fam) {
            for fmt64 in [false, true] {
                for pad in [false, true] {
                    for addr_far in if indexed { &[false, true][..] } else { &[false][..] } {
                        for big in [false, true] {
                            for dwo_api in if fam == Fam::Lle { &[false, true][..] } else { &[false][..] } {
                                out.push(Cfg { size, base_sel, version, fmt64, pad, addr_far: *addr_far, big, dwo_api: *dwo_api || fam == Fam::GnuLle });
                            }
                        }
                    }
                }
            }
        }
    }
    out
}

/// Sections for a direct-API case.
struct Built {
    /// the section holding the list under test
    lists: Vec<u8>,
    /// the sibling section (other version's format); holds bytes that must not be read
    other: Vec<u8>,
    offset: u64,
    addr: Vec<u8>,
    addr_base: u64,
}

fn decoy(fam: Fam, size: u8) -> E {
    match fam {
        Fam::Ranges | Fam::Loc => E::LPair(0x11, 0x12, 0),
        Fam::Rle | Fam::Lle => E::StartEnd(0x11, 0x12, 0),
        Fam::GnuLle => {
            let _ = size;
            E::SxEx(0, 1, 0)
        }
    }
}

fn build(fam: Fam, list: &[E], c: &Cfg) -> Built {
    let mut body = Enc::new(c.big);
    if c.pad {
        // five bytes of another, terminated list
        body.bytes(&[0xaa, 0xbb, 0xcc, 0xdd, 0xee]);
    }
    let at = body.len() as u64;
    m::encode_list(&mut body, fam, list, c.size);
    // A well-formed list follows: reading past the terminator would yield it.
    m::encode_list(&mut body, fam, &[decoy(fam, c.size)], c.size);
    let (lists, offset) = match fam {
        Fam::Rle | Fam::Lle => (m::lists_contribution(c.big, c.fmt64, c.size, &[], &body.buf), m::lists_header_size(c.fmt64) + at),
        _ => (body.buf, at),
    };
    // the other section: something that decodes to a range if wrongly consulted
    let mut other = Enc::new(c.big);
    for _ in 0..3 {
        other.bytes(&[0x06, 0x01, 0x02, 0x03, 0x04, 0x05, 0x06, 0x07, 0x08, 0x09, 0x0a, 0x0b, 0x0c, 0x0d, 0x0e, 0x0f, 0x10, 0x11]);
    }
    let table = addr_table(c.size);
    let mut addr = vec![];
    if c.addr_far {
        addr.extend(m::addr_contribution(c.big, c.fmt64, c.size, &[0x7777, 0x8888]));
    }
    let addr_base = addr.len() as u64 + m::addr_header_size(c.fmt64);
    addr.extend(m::addr_contribution(c.big, c.fmt64, c.size, &table));
    Built { lists, other: other.buf, offset, addr, addr_base }
}

fn run_direct(ctx: &mut Ctx, fam: Fam, list: &[E], c: &Cfg) {
    let b = build(fam, list, c);
    let en = endian(c.big);
    let encoding = Encoding { address_size: c.size, format: fmt(c.fmt64), version: c.version };
    let table = addr_table(c.size);
    let want = m::resolve(list, c.size, c.base(), &table);
    let want_raw = m::raw_expected(list);
    let debug_addr = DebugAddr::from(EndianSlice::new(&b.addr, en));
    let addr_base = DebugAddrBase(b.addr_base as usize);
    let case = || format!("{} {} {} section={} offset={:#x} .debug_addr={}", fam.name(), m::render(list), c.render(), mcx::hex(&b.lists[..b.lists.len().min(96)]), b.offset, mcx::hex(&b.addr));
    let bound = list.len() + 3;
    ctx.eval(2);
    if !fam.is_loc() {
        let (rs, rl) = if fam == Fam::Ranges { (&b.lists, &b.other) } else { (&b.other, &b.lists) };
        let lists = RangeLists::new(DebugRanges::new(rs, en), DebugRngLists::new(rl, en));
        // raw
        let raw = guard(|| {
            let mut it = lists.raw_ranges(RangeListsOffset(b.offset as usize), encoding).map_err(|e| e.to_string())?;
            let mut v = vec![];
            for _ in 0..bound {
                match it.next() {
                    Ok(Some(e)) => v.push(rng_raw_to_e(&e, fam)),
                    Ok(None) => {
                        // the end of the list is final: polling again must not run into the next list
                        for _ in 0..2 {
                            match it.next() {
                                Ok(None) => {}
                                Ok(Some(e)) => return Err(format!("yielded {:?} when polled again after the end of the list {:?}", e, v)),
                                Err(e) => return Err(format!("{} when polled again after the end of the list {:?}", e, v)),
                            }
                        }
                        return Ok(v);
                    }
                    Err(e) => return Err(format!("{} after {:?}", e, v)),
                }
            }
            Err(format!("no end after {} entries", bound))
        });
        match raw {
            Err(p) => m::fail_panic(ctx, "RangeLists::raw_ranges", &p, case()),
            Ok(Err(e)) => ctx.fail("RangeLists::raw_ranges", "raw-entries", "unexpected-error", format!("{} got Err({}) want {:?}", case(), e, want_raw)),
            Ok(Ok(v)) => {
                if v != want_raw {
                    ctx.fail("RangeLists::raw_ranges", "raw-entries", "wrong-entries", format!("{} got {:?} want {:?}", case(), v, want_raw));
                }
            }
        }
        // resolved
        let got = guard(|| {
            let mut items = vec![];
            let mut it = match lists.ranges(RangeListsOffset(b.offset as usize), encoding, c.base(), &debug_addr, addr_base) {
                Ok(it) => it,
                Err(e) => return Got { items, err: Some(e.to_string()) },
            };
            for _ in 0..bound {
                match it.next() {
                    Ok(Some(r)) => items.push(Y { begin: r.begin, end: r.end, x: 0, default: false }),
                    Ok(None) => {
                        for _ in 0..2 {
                            match it.next() {
                                Ok(None) => {}
                                Ok(Some(e)) => return Got { items, err: Some(format!("yielded {:?} when polled again after the end of the list", e)) },
                                Err(e) => return Got { items, err: Some(format!("{} when polled again after the end of the list", e)) },
                            }
                        }
                        return Got { items, err: None };
                    }
                    Err(e) => return Got { items, err: Some(e.to_string()) },
                }
            }
            Got { items, err: Some("iterator did not end".into()) }
        });
        match got {
            Err(p) => m::fail_panic(ctx, "RangeLists::ranges", &p, case()),
            Ok(g) => verdict(ctx, "RangeLists::ranges", &g, &want, c.size, false, &case),
        }
    } else {
        let (ls, ll) = if fam == Fam::Lle { (&b.other, &b.lists) } else { (&b.lists, &b.other) };
        let lists = LocationLists::new(DebugLoc::new(ls, en), DebugLocLists::new(ll, en));
        let off = LocationListsOffset(b.offset as usize);
        let (e_raw, e_res) = if c.dwo_api { ("LocationLists::raw_locations_dwo", "LocationLists::locations_dwo") } else { ("LocationLists::raw_locations", "LocationLists::locations") };
        let raw = guard(|| {
            let mut it = if c.dwo_api { lists.raw_locations_dwo(off, encoding) } else { lists.raw_locations(off, encoding) }.map_err(|e| e.to_string())?;
            let mut v = vec![];
            for _ in 0..bound {
                match it.next() {
                    Ok(Some(e)) => v.push(loc_raw_to_e(&e, fam)),
                    Ok(None) => {
                        // the end of the list is final: polling again must not run into the next list
                        for _ in 0..2 {
                            match it.next() {
                                Ok(None) => {}
                                Ok(Some(e)) => return Err(format!("yielded {:?} when polled again after the end of the list {:?}", e, v)),
                                Err(e) => return Err(format!("{} when polled again after the end of the list {:?}", e, v)),
                            }
                        }
                        return Ok(v);
                    }
                    Err(e) => return Err(format!("{} after {:?}", e, v)),
                }
            }
            Err(format!("no end after {} entries", bound))
        });
        match raw {
            Err(p) => m::fail_panic(ctx, e_raw, &p, case()),
            Ok(Err(e)) => ctx.fail(e_raw, "raw-entries", "unexpected-error", format!("{} got Err({}) want {:?}", case(), e, want_raw)),
            Ok(Ok(v)) => {
                if v != want_raw {
                    ctx.fail(e_raw, "raw-entries", "wrong-entries", format!("{} got {:?} want {:?}", case(), v, want_raw));
                }
            }
        }
        let got = guard(|| {
            let mut items = vec![];
            let it = if c.dwo_api { lists.locations_dwo(off, encoding, c.base(), &debug_addr, addr_base) } else { lists.locations(off, encoding, c.base(), &debug_addr, addr_base) };
            let mut it = match it {
                Ok(it) => it,
                Err(e) => return Got { items, err: Some(e.to_string()) },
            };
            for _ in 0..bound {
                match it.next() {
                    Ok(Some(l)) => items.push(Y { begin: l.range.begin, end: l.range.end, x: expr_sel(l.data.0.slice()), default: false }),
                    Ok(None) => {
                        for _ in 0..2 {
                            match it.next() {
                                Ok(None) => {}
                                Ok(Some(e)) => return Got { items, err: Some(format!("yielded {:?} when polled again after the end of the list", e)) },
                                Err(e) => return Got { items, err: Some(format!("{} when polled again after the end of the list", e)) },
                            }
                        }
                        return Got { items, err: None };
                    }
                    Err(e) => return Got { items, err: Some(e.to_string()) },
                }
            }
            Got { items, err: Some("iterator did not end".into()) }
        });
        match got {
            Err(p) => m::fail_panic(ctx, e_res, &p, case()),
            Ok(g) => verdict(ctx, e_res, &g, &want, c.size, true, &case),
        }
    }
    if list.len() >= 2 && want.items.len() >= 2 && c.pad && c.base_sel == 1 && ctx.want_sample() {
        ctx.sample(format!("{} -> model {:?}", case(), want));
    }
}

fn classify(ctx: &mut Ctx, fam: Fam, list: &[E], size: u8) {
    let raw = m::raw_expected(list);
    for e in raw {
        ctx.outcome(&format!("kind:{}:{}", fam.name(), e.kind()));
    }
    if raw.len() < list.len() {
        ctx.outcome(&format!("kind:{}:early-terminator", fam.name()));
    }
    for base in [0u64, m::ones(size) - 1] {
        let r = m::resolve(list, size, base, &addr_table(size));
        if r.bad_index {
            ctx.outcome("resolved:address-index-outside-table");
        } else if r.items.len() == raw.iter().filter(|e| !matches!(e, E::LBase(_) | E::Base(_) | E::Basex(_))).count() {
            ctx.outcome("resolved:every-entry-yielded");
        } else {
            ctx.outcome("resolved:some-entry-excluded");
        }
        if r.items.iter().any(|y| y.default) {
            ctx.outcome("resolved:default-location");
        }
    }
}

fn direct_sub(fam: Fam, maxlen: u32) -> Sub {
    let sizes = sizes_of(fam);
    let alphas: Vec<Vec<E>> = sizes.iter().map(|&s| alphabet(fam, s)).collect();
    let cfgs: Vec<Vec<Cfg>> = sizes.iter().map(|&s| configs(fam, s)).collect();
    let n = alphas[0].len() as u64;
    let count = seq_count(n, 0, maxlen);
    let ncfg: usize = cfgs.iter().map(|c| c.len()).sum();
    let name = format!("direct-{}-len<={}", fam.name(), maxlen);
    let bound = format!(
        "every list of 0..={} entries over the {}-instance {} alphabet (then a terminator and a decoy list), each under {} configurations: address size {:?} x unit base {{0,mid,max-1}} x version {:?} x format {{32,64}} x list offset {{0,5}} x addr_base {{first,second contribution}} x endianness{}; raw iterator compared 1:1 with the abstract entries, resolving iterator with the reference resolver",
        maxlen,
        n,
        fam.name(),
        ncfg,
        sizes,
        versions_of(fam),
        if fam == Fam::Lle { " x API {locations, locations_dwo}" } else { "" }
    );
    Sub::new(&name, count, &bound, move |ctx, i| {
        let idx = seq_decode(n, 0, maxlen, i);
        for (si, &size) in sizes.iter().enumerate() {
            let list: Vec<E> = idx.iter().map(|&k| alphas[si][k].clone()).collect();
            if si == 0 {
                classify(ctx, fam, &list, size);
            }
            for c in &cfgs[si] {
                run_direct(ctx, fam, &list, c);
            }
        }
        ctx.nontriv(1);
    })
}

// ---------------------------------------------------------------------------
// Lookups: DebugAddr::get_address, RangeLists::get_offset, LocationLists::get_offset

/// Location list entries whose expression is long: the length field of a `.debug_loclists` entry
/// is a ULEB128, of a `.debug_loc` entry two bytes.
fn long_expr_sub() -> Sub {
    let lens: [usize; 9] = [0, 127, 128, 16383, 16384, 65534, 65535, 65536, 100000];
    Sub::new(
        "location-expression-lengths",
        lens.len() as u64 * 2 * 2 * 2,
        "one DW_LLE_offset_pair entry (v5) / one address pair (.debug_loc, lengths up to 65535) whose expression has {0,127,128,16383,16384,65534,65535,65536,100000} bytes, followed by a second entry and the end of the list, x format x address size {4,8} x byte order: raw and resolved iteration give both entries with exactly the encoded expression bytes",
        move |ctx, i| {
            let mut mx = mcx::space::Mix(i);
            let big = mx.flag();
            let fmt64 = mx.flag();
            let size = if mx.flag() { 8u8 } else { 4 };
            let len = *mx.pick(&lens);
            let en = endian(big);
            let expr: Vec<u8> = (0..len).map(|k| 0x30 + (k % 32) as u8).collect();
            let tail = [0x51u8];
            for v5 in [true, false] {
                if !v5 && len > 65535 {
                    ctx.outcome("long-expr:not-encodable-in-debug_loc");
                    continue;
                }
                let mut body = Enc::new(big);
                if v5 {
                    body.u8(0x04).uleb(0x10).uleb(0x20).uleb(len as u64).bytes(&expr);
                    body.u8(0x04).uleb(0x30).uleb(0x40).uleb(1).bytes(&tail);
                    body.u8(0x00);
                } else {
                    body.addr(0x10, size).addr(0x20, size).u16(len as u16).bytes(&expr);
                    body.addr(0x30, size).addr(0x40, size).u16(1).bytes(&tail);
                    body.addr(0, size).addr(0, size);
                }
                let (sec, off) = if v5 { (m::lists_contribution(big, fmt64, size, &[], &body.buf), m::lists_header_size(fmt64) as usize) } else { (body.buf.clone(), 0) };
                let empty: [u8; 0] = [];
                let lists = if v5 { LocationLists::new(DebugLoc::new(&empty, en), DebugLocLists::new(&sec, en)) } else { LocationLists::new(DebugLoc::new(&sec, en), DebugLocLists::new(&empty, en)) };
                let encoding = Encoding { address_size: size, format: fmt(fmt64), version: if v5 { 5 } else { 4 } };
                let case = || format!("{} expression of {} bytes, format {} address size {} {}", if v5 { ".debug_loclists" } else { ".debug_loc" }, len, if fmt64 { 64 } else { 32 }, size, if big { "BE" } else { "LE" });
                ctx.eval(2);
                let r = guard(|| -> Result<(), String> {
                    let mut raw = lists.raw_locations(LocationListsOffset(off), encoding).map_err(|e| format!("raw_locations: {}", e))?;
                    let mut datas: Vec<Vec<u8>> = vec![];
                    while let Some(e) = raw.next().map_err(|e| format!("raw entry {}: {}", datas.len(), e))? {
                        let d = match e {
                            RawLocListEntry::OffsetPair { data, .. } | RawLocListEntry::AddressOrOffsetPair { data, .. } => data.0.slice().to_vec(),
                            other => return Err(format!("raw entry {} is {:?}", datas.len(), other)),
                        };
                        datas.push(d);
                        if datas.len() > 4 {
                            return Err("raw iteration does not end".into());
                        }
                    }
                    if datas != vec![expr.clone(), tail.to_vec()] {
                        return Err(format!("raw entries carry expressions of {:?} bytes, expected [{}, 1]", datas.iter().map(|d| d.len()).collect::<Vec<_>>(), len));
                    }
                    let da = DebugAddr::from(EndianSlice::new(&empty, en));
                    let mut it = lists.locations(LocationListsOffset(off), encoding, 0x1000, &da, DebugAddrBase(0)).map_err(|e| format!("locations: {}", e))?;
                    let mut got = vec![];
                    while let Some(l) = it.next().map_err(|e| format!("entry {}: {}", got.len(), e))? {
                        got.push((l.range.begin, l.range.end, l.data.0.slice().to_vec()));
                        if got.len() > 4 {
                            return Err("iteration does not end".into());
                        }
                    }
                    if got != vec![(0x1010, 0x1020, expr.clone()), (0x1030, 0x1040, tail.to_vec())] {
                        return Err(format!("resolved entries {:?}", got.iter().map(|g| (g.0, g.1, g.2.len())).collect::<Vec<_>>()));
                    }
                    Ok(())
                });
                match r {
                    Err(p) => return m::fail_panic(ctx, "LocationLists::locations", &p, case()),
                    Ok(Err(e)) => return ctx.fail("LocationLists::raw_locations", "expression-length", "wrong-entries", format!("{}: {}", case(), e)),
                    Ok(Ok(())) => ctx.outcome("long-expr:ok"),
                }
            }
            ctx.nontriv(1);
        },
    )
}

fn lookup_sub() -> Sub {
    // size x fmt64 x big x far x index(0..=6) x which(addr, rng, loc)
    let len = 4 * 2 * 2 * 3 * 8;
    Sub::new(
        "lookup-get_address-get_offset",
        len,
        "DebugAddr::get_address / RangeLists::get_offset / LocationLists::get_offset for address size {1,2,4,8} x format x endianness x base {first contribution, second contribution, second contribution with non-zero table values} x index 0..=7 over a 7-entry table (index 7 is one past the end)",
        |ctx, i| {
            let mut mx = Mix(i);
            let size = *mx.pick(&[1u8, 2, 4, 8]);
            let fmt64 = mx.flag();
            let big = mx.flag();
            let far = mx.take(3);
            let index = mx.take(8);
            let en = endian(big);
            // address table
            let table: Vec<u64> = m::bset(size).to_vec();
            let mut sec = vec![];
            if far >= 1 {
                sec.extend(m::addr_contribution(big, fmt64, size, &[0x55, 0x66, 0x77]));
            }
            let base = sec.len() as u64 + m::addr_header_size(fmt64);
            sec.extend(m::addr_contribution(big, fmt64, size, &table));
            ctx.eval(3);
            let da = DebugAddr::from(EndianSlice::new(&sec, en));
            let got = guard(|| da.get_address(size, DebugAddrBase(base as usize), gimli::DebugAddrIndex(index as usize)));
            let case = format!("size={} format={} big={} base={:#x} index={} .debug_addr={}", size, if fmt64 { 64 } else { 32 }, big, base, index, mcx::hex(&sec));
            match got {
                Err(p) => m::fail_panic(ctx, "DebugAddr::get_address", &p, case.clone()),
                Ok(r) => match (r, table.get(index as usize)) {
                    (Ok(a), Some(&w)) => {
                        if a != w {
                            ctx.fail("DebugAddr::get_address", "address-table", "wrong-address", format!("{} got {:#x} want {:#x}", case, a, w));
                        }
                        ctx.outcome("lookup:address-ok");
                    }
                    (Err(_), None) => ctx.outcome("lookup:address-index-past-end"),
                    (Ok(a), None) => ctx.fail("DebugAddr::get_address", "address-table", "missing-error", format!("{} got {:#x} for an index past the table", case, a)),
                    (Err(e), Some(w)) => ctx.fail("DebugAddr::get_address", "address-table", "unexpected-error", format!("{} got Err({}) want {:#x}", case, e, w)),
                },
            }
            // offset tables: values relative to the base
            let offs: Vec<u64> = if far == 2 { vec![0x38, 0x39, 0x40, 0x1c, 0x100, 0xffff, 0x7fff_fff0] } else { vec![0x1c, 0x1d, 0x20, 0x1c, 0, 1, 2] };
            let mut sec = vec![];
            if far >= 1 {
                sec.extend(m::lists_contribution(big, fmt64, size, &[4, 5], &[0, 0, 0]));
            }
            let lbase = sec.len() as u64 + m::lists_header_size(fmt64);
            // the table ends the section: an index past the table runs off the section end
            sec.extend(m::lists_contribution(big, fmt64, size, &offs, &[]));
            let encoding = Encoding { address_size: size, format: fmt(fmt64), version: 5 };
            let case = format!("size={} format={} big={} base={:#x} index={} section={}", size, if fmt64 { 64 } else { 32 }, big, lbase, index, mcx::hex(&sec));
            let rl = RangeLists::new(DebugRanges::new(&[], en), DebugRngLists::new(&sec, en));
            let got = guard(|| rl.get_offset(encoding, DebugRngListsBase(lbase as usize), DebugRngListsIndex(index as usize)));
            match got {
                Err(p) => m::fail_panic(ctx, "RangeLists::get_offset", &p, case.clone()),
                Ok(r) => match (r, offs.get(index as usize)) {
                    (Ok(o), Some(&w)) => {
                        if o.0 as u64 != lbase + w {
                            ctx.fail("RangeLists::get_offset", "offset-table", "wrong-offset", format!("{} got {:#x} want {:#x}", case, o.0, lbase + w));
                        }
                        ctx.outcome("lookup:offset-ok");
                    }
                    (Err(_), None) => ctx.outcome("lookup:offset-index-past-end"),
                    (Ok(o), None) => ctx.fail("RangeLists::get_offset", "offset-table", "missing-error", format!("{} got {:#x} for an index past the table", case, o.0)),
                    (Err(e), Some(w)) => ctx.fail("RangeLists::get_offset", "offset-table", "unexpected-error", format!("{} got Err({}) want {:#x}", case, e, lbase + w)),
                },
            }
            let ll = LocationLists::new(DebugLoc::new(&[], en), DebugLocLists::new(&sec, en));
            let got = guard(|| ll.get_offset(encoding, DebugLocListsBase(lbase as usize), DebugLocListsIndex(index as usize)));
            match got {
                Err(p) => m::fail_panic(ctx, "LocationLists::get_offset", &p, case.clone()),
                Ok(r) => match (r, offs.get(index as usize)) {
                    (Ok(o), Some(&w)) => {
                        if o.0 as u64 != lbase + w {
                            ctx.fail("LocationLists::get_offset", "offset-table", "wrong-offset", format!("{} got {:#x} want {:#x}", case, o.0, lbase + w));
                        }
                    }
                    (Err(_), None) => {}
                    (Ok(o), None) => ctx.fail("LocationLists::get_offset", "offset-table", "missing-error", format!("{} got {:#x} for an index past the table", case, o.0)),
                    (Err(e), Some(w)) => ctx.fail("LocationLists::get_offset", "offset-table", "unexpected-error", format!("{} got Err({}) want {:#x}", case, e, lbase + w)),
                },
            }
            ctx.nontriv(1);
            if ctx.want_sample() {
                ctx.sample(case);
            }
        },
    )
}

// ---------------------------------------------------------------------------
// Unit-level plumbing: Dwarf::{attr_ranges_offset, attr_ranges, attr_locations_offset,
// attr_locations, ranges_offset_from_raw}, default bases, file types.

#[derive(Clone)]
pub struct Secs {
    pub info: Vec<u8>,
    pub abbrev: Vec<u8>,
    pub addr: Vec<u8>,
    pub ranges: Vec<u8>,
    pub rnglists: Vec<u8>,
    pub loc: Vec<u8>,
    pub loclists: Vec<u8>,
}

pub fn load<'a>(s: &'a Secs, big: bool, dwo: bool) -> Dwarf<R<'a>> {
    let en = endian(big);
    let mut d = Dwarf::load(|id| -> Result<R<'a>, ()> {
        let b: &[u8] = match id {
            SectionId::DebugInfo => &s.info,
            SectionId::DebugAbbrev => &s.abbrev,
            SectionId::DebugAddr => &s.addr,
            SectionId::DebugRanges => &s.ranges,
            SectionId::DebugRngLists => &s.rnglists,
            SectionId::DebugLoc => &s.loc,
            SectionId::DebugLocLists => &s.loclists,
            _ => &[],
        };
        Ok(EndianSlice::new(b, en))
    })
    .unwrap();
    if dwo {
        d.file_type = DwarfFileType::Dwo;
    }
    d
}

#[derive(Clone, Copy, Debug)]
struct PCfg {
    version: u16,
    fmt64: bool,
    size: u8,
    big: bool,
    dwo: bool,
    /// 0 absent, 1 DW_FORM_addr mid, 2 indexed (addrx / GNU_addr_index) -> table[1]
    low: u8,
    bases_first: bool,
    addr_far: bool,
    /// v5: 0 no attribute, 1 attribute = first contribution, 2 attribute = second contribution.
    /// v<5: 0 no DW_AT_GNU_ranges_base, 1/2 DW_AT_GNU_ranges_base = 0x18
    lbase: u8,
    /// 0 direct offset (sec_offset / data4 / data8), 1..=3 listx with index 0, 1, last
    refk: u8,
    /// .dwo only: DW_AT_low_pc, the address base and DW_AT_GNU_ranges_base live in a skeleton
    /// unit of the main file and reach the split unit through Unit::copy_relocated_attributes
    skel: bool,
}

impl PCfg {
    fn render(&self) -> String {
        format!(
            "version={} format={} size={} endian={} file={}{} low_pc={} order={} addr_base={} lists_base={} ref={}",
            self.version,
            if self.fmt64 { 64 } else { 32 },
            self.size,
            if self.big { "big" } else { "little" },
            if self.dwo { "dwo" } else { "main" },
            if self.skel { "+skeleton" } else { "" },
            ["absent", "addr", "indexed"][self.low as usize],
            if self.bases_first { "bases,low_pc" } else { "low_pc,bases" },
            if self.addr_far { "second" } else { "first" },
            ["absent", "first", "second"][self.lbase as usize],
            ["offset", "listx(0)", "listx(1)", "listx(last)"][self.refk as usize]
        )
    }
    fn valid(&self, loc: bool) -> bool {
        if self.skel && !self.dwo {
            return false;
        }
        if self.version < 5 {
            if self.refk != 0 {
                return false;
            }
            if self.lbase == 2 || (loc && self.lbase != 0) {
                return false;
            }
            // GNU split DWARF (indexed addresses, DW_AT_GNU_addr_base, DW_AT_GNU_ranges_base,
            // .dwo files) is an extension of DWARF 4 only.
            // GNU split DWARF (indexed addresses, DW_AT_GNU_addr_base, DW_AT_GNU_ranges_base,
            // .dwo files) is also produced for DWARF 2 and 3 (-gdwarf-3 -gsplit-dwarf): there the
            // extension only appears in its .dwo shape, and the base attributes are given in
            // DW_FORM_sec_offset (gimli does not read them from DW_FORM_data4/8; not claimed).
            if self.version < 4 && !self.dwo && (self.low == 2 || self.addr_far || self.lbase != 0) {
                return false;
            }
        } else {
            // listx needs a known base: the attribute, or the .dwo default
            if self.refk != 0 && self.lbase == 0 && !self.dwo {
                return false;
            }
            // the .dwo default base is the first contribution
        }
        true
    }
}

fn pconfigs(quick: bool, loc: bool) -> Vec<PCfg> {
    let mut out = vec![];
    for version in [2u16, 3, 4, 5] {
        for fmt64 in [false, true] {
            for &size in if quick { &[4u8, 8][..] } else { &[2u8, 4, 8][..] } {
                for big in [false, true] {
                    for dwo in [false, true] {
                        for low in 0..3u8 {
                            for bases_first in [false, true] {
                                for addr_far in [false, true] {
                                    for lbase in 0..3u8 {
                                        for refk in 0..4u8 {
                                            for skel in [false, true] {
                                                let c = PCfg { version, fmt64, size, big, dwo, low, bases_first, addr_far, lbase, refk, skel };
                                                if c.valid(loc) {
                                                    out.push(c);
                                                }
                                            }
                                        }
                                    }
                                }
                            }
                        }
                    }
                }
            }
        }
    }
    out
}

/// Build the sections for one plumbing case; returns (sections, family used,
/// expected list offset, unit base).
fn pbuild(c: &PCfg, loc: bool, list: &[E]) -> (Secs, Option<Secs>, Fam, u64, u64) {
    let table = addr_table(c.size);
    let fam = match (loc, c.version >= 5, c.dwo) {
        (false, false, _) => Fam::Ranges,
        (false, true, _) => Fam::Rle,
        (true, false, false) => Fam::Loc,
        (true, false, true) => Fam::GnuLle,
        (true, true, _) => Fam::Lle,
    };
    // .debug_addr
    let mut addr = vec![];
    let addr_base;
    if c.version >= 5 {
        if c.addr_far {
            addr.extend(m::addr_contribution(c.big, c.fmt64, c.size, &[0x7777, 0x8888]));
        }
        addr_base = addr.len() as u64 + m::addr_header_size(c.fmt64);
        addr.extend(m::addr_contribution(c.big, c.fmt64, c.size, &table));
    } else {
        // GNU extension: no header
        let mut e = Enc::new(c.big);
        if c.addr_far {
            e.addr(0x7777, c.size);
            e.addr(0x8888, c.size);
        }
        addr_base = e.len() as u64;
        for &a in &table {
            e.addr(a, c.size);
        }
        addr = e.buf;
    }
    // lists section
    let neighbour = [decoy(fam, c.size)];
    let mut sec = vec![];
    let list_off; // absolute section offset of the list under test
    let mut lists_base_attr = None;
    let mut refval; // value stored in the referencing attribute
    if c.version >= 5 {
        // contribution 1 (always), contribution 2 when lbase == 2
        let mk = |start: u64, with_target: bool| -> (Vec<u8>, u64, Vec<u64>) {
            // body: neighbour list, [target list], neighbour list; offsets table of 3 entries
            let hdr = m::lists_header_size(c.fmt64);
            let word = if c.fmt64 { 8 } else { 4 };
            let tbl = 3 * word;
            let mut body = Enc::new(c.big);
            m::encode_list(&mut body, fam, &neighbour, c.size);
            let t = body.len() as u64;
            if with_target {
                m::encode_list(&mut body, fam, list, c.size);
            }
            let n2 = body.len() as u64;
            m::encode_list(&mut body, fam, &neighbour, c.size);
            // table entries relative to the base (start + hdr): entry k for refk
            let rel = |x: u64| tbl + x;
            let offs = match c.refk {
                1 => vec![rel(t), rel(0), rel(n2)],
                2 => vec![rel(0), rel(t), rel(n2)],
                3 => vec![rel(0), rel(n2), rel(t)],
                _ => vec![rel(0), rel(n2), rel(t)],
            };
            let bytes = m::lists_contribution(c.big, c.fmt64, c.size, &offs, &body.buf);
            (bytes, start + hdr + tbl + t, offs)
        };
        let target_second = c.lbase == 2;
        let (c1, off1, _) = mk(0, !target_second);
        sec.extend(&c1);
        let mut off = off1;
        let mut base = m::lists_header_size(c.fmt64);
        if target_second {
            let start = sec.len() as u64;
            let (c2, off2, _) = mk(start, true);
            sec.extend(&c2);
            off = off2;
            base = start + m::lists_header_size(c.fmt64);
        }
        list_off = off;
        if c.lbase != 0 {
            lists_base_attr = Some(base);
        }
        refval = match c.refk {
            0 => list_off,
            1 => 0,
            2 => 1,
            _ => 2,
        };
    } else {
        let mut body = Enc::new(c.big);
        m::encode_list(&mut body, fam, &neighbour, c.size);
        // pad so that the GNU ranges base (0x18) lies before the target
        while body.len() < 0x20 {
            body.u8(0);
        }
        list_off = body.len() as u64;
        m::encode_list(&mut body, fam, list, c.size);
        m::encode_list(&mut body, fam, &neighbour, c.size);
        sec = body.buf;
        refval = list_off;
        if !loc && c.lbase == 1 {
            lists_base_attr = Some(0x18);
            if c.dwo {
                // GNU fission: DW_AT_ranges in the .dwo is relative to DW_AT_GNU_ranges_base
                refval = list_off - 0x18;
            }
        }
    }
    // unit
    let low_attr = match c.low {
        0 => None,
        1 => Some(attr(m::DW_AT_LOW_PC, m::DW_FORM_ADDR, mid_base(c.size))),
        _ => Some(attr(m::DW_AT_LOW_PC, if c.version >= 5 { m::DW_FORM_ADDRX } else { m::DW_FORM_GNU_ADDR_INDEX }, 1)),
    };
    let unit_base = match c.low {
        0 => 0,
        1 => mid_base(c.size),
        _ => table[1],
    };
    let mut bases = vec![];
    if c.version >= 5 {
        bases.push(attr(m::DW_AT_ADDR_BASE, m::DW_FORM_SEC_OFFSET, addr_base));
        if let Some(b) = lists_base_attr {
            bases.push(attr(if loc { m::DW_AT_LOCLISTS_BASE } else { m::DW_AT_RNGLISTS_BASE }, m::DW_FORM_SEC_OFFSET, b));
        }
    } else {
        if addr_base != 0 {
            bases.push(attr(m::DW_AT_GNU_ADDR_BASE, if c.version >= 4 || c.dwo { m::DW_FORM_SEC_OFFSET } else if c.fmt64 { m::DW_FORM_DATA8 } else { m::DW_FORM_DATA4 }, addr_base));
        }
        if let Some(b) = lists_base_attr {
            bases.push(attr(m::DW_AT_GNU_RANGES_BASE, if c.version >= 4 || c.dwo { m::DW_FORM_SEC_OFFSET } else if c.fmt64 { m::DW_FORM_DATA8 } else { m::DW_FORM_DATA4 }, b));
        }
    }
    let order = |bases: &[Attr], low: &Option<Attr>| -> Vec<Attr> {
        let mut v: Vec<Attr> = vec![];
        if c.bases_first {
            v.extend(bases.iter().cloned());
            v.extend(low.clone());
        } else {
            v.extend(low.clone());
            v.extend(bases.iter().cloned());
        }
        v
    };
    let mut skeleton = None;
    let root: Vec<Attr> = if c.skel {
        // relocatable attributes in the skeleton; the split unit keeps only its own lists base (v5)
        let (sk, own): (Vec<Attr>, Vec<Attr>) = bases.iter().cloned().partition(|a| matches!(a.at, m::DW_AT_ADDR_BASE | m::DW_AT_GNU_ADDR_BASE | m::DW_AT_GNU_RANGES_BASE));
        let su = UnitSpec { version: c.version, fmt64: c.fmt64, size: c.size, big: c.big, split: false, skeleton: c.version >= 5, root: order(&sk, &low_attr), child: None };
        let (info, abbrev) = m::encode_unit(&su);
        skeleton = Some(Secs { info, abbrev, addr: addr.clone(), ranges: vec![], rnglists: vec![], loc: vec![], loclists: vec![] });
        own
    } else {
        order(&bases, &low_attr)
    };
    let at = if loc { m::DW_AT_LOCATION } else { m::DW_AT_RANGES };
    let form = match c.refk {
        0 => {
            if c.version >= 4 {
                m::DW_FORM_SEC_OFFSET
            } else if c.fmt64 {
                m::DW_FORM_DATA8
            } else {
                m::DW_FORM_DATA4
            }
        }
        _ => {
            if loc {
                m::DW_FORM_LOCLISTX
            } else {
                m::DW_FORM_RNGLISTX
            }
        }
    };
    let child = vec![attr(at, form, refval)];
    let u = UnitSpec { version: c.version, fmt64: c.fmt64, size: c.size, big: c.big, split: c.dwo && c.version >= 5, skeleton: false, root, child: Some(child) };
    let (info, abbrev) = m::encode_unit(&u);
    let mut s = Secs { info, abbrev, addr, ranges: vec![], rnglists: vec![], loc: vec![], loclists: vec![] };
    match fam {
        Fam::Ranges => s.ranges = sec,
        Fam::Rle => s.rnglists = sec,
        Fam::Loc | Fam::GnuLle => s.loc = sec,
        Fam::Lle => s.loclists = sec,
    }
    (s, skeleton, fam, list_off, unit_base)
}

fn run_plumb(ctx: &mut Ctx, c: &PCfg, loc: bool, list: &[E]) {
    let (s, skel, fam, list_off, unit_base) = pbuild(c, loc, list);
    let table = addr_table(c.size);
    let want = m::resolve(list, c.size, unit_base, &table);
    let case = || {
        format!(
            "{} {} {} .debug_info={} .debug_abbrev={} lists={} .debug_addr={}{}",
            fam.name(),
            m::render(list),
            c.render(),
            mcx::hex(&s.info),
            mcx::hex(&s.abbrev),
            mcx::hex(match fam {
                Fam::Ranges => &s.ranges,
                Fam::Rle => &s.rnglists,
                Fam::Loc | Fam::GnuLle => &s.loc,
                Fam::Lle => &s.loclists,
            }),
            mcx::hex(&s.addr),
            match &skel {
                Some(k) => format!(" skeleton.debug_info={} skeleton.debug_abbrev={}", mcx::hex(&k.info), mcx::hex(&k.abbrev)),
                None => String::new(),
            }
        )
    };
    let bound = list.len() + 3;
    ctx.eval(1);
    let (e_off, e_res) = if loc { ("Dwarf::attr_locations_offset", "Dwarf::attr_locations") } else { ("Dwarf::attr_ranges_offset", "Dwarf::attr_ranges") };
    let want_raw = m::raw_expected(list);
    let r = guard(|| -> Result<(u64, u64, Result<Vec<E>, String>, Got), String> {
        // GNU split DWARF before version 5: the .dwo unit's DW_AT_ranges points into the .debug_ranges
        // of the main file, which Dwarf::make_dwo hands to the .dwo's Dwarf
        let via_make_dwo = skel.is_some() && c.version < 5 && !loc;
        let parent_secs;
        let own_secs;
        let (mut d, parent) = if via_make_dwo {
            let mut p = skel.clone().unwrap();
            p.ranges = s.ranges.clone();
            p.addr = s.addr.clone();
            parent_secs = p;
            let mut o = s.clone();
            o.ranges = vec![];
            own_secs = o;
            (load(&own_secs, c.big, false), Some(load(&parent_secs, c.big, false)))
        } else {
            (load(&s, c.big, c.dwo), None)
        };
        if let Some(p) = &parent {
            d.make_dwo(p);
        }
        let d = d;
        let hdr = d.units().next().map_err(|e| format!("units: {}", e))?.ok_or("no unit")?;
        let mut unit = d.unit(hdr).map_err(|e| format!("Dwarf::unit: {}", e))?;
        if let Some(sk) = &skel {
            // what a consumer of split DWARF does: take the relocatable attributes from the skeleton
            let dm = load(sk, c.big, false);
            let sh = dm.units().next().map_err(|e| format!("skeleton units: {}", e))?.ok_or("no skeleton unit")?;
            let su = dm.unit(sh).map_err(|e| format!("skeleton Dwarf::unit: {}", e))?;
            unit.copy_relocated_attributes(&su);
        }
        let unit = unit;
        let mut cur = unit.entries();
        cur.next_dfs().map_err(|e| e.to_string())?;
        let die = cur.next_dfs().map_err(|e| e.to_string())?.ok_or("no child DIE")?;
        let name = if loc { gimli::DW_AT_location } else { gimli::DW_AT_ranges };
        let val = die.attr_value(name).ok_or("attribute missing")?;
        let mut items = vec![];
        if loc {
            let off = d.attr_locations_offset(&unit, val.clone()).map_err(|e| format!("offset: {}", e))?.ok_or_else(|| format!("attr_locations_offset returned None for {:?}", val))?;
            let raw = (|| -> Result<Vec<E>, String> {
                let mut it = d.raw_locations(&unit, off).map_err(|e| e.to_string())?;
                let mut v = vec![];
                for _ in 0..bound {
                    match it.next().map_err(|e| format!("{} after {:?}", e, v))? {
                        Some(e) => v.push(loc_raw_to_e(&e, fam)),
                        None => {
                            for _ in 0..2 {
                                if let Some(e) = it.next().map_err(|e| format!("{} when polled again after the end of {:?}", e, v))? {
                                    return Err(format!("yielded {:?} when polled again after the end of the list {:?}", e, v));
                                }
                            }
                            return Ok(v);
                        }
                    }
                }
                Err("raw iterator did not end".into())
            })();
            let got = match d.attr_locations(&unit, val) {
                Ok(Some(mut it)) => {
                    let mut err = Some("iterator did not end".to_string());
                    for _ in 0..bound {
                        match it.next() {
                            Ok(Some(l)) => items.push(Y { begin: l.range.begin, end: l.range.end, x: expr_sel(l.data.0.slice()), default: false }),
                            Ok(None) => {
                                err = None;
                                break;
                            }
                            Err(e) => {
                                err = Some(e.to_string());
                                break;
                            }
                        }
                    }
                    Got { items, err }
                }
                Ok(None) => return Err("attr_locations returned None".into()),
                Err(e) => Got { items, err: Some(e.to_string()) },
            };
            Ok((off.0 as u64, unit.low_pc, raw, got))
        } else {
            let off = d.attr_ranges_offset(&unit, val.clone()).map_err(|e| format!("offset: {}", e))?.ok_or_else(|| format!("attr_ranges_offset returned None for {:?}", val))?;
            let raw = (|| -> Result<Vec<E>, String> {
                let mut it = d.raw_ranges(&unit, off).map_err(|e| e.to_string())?;
                let mut v = vec![];
                for _ in 0..bound {
                    match it.next().map_err(|e| format!("{} after {:?}", e, v))? {
                        Some(e) => v.push(rng_raw_to_e(&e, fam)),
                        None => {
                            for _ in 0..2 {
                                if let Some(e) = it.next().map_err(|e| format!("{} when polled again after the end of {:?}", e, v))? {
                                    return Err(format!("yielded {:?} when polled again after the end of the list {:?}", e, v));
                                }
                            }
                            return Ok(v);
                        }
                    }
                }
                Err("raw iterator did not end".into())
            })();
            let got = match d.attr_ranges(&unit, val) {
                Ok(Some(mut it)) => {
                    let mut err = Some("iterator did not end".to_string());
                    for _ in 0..bound {
                        match it.next() {
                            Ok(Some(r)) => items.push(Y { begin: r.begin, end: r.end, x: 0, default: false }),
                            Ok(None) => {
                                err = None;
                                break;
                            }
                            Err(e) => {
                                err = Some(e.to_string());
                                break;
                            }
                        }
                    }
                    Got { items, err }
                }
                Ok(None) => return Err("attr_ranges returned None".into()),
                Err(e) => Got { items, err: Some(e.to_string()) },
            };
            Ok((off.0 as u64, unit.low_pc, raw, got))
        }
    });
    match r {
        Err(p) => m::fail_panic(ctx, e_res, &p, case()),
        Ok(Err(e)) => ctx.fail(e_res, "unit-plumbing", "unexpected-error", format!("{} got Err({})", case(), e)),
        Ok(Ok((off, low_pc, raw, got))) => {
            let e_raw = if loc { "Dwarf::raw_locations" } else { "Dwarf::raw_ranges" };
            if low_pc != unit_base {
                ctx.fail("Unit::new", "unit-base", "wrong-base", format!("{} unit.low_pc={:#x} want {:#x}", case(), low_pc, unit_base));
            } else if off != list_off {
                ctx.fail(e_off, "offset-table", "wrong-offset", format!("{} got {:#x} want {:#x}", case(), off, list_off));
            } else if raw.as_deref() != Ok(want_raw) {
                ctx.fail(e_raw, "raw-entries", "wrong-entries", format!("{} got {:?} want {:?}", case(), raw, want_raw));
            } else {
                verdict(ctx, e_res, &got, &want, c.size, loc, &case);
            }
        }
    }
    if want.items.len() >= 2 && c.refk >= 2 && c.low == 2 && ctx.want_sample() {
        ctx.sample(format!("{} -> model {:?}", case(), want));
    }
}

fn plumb_sub(loc: bool, maxlen: u32, quick: bool) -> Sub {
    let cfgs = pconfigs(quick, loc);
    // alphabets per (family, size): computed on demand inside (cheap)
    let n = 12u64;
    let count = seq_count(n, 0, maxlen);
    let name = format!("unit-{}-len<={}", if loc { "locations" } else { "ranges" }, maxlen);
    let bound = format!(
        "every list of 0..={} entries over a 12-instance sub-alphabet of the family the unit selects (v2-4 main: legacy; v2-4 dwo locations: GNU LLE; v5: RLE/LLE), read through a generated .debug_info unit under {} configurations: version {{2,3,4,5}} x format x address size {} x endianness x file type {{main, dwo, dwo with the relocatable attributes taken from a skeleton unit via Unit::copy_relocated_attributes (v4, v5)}} x unit DW_AT_low_pc {{absent, addr, indexed}} x attribute order x addr_base {{first,second contribution}} x lists base {{absent (default), first, second contribution}} / DW_AT_GNU_ranges_base x reference {{sec_offset|data4|data8, listx index 0/1/last}}",
        maxlen,
        cfgs.len(),
        if quick { "{4,8}" } else { "{2,4,8}" }
    );
    Sub::new(&name, count, &bound, move |ctx, i| {
        let idx = seq_decode(n, 0, maxlen, i);
        for c in &cfgs {
            let fam = match (loc, c.version >= 5, c.dwo) {
                (false, false, _) => Fam::Ranges,
                (false, true, _) => Fam::Rle,
                (true, false, false) => Fam::Loc,
                (true, false, true) => Fam::GnuLle,
                (true, true, _) => Fam::Lle,
            };
            let a = sub_alphabet(fam, c.size);
            let list: Vec<E> = idx.iter().map(|&k| a[k].clone()).collect();
            run_plumb(ctx, c, loc, &list);
        }
        ctx.nontriv(1);
    })
}

/// 12-instance sub-alphabets for the unit-level subs.
fn sub_alphabet(fam: Fam, size: u8) -> Vec<E> {
    let mx = m::ones(size);
    let l = fam.is_loc();
    let x = |i: u8| if l { i } else { 0 };
    match fam {
        Fam::Ranges | Fam::Loc => vec![
            E::End,
            E::LBase(0x20),
            E::LBase(mx - 1),
            E::LBase(mx - 2),
            E::LPair(0x10, 0x20, x(0)),
            E::LPair(0x20, 0x10, x(1)),
            E::LPair(1, 1, x(2)),
            E::LPair(0, mx, x(1)),
            E::LPair(mx - 2, mx, x(0)),
            E::LPair(mx - 1, mx, x(2)),
            E::LPair(mx - 2, 1, x(1)),
            E::LPair(0, 1, x(2)),
        ],
        Fam::Rle | Fam::Lle => vec![
            E::End,
            E::Basex(0),
            E::Basex(5),
            E::SxEx(0, 1, x(0)),
            E::SxLen(2, 2, x(1)),
            E::OffPair(0x10, 0x20, x(2)),
            E::OffPair(1, mx, x(0)),
            E::Base(mx - 1),
            E::StartEnd(mx - 2, mx, x(1)),
            E::StartLen(0x10, 0x10, x(2)),
            E::StartLen(mx - 2, 3, x(0)),
            if l { E::Default(1) } else { E::StartEnd(mx - 1, mx, 0) },
        ],
        Fam::GnuLle => vec![
            E::End,
            E::Basex(0),
            E::Basex(3),
            E::Basex(5),
            E::SxEx(0, 1, 0),
            E::SxEx(1, 0, 1),
            E::SxEx(2, 3, 2),
            E::SxEx(3, 1, 0),
            E::SxLen(0, 0x10, 2),
            E::SxLen(1, 0, 0),
            E::SxLen(2, 3, 1),
            E::SxLen(2, 2, 2),
        ],
    }
}

// ---------------------------------------------------------------------------
// die_ranges / unit_ranges

#[derive(Clone, Copy, Debug, PartialEq, Eq)]
enum HighForm {
    Absent,
    Addr,
    Addrx,
    Data1,
    Data2,
    Data4,
    Data8,
    Udata,
    Sdata,
}

const HIGH_FORMS: [HighForm; 9] = [HighForm::Absent, HighForm::Addr, HighForm::Addrx, HighForm::Data1, HighForm::Data2, HighForm::Data4, HighForm::Data8, HighForm::Udata, HighForm::Sdata];

fn die_sub() -> Sub {
    // version(4) x size(3) x fmt(2) x lowform(3) x lowval(7) x highform(9) x highval(7) x ranges(3) x target(2)
    let radices = [4u64, 3, 2, 3, 7, 9, 7, 3, 2, 2];
    let len = mcx::space::product(&radices);
    Sub::new(
        "die_ranges-unit_ranges",
        len,
        "Dwarf::die_ranges on a child DIE and Dwarf::unit_ranges on the root DIE: version {2,3,4,5} x address size {2,4,8} x format x DW_AT_low_pc {absent, addr, indexed} with value from B(size) x DW_AT_high_pc {absent, addr, indexed, data1, data2, data4, data8, udata, sdata} with value from B(width) (sdata: {0,1,0x10,0x20,2^62,-1,i64::MAX}) x DW_AT_ranges {absent, sec_offset/data4/data8, rnglistx (v5)} x attribute order {low_pc, high_pc, ranges as listed; reversed}",
        |ctx, i| {
            let mut mx = Mix(i);
            let version = *mx.pick(&[2u16, 3, 4, 5]);
            let size = *mx.pick(&[2u8, 4, 8]);
            let fmt64 = mx.flag();
            let lowform = mx.take(3);
            let lowi = mx.take(7) as usize;
            let highform = *mx.pick(&HIGH_FORMS);
            let highi = mx.take(7) as usize;
            let rk = mx.take(3);
            let root_target = mx.flag();
            let reversed = mx.flag();
            let big = (lowi + highi) % 2 == 1;
            if rk == 2 && version < 5 {
                ctx.outcome("die:skip-rnglistx-before-v5");
                return;
            }
            let b = m::bset(size);
            // address table == B(size): index i -> b[i]
            let table = b.to_vec();
            let low_val = b[lowi];
            let idx_form = if version >= 5 { m::DW_FORM_ADDRX } else { m::DW_FORM_GNU_ADDR_INDEX };
            let mut attrs: Vec<Attr> = vec![];
            match lowform {
                0 => {}
                1 => attrs.push(attr(m::DW_AT_LOW_PC, m::DW_FORM_ADDR, low_val)),
                _ => attrs.push(attr(m::DW_AT_LOW_PC, idx_form, lowi as u64)),
            }
            // high_pc value
            #[derive(Debug)]
            enum High {
                None,
                Addr(u64),
                Const(u64),
                Negative,
            }
            let high = match highform {
                HighForm::Absent => High::None,
                HighForm::Addr => {
                    attrs.push(attr(m::DW_AT_HIGH_PC, m::DW_FORM_ADDR, b[highi]));
                    High::Addr(b[highi])
                }
                HighForm::Addrx => {
                    attrs.push(attr(m::DW_AT_HIGH_PC, idx_form, highi as u64));
                    High::Addr(b[highi])
                }
                HighForm::Data1 => {
                    let v = m::bset(1)[highi];
                    attrs.push(attr(m::DW_AT_HIGH_PC, m::DW_FORM_DATA1, v));
                    High::Const(v)
                }
                HighForm::Data2 => {
                    let v = m::bset(2)[highi];
                    attrs.push(attr(m::DW_AT_HIGH_PC, m::DW_FORM_DATA2, v));
                    High::Const(v)
                }
                HighForm::Data4 => {
                    let v = m::bset(4)[highi];
                    attrs.push(attr(m::DW_AT_HIGH_PC, m::DW_FORM_DATA4, v));
                    High::Const(v)
                }
                HighForm::Data8 => {
                    let v = m::bset(8)[highi];
                    attrs.push(attr(m::DW_AT_HIGH_PC, m::DW_FORM_DATA8, v));
                    High::Const(v)
                }
                HighForm::Udata => {
                    let v = m::bset(8)[highi];
                    attrs.push(attr(m::DW_AT_HIGH_PC, m::DW_FORM_UDATA, v));
                    High::Const(v)
                }
                HighForm::Sdata => {
                    let v: i64 = [0, 1, 0x10, 0x20, 1 << 62, -1, i64::MAX][highi];
                    attrs.push(attr(m::DW_AT_HIGH_PC, m::DW_FORM_SDATA, v as u64));
                    if v < 0 {
                        High::Negative
                    } else {
                        High::Const(v as u64)
                    }
                }
            };
            // a range list for DW_AT_ranges
            let fam = if version >= 5 { Fam::Rle } else { Fam::Ranges };
            let list: Vec<E> = if version >= 5 {
                vec![E::OffPair(0x10, 0x20, 0), E::StartEnd(0x30, 0x31, 0), E::SxLen(2, 4, 0)]
            } else {
                vec![E::LPair(0x10, 0x20, 0), E::LPair(0x30, 0x30, 0), E::LPair(0x40, 0x48, 0)]
            };
            let mut lists_sec = vec![];
            let mut root_bases = vec![];
            // .debug_addr
            let (addr, addr_base) = if version >= 5 {
                (m::addr_contribution(big, fmt64, size, &table), m::addr_header_size(fmt64))
            } else {
                let mut e = Enc::new(big);
                for &a in &table {
                    e.addr(a, size);
                }
                (e.buf, 0)
            };
            if version >= 5 {
                root_bases.push(attr(m::DW_AT_ADDR_BASE, m::DW_FORM_SEC_OFFSET, addr_base));
            }
            if rk != 0 {
                let mut body = Enc::new(big);
                body.bytes(&[0x00; 3]);
                let t = body.len() as u64;
                m::encode_list(&mut body, fam, &list, size);
                if version >= 5 {
                    let word = if fmt64 { 8 } else { 4 };
                    lists_sec = m::lists_contribution(big, fmt64, size, &[word + t], &body.buf);
                    let base = m::lists_header_size(fmt64);
                    root_bases.push(attr(m::DW_AT_RNGLISTS_BASE, m::DW_FORM_SEC_OFFSET, base));
                    if rk == 1 {
                        attrs.push(attr(m::DW_AT_RANGES, m::DW_FORM_SEC_OFFSET, base + word + t));
                    } else {
                        attrs.push(attr(m::DW_AT_RANGES, m::DW_FORM_RNGLISTX, 0));
                    }
                } else {
                    lists_sec = body.buf;
                    let form = if version >= 4 {
                        m::DW_FORM_SEC_OFFSET
                    } else if fmt64 {
                        m::DW_FORM_DATA8
                    } else {
                        m::DW_FORM_DATA4
                    };
                    attrs.push(attr(m::DW_AT_RANGES, form, t));
                }
            }
            if reversed {
                // the standard does not order attributes: DW_AT_ranges, DW_AT_high_pc, DW_AT_low_pc
                attrs.reverse();
            }
            let child_base = mid_base(size);
            let (root, child, unit_base) = if root_target {
                let mut r = root_bases.clone();
                r.extend(attrs.clone());
                (r, None, if lowform == 0 { 0 } else { low_val })
            } else {
                let mut r = root_bases.clone();
                r.push(attr(m::DW_AT_LOW_PC, m::DW_FORM_ADDR, child_base));
                (r, Some(attrs.clone()), child_base)
            };
            let u = UnitSpec { version, fmt64, size, big, split: false, skeleton: false, root, child };
            let (info, abbrev) = m::encode_unit(&u);
            let mut s = Secs { info, abbrev, addr, ranges: vec![], rnglists: vec![], loc: vec![], loclists: vec![] };
            if version >= 5 {
                s.rnglists = lists_sec;
            } else {
                s.ranges = lists_sec;
            }
            let case = format!(
                "target={} version={} size={} format={} endian={} low_pc={}({:#x}) high_pc={:?}({:?}) ranges={} .debug_info={} .debug_abbrev={}",
                if root_target { "unit_ranges(root)" } else { "die_ranges(child)" },
                version,
                size,
                if fmt64 { 64 } else { 32 },
                if big { "big" } else { "little" },
                ["absent", "addr", "indexed"][lowform as usize],
                low_val,
                highform,
                high,
                ["absent", "offset", "rnglistx"][rk as usize],
                mcx::hex(&s.info),
                mcx::hex(&s.abbrev)
            );
            ctx.eval(1);
            let got = guard(|| -> Result<Got, String> {
                let d = load(&s, big, false);
                let hdr = d.units().next().map_err(|e| format!("units: {}", e))?.ok_or("no unit")?;
                let unit = d.unit(hdr).map_err(|e| format!("Dwarf::unit: {}", e))?;
                let mut it = if root_target {
                    match d.unit_ranges(&unit) {
                        Ok(it) => it,
                        Err(e) => return Ok(Got { items: vec![], err: Some(e.to_string()) }),
                    }
                } else {
                    let mut cur = unit.entries();
                    cur.next_dfs().map_err(|e| e.to_string())?;
                    let die = cur.next_dfs().map_err(|e| e.to_string())?.ok_or("no child DIE")?;
                    match d.die_ranges(&unit, die) {
                        Ok(it) => it,
                        Err(e) => return Ok(Got { items: vec![], err: Some(e.to_string()) }),
                    }
                };
                let mut items = vec![];
                for _ in 0..8 {
                    match it.next() {
                        Ok(Some(r)) => items.push(Y { begin: r.begin, end: r.end, x: 0, default: false }),
                        Ok(None) => return Ok(Got { items, err: None }),
                        Err(e) => return Ok(Got { items, err: Some(e.to_string()) }),
                    }
                }
                Ok(Got { items, err: Some("iterator did not end".into()) })
            });
            let got = match got {
                Err(p) => {
                    ctx.outcome("die:panic");
                    if let High::Const(c) = high {
                        if lowform != 0 && rk == 0 && low_val as u128 + c as u128 == 1u128 << 64 {
                            ctx.outcome("die:end-is-2^64(unrepresentable)");
                        }
                    }
                    m::fail_panic(ctx, "Dwarf::die_ranges", &p, case);
                    return;
                }
                Ok(Err(e)) => {
                    ctx.fail("Dwarf::die_ranges", "unit-plumbing", "unexpected-error", format!("{} got Err({})", case, e));
                    return;
                }
                Ok(Ok(g)) => g,
            };
            ctx.nontriv(1);
            if rk != 0 {
                // DW_AT_ranges present: the list, relative to the unit base. A DIE with both
                // DW_AT_ranges and DW_AT_high_pc (or, below the unit DIE, DW_AT_low_pc) is not
                // well-formed: left open apart from the any-input clause.
                let open = highform != HighForm::Absent || (!root_target && lowform != 0);
                if open {
                    ctx.outcome("die:ranges-and-pc(open)");
                    return;
                }
                let want = m::resolve(&list, size, unit_base, &table);
                ctx.outcome("die:ranges-list");
                verdict(ctx, "Dwarf::die_ranges", &got, &want, size, false, &|| case.clone());
                return;
            }
            let two_n: u128 = 1u128 << (8 * size as u32);
            let want: Option<Option<(u64, u64)>> = if matches!(high, High::Negative) {
                ctx.outcome("die:negative-high_pc(ill-formed)");
                None
            } else if lowform == 0 {
                ctx.outcome("die:no-low_pc");
                Some(None)
            } else {
                match high {
                    High::None => {
                        // a single address, not a range: left open
                        ctx.outcome("die:low_pc-only(open)");
                        None
                    }
                    High::Negative => None,
                    High::Addr(h) => {
                        if low_val < h {
                            ctx.outcome("die:low-high-address");
                            Some(Some((low_val, h)))
                        } else {
                            ctx.outcome("die:empty-or-inverted(ill-formed)");
                            None
                        }
                    }
                    High::Const(c) => {
                        let end = low_val as u128 + c as u128;
                        if c == 0 {
                            ctx.outcome("die:empty-or-inverted(ill-formed)");
                            None
                        } else if end <= two_n && end <= u64::MAX as u128 {
                            ctx.outcome("die:low-plus-offset");
                            Some(Some((low_val, end as u64)))
                        } else if end == two_n {
                            // [low, 2^64): the end is not representable in the result type
                            ctx.outcome("die:end-is-2^64(unrepresentable)");
                            None
                        } else {
                            ctx.outcome("die:end-beyond-address-space(ill-formed)");
                            None
                        }
                    }
                }
            };
            if let Some(w) = want {
                let tomb = low_val >= m::ones(size) - 1;
                let ok = match (&w, &got) {
                    (_, Got { err: Some(_), .. }) => false,
                    (None, g) => g.items.is_empty(),
                    (Some((b0, e0)), g) => (g.items.len() == 1 && g.items[0].begin == *b0 && g.items[0].end == *e0) || (tomb && g.items.is_empty()),
                };
                if !ok {
                    ctx.fail("Dwarf::die_ranges", "single-range", "wrong-ranges", format!("{} got {:?} want {:x?}", case, got, w));
                }
            }
            if ctx.want_sample() && lowform == 2 {
                ctx.sample(format!("{} -> {:?}", case, got));
            }
        },
    )
}

// ---------------------------------------------------------------------------
// Any-input clause

fn bad_yield(b: u64, e: u64, size: u8) -> bool {
    b >= e || b >= m::ones(size) - 1
}

const ANY_APIS: [&str; 3] = ["RangeLists::ranges", "LocationLists::locations", "LocationLists::locations_dwo"];

fn any_what(api: usize, v5: bool) -> &'static str {
    match (api, v5) {
        (0, false) => "debug_ranges",
        (0, true) => "debug_rnglists",
        (1, false) => "debug_loc",
        (1, true) => "debug_loclists",
        (_, false) => "debug_loc(dwo)",
        (_, true) => "debug_loclists(dwo)",
    }
}

/// Drive one resolving iterator over `bytes`; calls `f(begin,end)` for every
/// yielded range; returns false if the iterator did not end within the bound.
fn any_drive(api: usize, bytes: &[u8], size: u8, base: u64, v5: bool, addr_sec: &[u8], f: &mut dyn FnMut(u64, u64)) -> bool {
    let en = RunTimeEndian::Little;
    let enc = Encoding { address_size: size, format: Format::Dwarf32, version: if v5 { 5 } else { 4 } };
    let da = DebugAddr::from(EndianSlice::new(addr_sec, en));
    let bound = bytes.len() + 2;
    if api == 0 {
        let rl = RangeLists::new(DebugRanges::new(bytes, en), DebugRngLists::new(bytes, en));
        if let Ok(mut it) = rl.ranges(RangeListsOffset(0), enc, base, &da, DebugAddrBase(0)) {
            for _ in 0..bound {
                match it.next() {
                    Ok(Some(r)) => f(r.begin, r.end),
                    Ok(None) => return true,
                    Err(_) => {}
                }
            }
            return false;
        }
        true
    } else {
        let ll = LocationLists::new(DebugLoc::new(bytes, en), DebugLocLists::new(bytes, en));
        let it = if api == 2 { ll.locations_dwo(LocationListsOffset(0), enc, base, &da, DebugAddrBase(0)) } else { ll.locations(LocationListsOffset(0), enc, base, &da, DebugAddrBase(0)) };
        if let Ok(mut it) = it {
            for _ in 0..bound {
                match it.next() {
                    Ok(Some(l)) => f(l.range.begin, l.range.end),
                    Ok(None) => return true,
                    Err(_) => {}
                }
            }
            return false;
        }
        true
    }
}

/// One (address size, table, unit base, api) combination of the any-input driver.
#[derive(Clone)]
struct Combo {
    size: u8,
    table: Vec<u8>,
    base: u64,
    api: usize,
}

fn any_combos(v5: bool, reduced: bool, quick: bool) -> Vec<Combo> {
    let mut out = vec![];
    for size in [1u8, 2] {
        let mx = m::ones(size);
        let mut a = Enc::new(false);
        for v in [0x10, mx - 1, mx - 3, 0] {
            a.addr(v, size);
        }
        let bases: Vec<u64> = if reduced {
            vec![mx - 0x10]
        } else if quick {
            vec![0x10, mx - 0x10]
        } else {
            vec![0, 0x10, mx - 0x10]
        };
        for base in bases {
            for api in 0..if v5 { 2 } else { 3 } {
                // reduced set (used for the longest strings only): ranges and locations for
                // address size 1, ranges for address size 2 (a 2-byte-address location entry
                // does not fit in 4 bytes)
                if reduced && (api == 2 || (size == 2 && api == 1)) {
                    continue;
                }
                out.push(Combo { size, table: a.buf.clone(), base, api });
            }
        }
    }
    out
}

/// Unguarded: number of yielded ranges, and whether anything was wrong.
fn any_fast(bytes: &[u8], v5: bool, combos: &[Combo]) -> (u64, bool) {
    let mut y = 0u64;
    let mut bad = false;
    for c in combos {
        let ended = any_drive(c.api, bytes, c.size, c.base, v5, &c.table, &mut |b, e| {
            y += 1;
            bad |= bad_yield(b, e, c.size);
        });
        bad |= !ended;
    }
    (y, bad)
}

/// Guarded call by call, reporting what went wrong.
fn any_slow(ctx: &mut Ctx, bytes: &[u8], v5: bool, combos: &[Combo]) {
    for c in combos {
        let entry = ANY_APIS[c.api];
        let what = any_what(c.api, v5);
        let r = guard(|| {
            let mut out = vec![];
            let ended = any_drive(c.api, bytes, c.size, c.base, v5, &c.table, &mut |b, e| out.push((b, e)));
            (out, ended)
        });
        match r {
            Err(p) => m::fail_panic(ctx, entry, &p, format!("bytes {} as {} size={} base={:#x}", mcx::hex(bytes), what, c.size, c.base)),
            Ok((out, ended)) => {
                if !ended {
                    ctx.fail(entry, "termination", "iterator-did-not-end", format!("bytes {} as {} size={}: more than len+2 calls", mcx::hex(bytes), what, c.size));
                }
                for (b, e) in out {
                    if bad_yield(b, e, c.size) {
                        ctx.fail(entry, "nonempty-below-tombstone", "yielded-empty-or-tombstone", format!("bytes {} as {} address_size={} base={:#x} yielded {:#x}..{:#x}", mcx::hex(bytes), what, c.size, c.base, b, e));
                    }
                }
            }
        }
    }
}

/// All byte strings with the given 2-byte prefix, of length 2..=maxlen.
fn strings_with_prefix(b0: u8, b1: u8, maxlen: usize, f: &mut dyn FnMut(&[u8])) {
    let mut buf = vec![b0, b1];
    f(&buf);
    if maxlen < 3 {
        return;
    }
    for b2 in 0..=255u8 {
        buf.truncate(2);
        buf.push(b2);
        f(&buf);
        if maxlen < 4 {
            continue;
        }
        for b3 in 0..=255u8 {
            buf.truncate(3);
            buf.push(b3);
            f(&buf);
        }
    }
}

/// `full_len`: strings up to this length run under every combination;
/// longer ones (up to `maxlen`) under the reduced set.
fn any_sub(v5: bool, full_len: usize, maxlen: usize, quick: bool) -> Sub {
    let name = format!("any-input-{}-len<={}", if v5 { "rle-lle" } else { "legacy" }, maxlen);
    let full = any_combos(v5, false, quick);
    let reduced = any_combos(v5, true, quick);
    let bound = format!(
        "every byte string of length <= {} fed as the list section to RangeLists::ranges, LocationLists::locations{} with address size 1 and 2 x unit base {}, a 4-entry .debug_addr {{0x10, max-1, max-3, 0}} ({} combinations per string){}: every yielded range has begin < end and begin < 2^(8*size)-2, no panic, the iterator ends within len+2 calls (errors do not stop the driver)",
        full_len,
        if v5 { "" } else { " and locations_dwo (GNU LLE)" },
        if quick { "{0x10, max-0x10}" } else { "{0, 0x10, max-0x10}" },
        full.len(),
        if maxlen > full_len { format!("; every byte string of length {} under {} combinations (ranges and locations with address size 1, ranges with address size 2, unit base max-0x10)", maxlen, reduced.len()) } else { String::new() }
    );
    Sub::new(&name, 65536 + 1, &bound, move |ctx, i| {
        let enumerate = |f: &mut dyn FnMut(&[u8])| {
            if i == 65536 {
                f(&[]);
                for b in 0..=255u8 {
                    f(&[b]);
                }
            } else {
                strings_with_prefix((i >> 8) as u8, i as u8, maxlen, f);
            }
        };
        let pick = |s: &[u8]| if s.len() <= full_len { &full } else { &reduced };
        let fast = guard(|| {
            let (mut n, mut calls, mut y, mut bad) = (0u64, 0u64, 0u64, false);
            enumerate(&mut |s| {
                let c = pick(s);
                let (yy, b) = any_fast(s, v5, c);
                n += 1;
                calls += c.len() as u64;
                y += yy;
                bad |= b;
            });
            (n, calls, y, bad)
        });
        match fast {
            Ok((n, calls, y, false)) => {
                ctx.eval(calls);
                ctx.nontriv(n);
                ctx.outcome_n("any-input:ranges-yielded", y);
                if i != 65536 && y > 0 && ctx.want_sample() {
                    ctx.sample(format!("all {} strings {:02x}{:02x}.. up to length {}: {} iterator runs, {} ranges yielded, all non-empty and below the tombstones", n, i >> 8, i & 0xff, maxlen, calls, y));
                }
            }
            _ => {
                // something panicked or misbehaved: attribute it string by string
                let mut strings: Vec<Vec<u8>> = vec![];
                enumerate(&mut |s| strings.push(s.to_vec()));
                for s in &strings {
                    let c = pick(s);
                    ctx.eval(c.len() as u64);
                    any_slow(ctx, s, v5, c);
                }
            }
        }
    })
}

// ---------------------------------------------------------------------------

pub fn def(tier: Tier) -> CheckDef {
    let quick = tier == Tier::Quick;
    let ml = tier.pick(3u32, 4u32);
    let mut subs = vec![];
    for fam in [Fam::Ranges, Fam::Loc, Fam::Rle, Fam::Lle] {
        subs.push(direct_sub(fam, ml));
    }
    subs.push(direct_sub(Fam::GnuLle, tier.pick(3, 5)));
    subs.push(lookup_sub());
    subs.push(long_expr_sub());
    subs.push(plumb_sub(false, tier.pick(2, 3), quick));
    subs.push(plumb_sub(true, tier.pick(2, 3), quick));
    subs.push(die_sub());
    subs.push(any_sub(false, 3, tier.pick(3, 4), quick));
    subs.push(any_sub(true, 3, 3, quick));
    let mut req: Vec<String> = vec![];
    for fam in [Fam::Ranges, Fam::Loc] {
        for k in ["legacy_pair", "legacy_base", "early-terminator"] {
            req.push(format!("kind:{}:{}", fam.name(), k));
        }
    }
    for fam in [Fam::Rle, Fam::Lle] {
        for k in ["base_addressx", "startx_endx", "startx_length", "offset_pair", "base_address", "start_end", "start_length", "early-terminator"] {
            req.push(format!("kind:{}:{}", fam.name(), k));
        }
    }
    req.push("kind:debug_loclists:default_location".into());
    for k in ["base_addressx", "startx_endx", "startx_length", "early-terminator"] {
        req.push(format!("kind:gnu_dwo_loc:{}", k));
    }
    for k in [
        "resolved:address-index-outside-table",
        "resolved:every-entry-yielded",
        "resolved:some-entry-excluded",
        "resolved:default-location",
        "lookup:address-ok",
        "lookup:address-index-past-end",
        "lookup:offset-ok",
        "lookup:offset-index-past-end",
        "die:no-low_pc",
        "die:low_pc-only(open)",
        "die:low-high-address",
        "die:low-plus-offset",
        "die:ranges-list",
        "die:end-is-2^64(unrepresentable)",
        "die:end-beyond-address-space(ill-formed)",
        "die:empty-or-inverted(ill-formed)",
        "any-input:ranges-yielded",
    ] {
        req.push(k.into());
    }
    CheckDef {
        level: "exploration",
        rule: "one case = one abstract list (sequence of entry instances) with all its configurations, or one byte-string prefix with all its extensions; distinct_nontrivial counts distinct lists / attribute combinations / (string, size, base) triples; evaluations counts calls of a gimli iterator or lookup".into(),
        assumptions: vec![
            "Address arithmetic is modulo 2^(8*address_size); a range whose end wraps to <= begin is excluded by the property's non-empty clause.".into(),
            "Excluded from the expected output exactly as the property states: begin >= end, begin >= 2^n-2 (tombstones -2/-1), offset pairs whose base address is a tombstone.".into(),
            "DW_LLE_default_location has no address range in the standard; any yielded range with begin 0 that covers every address below the tombstones is accepted.".into(),
            "An entry naming an address index outside .debug_addr must surface as Err after the correctly resolved prefix (the table ends at the section end).".into(),
            "die_ranges without DW_AT_ranges is one range, not a list: compared only on well-formed input (low < high or low + size <= 2^n and representable); low_pc alone, negative sdata, empty/inverted and out-of-address-space sums are left open; a panic is always a violation.".into(),
            "GNU split-DWARF location lists: only the four entry kinds of the GNU DebugFission specification (0..=3) are generated; kinds 4..=8 in a v4 .dwo list are outside the specification and only covered by the any-input clause.".into(),
            "Trusted: mcx::enc::Enc, mcx::leb, the encoder and resolver in gv/src/bin/lists/model.rs (constants transcribed from DWARF 5 tables 7.10/7.30 and sections 7.5, 7.27-7.29).".into(),
            "Not decided here: corpus lists compared with llvm-dwarfdump (different family); lists longer than the stated bound.".into(),
        ],
        subs,
        required_outcomes: req,
    }
}
