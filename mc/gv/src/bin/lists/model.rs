//! Abstract range/location lists, an independent byte encoder and the
//! reference resolver for C08/C16. Nothing here uses gimli.
//!
//! Entry-kind numbers are transcribed from the DWARF 5 standard:
//!   section 7.25 / table 7.30 (DW_RLE_*): end_of_list 0x00, base_addressx 0x01,
//!     startx_endx 0x02, startx_length 0x03, offset_pair 0x04, base_address 0x05,
//!     start_end 0x06, start_length 0x07;
//!   section 7.7.3 / table 7.10 (DW_LLE_*): end_of_list 0x00, base_addressx 0x01,
//!     startx_endx 0x02, startx_length 0x03, offset_pair 0x04, default_location 0x05,
//!     base_address 0x06, start_end 0x07, start_length 0x08;
//!   GNU DebugFission (DWARF 4 .debug_loc.dwo): DW_LLE_GNU_end_of_list_entry 0,
//!     DW_LLE_GNU_base_address_selection_entry 1 (ULEB index),
//!     DW_LLE_GNU_start_end_entry 2 (two ULEB indices),
//!     DW_LLE_GNU_start_length_entry 3 (ULEB index, 4-byte length); bounded entries are
//!     followed by a 2-byte expression length and the expression;
//!   DWARF 2-4 section 2.17.3 / 2.6.2 (.debug_ranges / .debug_loc): pairs of
//!     address-sized values; (0,0) terminates; (all-ones, A) selects base address A;
//!     location entries carry a 2-byte block length and the block.
//! Headers: DWARF 5 section 7.28 (.debug_rnglists), 7.29 (.debug_loclists),
//! 7.27 (.debug_addr).

use mcx::enc::Enc;

/// Like `Ctx::fail_panic`, but the site is made relative to the crate root
/// (`src/...`) whatever directory the gimli sources were built from, so that a
/// known finding keeps its key when the check runs against a scratch copy of
/// the tree (mutant runs).
pub fn fail_panic(ctx: &mut mcx::Ctx, entry: &str, p: &mcx::Panic, case: String) {
    let mut site = p.site();
    if let Some(pos) = site.find("src/") {
        site = site[pos..].to_string();
    }
    ctx.fail(entry, &site, &p.kind(), format!("panic '{}' at {}:{} on {}", p.msg, p.file, p.line, case));
}

pub fn ones(size: u8) -> u64 {
    if size >= 8 {
        u64::MAX
    } else {
        (1u64 << (8 * size as u32)) - 1
    }
}

/// Boundary address set B(size) = {0,1,0x10,0x20,max-2,max-1,max}.
pub fn bset(size: u8) -> [u64; 7] {
    let m = ones(size);
    [0, 1, 0x10, 0x20, m - 2, m - 1, m]
}

/// The three location descriptions used by location-list entries (opaque to
/// list reading): empty, one byte (DW_OP_reg0), 200 bytes of DW_OP_nop.
pub fn expr_bytes(x: u8) -> Vec<u8> {
    match x {
        0 => vec![],
        1 => vec![0x50],
        _ => vec![0x96; 200],
    }
}

#[derive(Clone, Copy, Debug, PartialEq, Eq, Hash)]
pub enum Fam {
    /// .debug_ranges (DWARF 2-4)
    Ranges,
    /// .debug_loc (DWARF 2-4)
    Loc,
    /// .debug_rnglists (DWARF 5)
    Rle,
    /// .debug_loclists (DWARF 5)
    Lle,
    /// GNU split-DWARF .debug_loc.dwo (DWARF 4 fission)
    GnuLle,
}

impl Fam {
    pub fn is_loc(self) -> bool {
        matches!(self, Fam::Loc | Fam::Lle | Fam::GnuLle)
    }
    pub fn name(self) -> &'static str {
        match self {
            Fam::Ranges => "debug_ranges",
            Fam::Loc => "debug_loc",
            Fam::Rle => "debug_rnglists",
            Fam::Lle => "debug_loclists",
            Fam::GnuLle => "gnu_dwo_loc",
        }
    }
}

/// One abstract list entry. The trailing `u8` of bounded entries selects the
/// location description (ignored by range-list families).
#[derive(Clone, Debug, PartialEq, Eq, Hash)]
pub enum E {
    /// A terminator in the middle of the abstract list: everything after it is
    /// not part of the list.
    End,
    /// legacy (begin, end) pair
    LPair(u64, u64, u8),
    /// legacy base address selection (all-ones, addr)
    LBase(u64),
    Basex(u64),
    SxEx(u64, u64, u8),
    SxLen(u64, u64, u8),
    OffPair(u64, u64, u8),
    Default(u8),
    Base(u64),
    StartEnd(u64, u64, u8),
    StartLen(u64, u64, u8),
}

impl E {
    pub fn kind(&self) -> &'static str {
        match self {
            E::End => "end",
            E::LPair(..) => "legacy_pair",
            E::LBase(..) => "legacy_base",
            E::Basex(..) => "base_addressx",
            E::SxEx(..) => "startx_endx",
            E::SxLen(..) => "startx_length",
            E::OffPair(..) => "offset_pair",
            E::Default(..) => "default_location",
            E::Base(..) => "base_address",
            E::StartEnd(..) => "start_end",
            E::StartLen(..) => "start_length",
        }
    }
}

pub fn render(list: &[E]) -> String {
    let mut s = String::from("[");
    for (i, e) in list.iter().enumerate() {
        if i > 0 {
            s.push_str(", ");
        }
        match e {
            E::End => s.push_str("end"),
            E::LPair(b, e, x) => s.push_str(&format!("pair({:#x},{:#x};x{})", b, e, x)),
            E::LBase(a) => s.push_str(&format!("base_sel({:#x})", a)),
            E::Basex(i) => s.push_str(&format!("base_addressx({})", i)),
            E::SxEx(a, b, x) => s.push_str(&format!("startx_endx({},{};x{})", a, b, x)),
            E::SxLen(a, b, x) => s.push_str(&format!("startx_length({},{:#x};x{})", a, b, x)),
            E::OffPair(a, b, x) => s.push_str(&format!("offset_pair({:#x},{:#x};x{})", a, b, x)),
            E::Default(x) => s.push_str(&format!("default_location(x{})", x)),
            E::Base(a) => s.push_str(&format!("base_address({:#x})", a)),
            E::StartEnd(a, b, x) => s.push_str(&format!("start_end({:#x},{:#x};x{})", a, b, x)),
            E::StartLen(a, b, x) => s.push_str(&format!("start_length({:#x},{:#x};x{})", a, b, x)),
        }
    }
    s.push(']');
    s
}

fn put_expr(out: &mut Enc, fam: Fam, x: u8) {
    let b = expr_bytes(x);
    match fam {
        Fam::Ranges | Fam::Rle => {}
        Fam::Loc | Fam::GnuLle => {
            out.u16(b.len() as u16);
            out.bytes(&b);
        }
        Fam::Lle => {
            out.uleb(b.len() as u64);
            out.bytes(&b);
        }
    }
}

/// Encode one entry. Panics on an entry that does not belong to `fam` (a
/// harness bug, not an input).
pub fn encode_entry(out: &mut Enc, fam: Fam, e: &E, size: u8) {
    match fam {
        Fam::Ranges | Fam::Loc => match *e {
            E::End => {
                out.addr(0, size);
                out.addr(0, size);
            }
            E::LPair(b, en, x) => {
                out.addr(b, size);
                out.addr(en, size);
                put_expr(out, fam, x);
            }
            E::LBase(a) => {
                out.addr(ones(size), size);
                out.addr(a, size);
            }
            _ => panic!("entry {:?} not in legacy family", e),
        },
        Fam::Rle => match *e {
            E::End => {
                out.u8(0x00);
            }
            E::Basex(i) => {
                out.u8(0x01);
                out.uleb(i);
            }
            E::SxEx(a, b, _) => {
                out.u8(0x02);
                out.uleb(a);
                out.uleb(b);
            }
            E::SxLen(a, l, _) => {
                out.u8(0x03);
                out.uleb(a);
                out.uleb(l);
            }
            E::OffPair(a, b, _) => {
                out.u8(0x04);
                out.uleb(a);
                out.uleb(b);
            }
            E::Base(a) => {
                out.u8(0x05);
                out.addr(a, size);
            }
            E::StartEnd(a, b, _) => {
                out.u8(0x06);
                out.addr(a, size);
                out.addr(b, size);
            }
            E::StartLen(a, l, _) => {
                out.u8(0x07);
                out.addr(a, size);
                out.uleb(l);
            }
            _ => panic!("entry {:?} not in RLE family", e),
        },
        Fam::Lle => match *e {
            E::End => {
                out.u8(0x00);
            }
            E::Basex(i) => {
                out.u8(0x01);
                out.uleb(i);
            }
            E::SxEx(a, b, x) => {
                out.u8(0x02);
                out.uleb(a);
                out.uleb(b);
                put_expr(out, fam, x);
            }
            E::SxLen(a, l, x) => {
                out.u8(0x03);
                out.uleb(a);
                out.uleb(l);
                put_expr(out, fam, x);
            }
            E::OffPair(a, b, x) => {
                out.u8(0x04);
                out.uleb(a);
                out.uleb(b);
                put_expr(out, fam, x);
            }
            E::Default(x) => {
                out.u8(0x05);
                put_expr(out, fam, x);
            }
            E::Base(a) => {
                out.u8(0x06);
                out.addr(a, size);
            }
            E::StartEnd(a, b, x) => {
                out.u8(0x07);
                out.addr(a, size);
                out.addr(b, size);
                put_expr(out, fam, x);
            }
            E::StartLen(a, l, x) => {
                out.u8(0x08);
                out.addr(a, size);
                out.uleb(l);
                put_expr(out, fam, x);
            }
            _ => panic!("entry {:?} not in LLE family", e),
        },
        Fam::GnuLle => match *e {
            E::End => {
                out.u8(0);
            }
            E::Basex(i) => {
                out.u8(1);
                out.uleb(i);
            }
            E::SxEx(a, b, x) => {
                out.u8(2);
                out.uleb(a);
                out.uleb(b);
                put_expr(out, fam, x);
            }
            E::SxLen(a, l, x) => {
                out.u8(3);
                out.uleb(a);
                out.u32(l as u32);
                put_expr(out, fam, x);
            }
            _ => panic!("entry {:?} not in GNU LLE family", e),
        },
    }
}

/// Encode a whole list followed by its terminator.
pub fn encode_list(out: &mut Enc, fam: Fam, list: &[E], size: u8) {
    for e in list {
        encode_entry(out, fam, e, size);
    }
    encode_entry(out, fam, &E::End, size);
}

/// `.debug_rnglists` / `.debug_loclists` header (DWARF 5 7.28/7.29) for a body
/// `offsets ++ lists`; returns the section contribution. The value that
/// DW_AT_rnglists_base / DW_AT_loclists_base must hold is the offset of the
/// first byte after the header, i.e. `start + header_size(fmt64)`.
pub fn lists_contribution(big: bool, fmt64: bool, size: u8, offsets: &[u64], lists: &[u8]) -> Vec<u8> {
    let mut body = Enc::new(big);
    body.u16(5);
    body.u8(size);
    body.u8(0);
    body.u32(offsets.len() as u32);
    for &o in offsets {
        body.offset(o, fmt64);
    }
    body.bytes(lists);
    let mut out = Enc::new(big);
    out.with_length(fmt64, &body);
    out.buf
}

pub fn lists_header_size(fmt64: bool) -> u64 {
    (if fmt64 { 12 } else { 4 }) + 2 + 1 + 1 + 4
}

/// `.debug_addr` contribution (DWARF 5 7.27): header then addresses.
pub fn addr_contribution(big: bool, fmt64: bool, size: u8, addrs: &[u64]) -> Vec<u8> {
    let mut body = Enc::new(big);
    body.u16(5);
    body.u8(size);
    body.u8(0);
    for &a in addrs {
        body.addr(a, size);
    }
    let mut out = Enc::new(big);
    out.with_length(fmt64, &body);
    out.buf
}

pub fn addr_header_size(fmt64: bool) -> u64 {
    (if fmt64 { 12 } else { 4 }) + 2 + 1 + 1
}

/// One resolved item.
#[derive(Clone, Debug, PartialEq, Eq)]
pub struct Y {
    pub begin: u64,
    pub end: u64,
    pub x: u8,
    /// default location: no address range is defined for it by the standard
    pub default: bool,
}

/// Result of the reference resolution: the items the standard defines, in
/// order, and whether resolution stopped at an entry that names an address
/// index outside the table.
#[derive(Clone, Debug, PartialEq, Eq)]
pub struct Resolved {
    pub items: Vec<Y>,
    pub bad_index: bool,
}

/// Reference resolver. Address arithmetic is modulo 2^(8*size) (addresses are
/// `size`-byte quantities). Excluded, exactly as the property states: ranges
/// that are empty or inverted (begin >= end), ranges that begin at a tombstone
/// (begin >= max-1, i.e. -2 or -1), and offset pairs under a tombstone base.
pub fn resolve(list: &[E], size: u8, unit_base: u64, table: &[u64]) -> Resolved {
    let m = ones(size);
    let tomb = m - 1;
    let add = |a: u64, b: u64| a.wrapping_add(b) & m;
    let mut base = unit_base;
    let mut items = vec![];
    let get = |i: u64| -> Option<u64> { table.get(usize::try_from(i).ok()?).copied() };
    for e in list {
        let (b, en, x) = match *e {
            E::End => break,
            E::LBase(a) | E::Base(a) => {
                base = a;
                continue;
            }
            E::Basex(i) => match get(i) {
                Some(a) => {
                    base = a;
                    continue;
                }
                None => return Resolved { items, bad_index: true },
            },
            E::LPair(b, en, x) | E::OffPair(b, en, x) => {
                if base >= tomb {
                    continue;
                }
                (add(base, b), add(base, en), x)
            }
            E::StartEnd(b, en, x) => (b, en, x),
            E::StartLen(b, l, x) => (b, add(b, l), x),
            E::SxEx(i, j, x) => match (get(i), get(j)) {
                (Some(b), Some(en)) => (b, en, x),
                _ => return Resolved { items, bad_index: true },
            },
            E::SxLen(i, l, x) => match get(i) {
                Some(b) => (b, add(b, l), x),
                None => return Resolved { items, bad_index: true },
            },
            E::Default(x) => {
                items.push(Y { begin: 0, end: m, x, default: true });
                continue;
            }
        };
        if b >= tomb || b >= en {
            continue;
        }
        items.push(Y { begin: b, end: en, x, default: false });
    }
    Resolved { items, bad_index: false }
}

/// The raw entries a faithful raw iterator must expose: the abstract entries
/// up to (excluding) the first terminator.
pub fn raw_expected(list: &[E]) -> &[E] {
    match list.iter().position(|e| *e == E::End) {
        Some(p) => &list[..p],
        None => list,
    }
}

// ---------------------------------------------------------------------------
// Minimal .debug_abbrev / .debug_info encoder (DWARF 5 section 7.5; DWARF 2-4
// section 7.5). Constants transcribed from the standard's tables 7.3-7.6.

pub const DW_TAG_COMPILE_UNIT: u64 = 0x11;
pub const DW_TAG_SUBPROGRAM: u64 = 0x2e;
pub const DW_AT_LOCATION: u64 = 0x02;
pub const DW_AT_LOW_PC: u64 = 0x11;
pub const DW_AT_HIGH_PC: u64 = 0x12;
pub const DW_AT_RANGES: u64 = 0x55;
pub const DW_AT_ADDR_BASE: u64 = 0x73;
pub const DW_AT_RNGLISTS_BASE: u64 = 0x74;
pub const DW_AT_LOCLISTS_BASE: u64 = 0x8c;
pub const DW_AT_GNU_RANGES_BASE: u64 = 0x2132;
pub const DW_AT_GNU_ADDR_BASE: u64 = 0x2133;
pub const DW_FORM_ADDR: u64 = 0x01;
pub const DW_FORM_DATA2: u64 = 0x05;
pub const DW_FORM_DATA4: u64 = 0x06;
pub const DW_FORM_DATA8: u64 = 0x07;
pub const DW_FORM_DATA1: u64 = 0x0b;
pub const DW_FORM_SDATA: u64 = 0x0d;
pub const DW_FORM_UDATA: u64 = 0x0f;
pub const DW_FORM_SEC_OFFSET: u64 = 0x17;
pub const DW_FORM_ADDRX: u64 = 0x1b;
pub const DW_FORM_LOCLISTX: u64 = 0x22;
pub const DW_FORM_RNGLISTX: u64 = 0x23;
pub const DW_FORM_ADDRX1: u64 = 0x29;
pub const DW_FORM_GNU_ADDR_INDEX: u64 = 0x1f01;
pub const DW_UT_COMPILE: u8 = 0x01;
pub const DW_UT_SKELETON: u8 = 0x04;
pub const DW_UT_SPLIT_COMPILE: u8 = 0x05;

#[derive(Clone, Debug)]
pub struct Attr {
    pub at: u64,
    pub form: u64,
    pub val: u64,
}

pub fn attr(at: u64, form: u64, val: u64) -> Attr {
    Attr { at, form, val }
}

#[derive(Clone, Debug)]
pub struct UnitSpec {
    pub version: u16,
    pub fmt64: bool,
    pub size: u8,
    pub big: bool,
    /// v5 only: emit DW_UT_split_compile (with a dwo id) instead of DW_UT_compile
    pub split: bool,
    /// v5 only: emit DW_UT_skeleton (with a dwo id)
    pub skeleton: bool,
    pub root: Vec<Attr>,
    /// attributes of the single DW_TAG_subprogram child (None = no child)
    pub child: Option<Vec<Attr>>,
}

fn put_form(out: &mut Enc, a: &Attr, u: &UnitSpec) {
    match a.form {
        DW_FORM_ADDR => {
            out.addr(a.val, u.size);
        }
        DW_FORM_DATA1 | DW_FORM_ADDRX1 => {
            out.u8(a.val as u8);
        }
        DW_FORM_DATA2 => {
            out.u16(a.val as u16);
        }
        DW_FORM_DATA4 => {
            out.u32(a.val as u32);
        }
        DW_FORM_DATA8 => {
            out.u64(a.val);
        }
        DW_FORM_SDATA => {
            out.sleb(a.val as i64);
        }
        DW_FORM_UDATA | DW_FORM_ADDRX | DW_FORM_LOCLISTX | DW_FORM_RNGLISTX | DW_FORM_GNU_ADDR_INDEX => {
            out.uleb(a.val);
        }
        DW_FORM_SEC_OFFSET => {
            out.offset(a.val, u.fmt64);
        }
        f => panic!("form {:#x} not supported by the harness encoder", f),
    }
}

/// Returns (.debug_info, .debug_abbrev). One unit; root DIE (abbrev 1) and an
/// optional child (abbrev 2).
pub fn encode_unit(u: &UnitSpec) -> (Vec<u8>, Vec<u8>) {
    let mut ab = Enc::new(u.big);
    ab.uleb(1);
    ab.uleb(DW_TAG_COMPILE_UNIT);
    ab.u8(if u.child.is_some() { 1 } else { 0 });
    for a in &u.root {
        ab.uleb(a.at);
        ab.uleb(a.form);
    }
    ab.uleb(0);
    ab.uleb(0);
    if let Some(c) = &u.child {
        ab.uleb(2);
        ab.uleb(DW_TAG_SUBPROGRAM);
        ab.u8(0);
        for a in c {
            ab.uleb(a.at);
            ab.uleb(a.form);
        }
        ab.uleb(0);
        ab.uleb(0);
    }
    ab.uleb(0);

    let mut body = Enc::new(u.big);
    body.u16(u.version);
    if u.version >= 5 {
        body.u8(if u.split {
            DW_UT_SPLIT_COMPILE
        } else if u.skeleton {
            DW_UT_SKELETON
        } else {
            DW_UT_COMPILE
        });
        body.u8(u.size);
        body.offset(0, u.fmt64);
        if u.split || u.skeleton {
            body.u64(0x1122_3344_5566_7788);
        }
    } else {
        body.offset(0, u.fmt64);
        body.u8(u.size);
    }
    body.uleb(1);
    for a in &u.root {
        put_form(&mut body, a, u);
    }
    if let Some(c) = &u.child {
        body.uleb(2);
        for a in c {
            put_form(&mut body, a, u);
        }
        body.u8(0);
    }
    let mut info = Enc::new(u.big);
    info.with_length(u.fmt64, &body);
    (info.buf, ab.buf)
}
