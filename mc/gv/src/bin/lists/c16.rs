//! C16: range and location lists added through gimli::write read back as the
//! same lists; equal lists share one id and one emitted copy; lists that the
//! chosen encoding cannot represent are rejected.
use crate::c08::{same_items, Got};
use crate::model::{self as m, E, Y};
use gimli::read::{self, EndianSlice};
use gimli::write::{self, Address, AttributeValue, DwarfUnit, EndianVec, Sections};
use gimli::{Encoding, Format, RunTimeEndian, SectionId};
use mcx::space::{seq_count, seq_decode};
use mcx::{guard, CheckDef, Ctx, Sub, Tier};

type R<'a> = EndianSlice<'a, RunTimeEndian>;

/// Value of symbol 0 for the symbol-resolving writer below.
const SYM0: u64 = 0x1800;

/// `EndianVec` whose `write_address` resolves `Address::Symbol { symbol: 0, addend }` to
/// `SYM0 + addend` (the stock writer rejects symbolic addresses), so that a unit whose
/// DW_AT_low_pc is symbolic can be written and read back.
#[derive(Clone, Debug)]
pub struct SymVec(EndianVec<RunTimeEndian>);
impl SymVec {
    pub fn new(e: RunTimeEndian) -> SymVec {
        SymVec(EndianVec::new(e))
    }
    pub fn slice(&self) -> &[u8] {
        self.0.slice()
    }
}
impl write::Writer for SymVec {
    type Endian = RunTimeEndian;
    fn endian(&self) -> RunTimeEndian {
        self.0.endian()
    }
    fn len(&self) -> usize {
        self.0.len()
    }
    fn write(&mut self, bytes: &[u8]) -> write::Result<()> {
        self.0.write(bytes)
    }
    fn write_at(&mut self, offset: usize, bytes: &[u8]) -> write::Result<()> {
        self.0.write_at(offset, bytes)
    }
    fn write_address(&mut self, address: Address, size: u8) -> write::Result<()> {
        match address {
            Address::Constant(v) => self.write_udata(v, size),
            Address::Symbol { symbol: 0, addend } => self.write_udata(SYM0.wrapping_add(addend as u64), size),
            Address::Symbol { .. } => Err(write::Error::InvalidAddress),
        }
    }
}

/// Entry alphabet for the writer (addresses/lengths from B(size)).
pub fn alphabet(loc: bool, size: u8) -> Vec<E> {
    let mx = m::ones(size);
    let x = |i: u8| if loc { i } else { 0 };
    let mut v = vec![
        E::Base(0),
        E::Base(0x10),
        E::Base(mx - 1),
        E::Base(mx),
        E::OffPair(0x10, 0x20, x(1)),
        E::OffPair(0x20, 0x10, x(0)),
        E::OffPair(0x10, 0x10, x(1)),
        E::OffPair(0, 0, x(2)),
        E::OffPair(0, 1, x(2)),
        E::OffPair(mx, 1, x(1)),
        E::OffPair(mx - 2, mx, x(0)),
        E::OffPair(1, mx, x(1)),
        E::StartEnd(0x10, 0x20, x(2)),
        E::StartEnd(0x20, 0x20, x(1)),
        E::StartEnd(0, 1, x(0)),
        E::StartEnd(mx, 0x10, x(1)),
        E::StartEnd(mx - 1, mx, x(1)),
        E::StartEnd(0, mx, x(2)),
        E::StartEnd(mx - 2, mx - 1, x(0)),
        E::StartLen(0x10, 0x10, x(1)),
        E::StartLen(0x10, 0, x(0)),
        E::StartLen(mx, 2, x(1)),
        E::StartLen(mx - 2, 2, x(2)),
        E::StartLen(mx - 2, 3, x(1)),
        E::StartLen(0, mx, x(0)),
    ];
    if loc {
        v.push(E::Default(1));
        // an expression that needs the offsets of the unit's entries
        v.push(E::Default(2));
    }
    v
}

/// 8-instance alphabet for the several-lists-per-unit sub.
fn small_alphabet(loc: bool, size: u8) -> Vec<E> {
    let mx = m::ones(size);
    let x = |i: u8| if loc { i } else { 0 };
    vec![
        E::Base(0x10),
        E::OffPair(0x10, 0x20, x(1)),
        E::OffPair(1, 2, x(2)),
        E::StartEnd(0x10, 0x20, x(1)),
        E::StartEnd(mx - 2, mx - 1, x(0)),
        E::StartLen(0x10, 0x10, x(2)),
        E::StartLen(mx - 2, 2, x(1)),
        if loc { E::Default(1) } else { E::OffPair(0x10, 0x10, 0) },
    ]
}

#[derive(Clone, Copy, Debug)]
pub struct WCfg {
    version: u16,
    fmt64: bool,
    size: u8,
    /// 0 absent, 1 DW_AT_low_pc = 0, 2 DW_AT_low_pc = 0x1000, 3 DW_AT_low_pc = symbol 0 + 0x800 (= 0x2000)
    low: u8,
    big: bool,
}

impl WCfg {
    fn low_pc(&self) -> Option<u64> {
        match self.low {
            0 => None,
            1 => Some(0),
            2 => Some(0x1000),
            _ => Some(SYM0 + 0x800),
        }
    }
    fn render(&self) -> String {
        format!("version={} format={} size={} low_pc={:x?} endian={}", self.version, if self.fmt64 { 64 } else { 32 }, self.size, self.low_pc(), if self.big { "big" } else { "little" })
    }
    fn encoding(&self) -> Encoding {
        Encoding { version: self.version, format: if self.fmt64 { Format::Dwarf64 } else { Format::Dwarf32 }, address_size: self.size }
    }
}

fn wconfigs() -> Vec<WCfg> {
    let mut out = vec![];
    for version in [2u16, 3, 4, 5] {
        for fmt64 in [false, true] {
            for size in [2u8, 4, 8] {
                for low in 0..4u8 {
                    // endianness alternates with the other dimensions (both occur for every version/size)
                    let big = (fmt64 as u8 + low) % 2 == 1;
                    out.push(WCfg { version, fmt64, size, low, big });
                }
            }
        }
    }
    out
}

#[derive(Clone, Copy, Debug, PartialEq, Eq)]
pub enum Verdict {
    MustReject(&'static str),
    May,
    MustAccept,
}

/// Which lists the chosen encoding cannot represent unambiguously.
pub fn verdict(list: &[E], version: u16, size: u8, low_pc: Option<u64>) -> Verdict {
    let mx = m::ones(size);
    let mut base: Option<u64> = low_pc;
    let mut must: Option<&'static str> = None;
    let mut may = false;
    let mut set = |r: &'static str| {
        if must.is_none() {
            must = Some(r);
        }
    };
    for e in list {
        match *e {
            E::Base(a) => base = Some(a),
            E::OffPair(b, en, _) => {
                if version < 5 {
                    if b == en {
                        set("empty-range");
                    } else if b == mx {
                        set("begin-is-base-selection-marker");
                    }
                    match base {
                        None => set("offset-pair-needs-base"),
                        Some(0) => may = true,
                        Some(_) => {}
                    }
                } else if b == en {
                    may = true;
                }
                if b > en {
                    may = true;
                }
            }
            E::StartEnd(b, en, _) => {
                if version < 5 {
                    if b == en {
                        set("empty-range");
                    } else if b == mx {
                        set("begin-is-base-selection-marker");
                    }
                    match base {
                        None => {}
                        Some(0) => may = true,
                        Some(_) => set("address-pair-conflicts-with-base"),
                    }
                } else if b == en {
                    may = true;
                }
                if b > en {
                    may = true;
                }
            }
            E::StartLen(b, l, _) => {
                let end = b as u128 + l as u128;
                if version < 5 {
                    if l == 0 {
                        set("empty-range");
                    } else if b == mx {
                        set("begin-is-base-selection-marker");
                    } else if end > mx as u128 {
                        set("end-not-representable");
                    }
                    match base {
                        None => {}
                        Some(0) => may = true,
                        Some(_) => set("address-pair-conflicts-with-base"),
                    }
                } else if l == 0 || end > mx as u128 {
                    may = true;
                }
            }
            E::Default(_) => {
                if version < 5 {
                    set("default-location-before-v5");
                }
            }
            _ => panic!("entry {:?} not writable", e),
        }
    }
    match (must, may) {
        (Some(r), _) => Verdict::MustReject(r),
        (None, true) => Verdict::May,
        (None, false) => Verdict::MustAccept,
    }
}

fn w_range(e: &E) -> write::Range {
    match *e {
        E::Base(a) => write::Range::BaseAddress { address: Address::Constant(a) },
        E::OffPair(b, en, _) => write::Range::OffsetPair { begin: b, end: en },
        E::StartEnd(b, en, _) => write::Range::StartEnd { begin: Address::Constant(b), end: Address::Constant(en) },
        E::StartLen(b, l, _) => write::Range::StartLength { begin: Address::Constant(b), length: l },
        _ => panic!("not a range entry"),
    }
}

fn w_expr(x: u8, target: write::UnitEntryId) -> write::Expression {
    match x {
        0 => write::Expression::new(),
        1 => write::Expression::raw(vec![0x50]),
        _ => {
            let mut e = write::Expression::new();
            e.op_call(target);
            e
        }
    }
}

fn w_loc(e: &E, target: write::UnitEntryId) -> write::Location {
    match *e {
        E::Base(a) => write::Location::BaseAddress { address: Address::Constant(a) },
        E::OffPair(b, en, x) => write::Location::OffsetPair { begin: b, end: en, data: w_expr(x, target) },
        E::StartEnd(b, en, x) => write::Location::StartEnd { begin: Address::Constant(b), end: Address::Constant(en), data: w_expr(x, target) },
        E::StartLen(b, l, x) => write::Location::StartLength { begin: Address::Constant(b), length: l, data: w_expr(x, target) },
        E::Default(x) => write::Location::DefaultLocation { data: w_expr(x, target) },
        _ => panic!("not a location entry"),
    }
}

struct Written {
    sections: Sections<SymVec>,
    /// list ids as raw equality classes: ids[i] == ids[j]
    same_id: Vec<Vec<bool>>,
}

/// Build a unit holding `lists` (one DW_TAG_subprogram / DW_TAG_variable child
/// per list, in order) and write it.
fn write_unit(c: &WCfg, loc: bool, lists: &[Vec<E>]) -> Result<Written, write::Error> {
    let mut du = DwarfUnit::new(c.encoding());
    let root = du.unit.root();
    if let Some(l) = c.low_pc() {
        let a = if c.low == 3 { Address::Symbol { symbol: 0, addend: 0x800 } } else { Address::Constant(l) };
        du.unit.get_mut(root).set(gimli::DW_AT_low_pc, AttributeValue::Address(a));
    }
    // the DIE that location descriptions refer to (first child)
    let target = du.unit.add(root, gimli::DW_TAG_dwarf_procedure);
    du.unit.get_mut(target).set(gimli::DW_AT_location, AttributeValue::Exprloc(write::Expression::raw(vec![0x96])));
    let mut rids = vec![];
    let mut lids = vec![];
    for l in lists {
        if loc {
            let id = du.unit.locations.add(write::LocationList(l.iter().map(|e| w_loc(e, target)).collect()));
            let die = du.unit.add(root, gimli::DW_TAG_variable);
            du.unit.get_mut(die).set(gimli::DW_AT_location, AttributeValue::LocationListRef(id));
            lids.push(id);
        } else {
            let id = du.unit.ranges.add(write::RangeList(l.iter().map(w_range).collect()));
            let die = du.unit.add(root, gimli::DW_TAG_subprogram);
            du.unit.get_mut(die).set(gimli::DW_AT_ranges, AttributeValue::RangeListRef(id));
            rids.push(id);
        }
    }
    let n = lists.len();
    let mut same_id = vec![vec![false; n]; n];
    for i in 0..n {
        for j in 0..n {
            same_id[i][j] = if loc { lids[i] == lids[j] } else { rids[i] == rids[j] };
        }
    }
    let mut sections = Sections::new(SymVec::new(if c.big { RunTimeEndian::Big } else { RunTimeEndian::Little }));
    du.write(&mut sections)?;
    Ok(Written { sections, same_id })
}

fn sec<'a>(s: &'a Sections<SymVec>, id: SectionId) -> &'a [u8] {
    s.get(id).map(|w| w.slice()).unwrap_or(&[])
}

struct ReadBack {
    /// per list DIE (in order): list offset, resolved items, raw entries
    lists: Vec<(u64, Got, Result<Vec<E>, String>)>,
    low_pc: u64,
}

/// x selector of a read-back location description: 0 empty, 1 = DW_OP_reg0,
/// 2 = exactly one DW_OP_call* naming the target DIE, 0xff otherwise.
fn read_sel(data: &read::Expression<R<'_>>, enc: Encoding, target: usize) -> u8 {
    let b = data.0.slice();
    if b.is_empty() {
        return 0;
    }
    if b == [0x50] {
        return 1;
    }
    let mut ops = data.clone().operations(enc);
    match ops.next() {
        Ok(Some(read::Operation::Call { offset: read::DieReference::UnitRef(o) })) if o.0 == target => match ops.next() {
            Ok(None) => 2,
            _ => 0xff,
        },
        _ => 0xff,
    }
}

fn read_back(w: &Written, c: &WCfg, loc: bool, nlists: usize, maxlen: usize) -> Result<ReadBack, String> {
    let en = if c.big { RunTimeEndian::Big } else { RunTimeEndian::Little };
    let d: read::Dwarf<R<'_>> = read::Dwarf::load(|id| -> Result<R<'_>, ()> { Ok(EndianSlice::new(sec(&w.sections, id), en)) }).unwrap();
    let hdr = d.units().next().map_err(|e| format!("units: {}", e))?.ok_or("no unit")?;
    let unit = d.unit(hdr).map_err(|e| format!("Dwarf::unit: {}", e))?;
    let enc = unit.encoding();
    if enc != c.encoding() {
        return Err(format!("unit encoding {:?} != requested {:?}", enc, c.encoding()));
    }
    let mut cur = unit.entries();
    cur.next_dfs().map_err(|e| e.to_string())?;
    let mut target = None;
    let mut out = vec![];
    let bound = maxlen + 3;
    while let Some(die) = cur.next_dfs().map_err(|e| e.to_string())? {
        if die.tag() == gimli::DW_TAG_dwarf_procedure {
            target = Some(die.offset().0);
            continue;
        }
        let t = target.ok_or("target DIE not first")?;
        let name = if loc { gimli::DW_AT_location } else { gimli::DW_AT_ranges };
        let val = die.attr_value(name).ok_or("list attribute missing")?;
        let mut items = vec![];
        if loc {
            let off = d.attr_locations_offset(&unit, val.clone()).map_err(|e| e.to_string())?.ok_or("attr_locations_offset: None")?;
            let raw = (|| -> Result<Vec<E>, String> {
                let mut it = d.raw_locations(&unit, off).map_err(|e| e.to_string())?;
                let mut v = vec![];
                for _ in 0..bound {
                    match it.next().map_err(|e| e.to_string())? {
                        None => return Ok(v),
                        Some(e) => v.push(match e {
                            read::RawLocListEntry::AddressOrOffsetPair { begin, end, data } => E::LPair(begin, end, read_sel(&data, enc, t)),
                            read::RawLocListEntry::BaseAddress { addr } => E::Base(addr),
                            read::RawLocListEntry::OffsetPair { begin, end, data } => E::OffPair(begin, end, read_sel(&data, enc, t)),
                            read::RawLocListEntry::DefaultLocation { data } => E::Default(read_sel(&data, enc, t)),
                            read::RawLocListEntry::StartEnd { begin, end, data } => E::StartEnd(begin, end, read_sel(&data, enc, t)),
                            read::RawLocListEntry::StartLength { begin, length, data } => E::StartLen(begin, length, read_sel(&data, enc, t)),
                            other => return Err(format!("unexpected raw entry {:?}", other)),
                        }),
                    }
                }
                Err("raw iterator did not end".into())
            })();
            let got = match d.attr_locations(&unit, val) {
                Ok(Some(mut it)) => {
                    let mut err = Some("iterator did not end".to_string());
                    for _ in 0..bound {
                        match it.next() {
                            Ok(Some(l)) => items.push(Y { begin: l.range.begin, end: l.range.end, x: read_sel(&l.data, enc, t), default: false }),
                            Ok(None) => {
                                err = None;
                                break;
                            }
                            Err(e) => {
                                err = Some(e.to_string());
                                break;
                            }
                        }
                    }
                    Got { items, err }
                }
                Ok(None) => return Err("attr_locations: None".into()),
                Err(e) => Got { items, err: Some(e.to_string()) },
            };
            out.push((off.0 as u64, got, raw));
        } else {
            let off = d.attr_ranges_offset(&unit, val.clone()).map_err(|e| e.to_string())?.ok_or("attr_ranges_offset: None")?;
            let raw = (|| -> Result<Vec<E>, String> {
                let mut it = d.raw_ranges(&unit, off).map_err(|e| e.to_string())?;
                let mut v = vec![];
                for _ in 0..bound {
                    match it.next().map_err(|e| e.to_string())? {
                        None => return Ok(v),
                        Some(e) => v.push(match e {
                            read::RawRngListEntry::AddressOrOffsetPair { begin, end } => E::LPair(begin, end, 0),
                            read::RawRngListEntry::BaseAddress { addr } => E::Base(addr),
                            read::RawRngListEntry::OffsetPair { begin, end } => E::OffPair(begin, end, 0),
                            read::RawRngListEntry::StartEnd { begin, end } => E::StartEnd(begin, end, 0),
                            read::RawRngListEntry::StartLength { begin, length } => E::StartLen(begin, length, 0),
                            other => return Err(format!("unexpected raw entry {:?}", other)),
                        }),
                    }
                }
                Err("raw iterator did not end".into())
            })();
            let got = match d.attr_ranges(&unit, val) {
                Ok(Some(mut it)) => {
                    let mut err = Some("iterator did not end".to_string());
                    for _ in 0..bound {
                        match it.next() {
                            Ok(Some(r)) => items.push(Y { begin: r.begin, end: r.end, x: 0, default: false }),
                            Ok(None) => {
                                err = None;
                                break;
                            }
                            Err(e) => {
                                err = Some(e.to_string());
                                break;
                            }
                        }
                    }
                    Got { items, err }
                }
                Ok(None) => return Err("attr_ranges: None".into()),
                Err(e) => Got { items, err: Some(e.to_string()) },
            };
            out.push((off.0 as u64, got, raw));
        }
    }
    if out.len() != nlists {
        return Err(format!("{} list DIEs read back, {} written", out.len(), nlists));
    }
    Ok(ReadBack { lists: out, low_pc: unit.low_pc })
}

/// The raw entries the written list must read back as.
fn raw_intended(list: &[E], version: u16) -> Vec<E> {
    list.iter()
        .map(|e| {
            if version >= 5 {
                e.clone()
            } else {
                match *e {
                    E::OffPair(b, en, x) | E::StartEnd(b, en, x) => E::LPair(b, en, x),
                    E::StartLen(b, l, x) => E::LPair(b, b.wrapping_add(l), x),
                    ref o => o.clone(),
                }
            }
        })
        .collect()
}

fn entries(loc: bool) -> (&'static str, &'static str) {
    if loc {
        ("write::LocationListTable", "Dwarf::attr_locations(written)")
    } else {
        ("write::RangeListTable", "Dwarf::attr_ranges(written)")
    }
}

fn render_sections(w: &Written, loc: bool, version: u16) -> String {
    let id = match (loc, version >= 5) {
        (false, false) => SectionId::DebugRanges,
        (false, true) => SectionId::DebugRngLists,
        (true, false) => SectionId::DebugLoc,
        (true, true) => SectionId::DebugLocLists,
    };
    let b = sec(&w.sections, id);
    format!("{}={}", id.name(), mcx::hex(&b[..b.len().min(160)]))
}

/// One unit with the given lists; checks verdict, read-back and de-duplication.
fn run_unit(ctx: &mut Ctx, c: &WCfg, loc: bool, lists: &[Vec<E>]) {
    let (e_w, e_r) = entries(loc);
    let case = || format!("{} lists={} {}", if loc { "locations" } else { "ranges" }, lists.iter().map(|l| m::render(l)).collect::<Vec<_>>().join(" | "), c.render());
    // overall verdict: the write is one operation over all lists
    let vs: Vec<Verdict> = lists.iter().map(|l| verdict(l, c.version, c.size, c.low_pc())).collect();
    let must = vs.iter().find_map(|v| if let Verdict::MustReject(r) = v { Some(*r) } else { None });
    let all_accept = vs.iter().all(|v| *v == Verdict::MustAccept);
    ctx.eval(1);
    let w = match guard(|| write_unit(c, loc, lists)) {
        Err(p) => {
            ctx.outcome("write:panic");
            m::fail_panic(ctx, e_w, &p, case());
            return;
        }
        Ok(Err(e)) => {
            ctx.outcome(&format!("write:err:{:?}", e));
            if all_accept {
                ctx.fail(e_w, "must-accept", "rejected-representable-list", format!("{} got Err({:?})", case(), e));
            } else if let Some(r) = must {
                ctx.outcome(&format!("rejected:{}", r));
            } else {
                ctx.outcome("rejected:open");
            }
            return;
        }
        Ok(Ok(w)) => w,
    };
    ctx.outcome("write:ok");
    if let Some(r) = must {
        let maxlen = lists.iter().map(|l| l.len()).max().unwrap_or(0);
        let back = match guard(|| read_back(&w, c, loc, lists.len(), maxlen)) {
            Ok(Ok(rb)) => format!("{:?}", rb.lists.iter().map(|x| (&x.2, &x.1.items)).collect::<Vec<_>>()),
            Ok(Err(e)) => format!("Err({})", e),
            Err(p) => format!("panic {}", p.msg),
        };
        let want: Vec<_> = lists.iter().map(|l| m::resolve(l, c.size, c.low_pc().unwrap_or(0), &[]).items).collect();
        ctx.fail(e_w, &format!("must-reject:{}", r), "accepted-unrepresentable-list", format!("{} written as {}; reads back as (raw, resolved) {}; intended ranges {:?}", case(), render_sections(&w, loc, c.version), back, want));
        return;
    }
    // section selection by version
    let (legacy, v5) = if loc { (SectionId::DebugLoc, SectionId::DebugLocLists) } else { (SectionId::DebugRanges, SectionId::DebugRngLists) };
    let (used, unused) = if c.version >= 5 { (v5, legacy) } else { (legacy, v5) };
    if sec(&w.sections, used).is_empty() || !sec(&w.sections, unused).is_empty() {
        ctx.fail(e_w, "section-by-version", "wrong-section", format!("{}: {} has {} bytes, {} has {} bytes", case(), used.name(), sec(&w.sections, used).len(), unused.name(), sec(&w.sections, unused).len()));
        return;
    }
    // ids: equal lists share one id, different lists do not
    for i in 0..lists.len() {
        for j in 0..lists.len() {
            if w.same_id[i][j] != (lists[i] == lists[j]) {
                ctx.fail(e_w, "dedup-id", "wrong-id-sharing", format!("{}: lists {} and {}: same id = {}", case(), i, j, w.same_id[i][j]));
                return;
            }
        }
    }
    let maxlen = lists.iter().map(|l| l.len()).max().unwrap_or(0);
    ctx.eval(1);
    let rb = match guard(|| read_back(&w, c, loc, lists.len(), maxlen)) {
        Err(p) => {
            m::fail_panic(ctx, e_r, &p, format!("{} {}", case(), render_sections(&w, loc, c.version)));
            return;
        }
        Ok(Err(e)) => {
            ctx.fail(e_r, "read-back", "unexpected-error", format!("{} {}: {}", case(), render_sections(&w, loc, c.version), e));
            return;
        }
        Ok(Ok(rb)) => rb,
    };
    if rb.low_pc != c.low_pc().unwrap_or(0) {
        ctx.fail(e_r, "unit-base", "wrong-base", format!("{} low_pc read back {:#x}", case(), rb.low_pc));
        return;
    }
    for (i, l) in lists.iter().enumerate() {
        let (off, got, raw) = &rb.lists[i];
        let want = m::resolve(l, c.size, c.low_pc().unwrap_or(0), &[]);
        let detail = || format!("{} list#{} {} offset={:#x}", case(), i, render_sections(&w, loc, c.version), off);
        match raw {
            Err(e) => {
                ctx.fail(e_r, "raw-read-back", "unexpected-error", format!("{}: {}", detail(), e));
                return;
            }
            Ok(r) => {
                let wr = raw_intended(l, c.version);
                if *r != wr {
                    ctx.fail(e_r, "raw-read-back", "wrong-entries", format!("{} raw {:?} want {:?}", detail(), r, wr));
                    return;
                }
            }
        }
        if got.err.is_some() || !same_items(&got.items, &want.items, c.size, loc) {
            ctx.fail(e_r, "read-back", "wrong-ranges", format!("{} got {:?} want {:?}", detail(), got, want.items));
            return;
        }
        // duplicates: one offset per distinct list
        for j in 0..i {
            let same_off = rb.lists[j].0 == *off;
            if same_off != (lists[i] == lists[j]) {
                ctx.fail(e_w, "dedup-offset", "wrong-offset-sharing", format!("{}: lists {} and {} offsets {:#x} {:#x}", detail(), j, i, rb.lists[j].0, off));
                return;
            }
        }
    }
    // one emitted copy: the section is as long as for the distinct lists alone
    let mut distinct: Vec<Vec<E>> = vec![];
    for l in lists {
        if !distinct.contains(l) {
            distinct.push(l.clone());
        }
    }
    if distinct.len() != lists.len() {
        ctx.outcome("dedup:duplicates-in-unit");
        ctx.eval(1);
        match guard(|| write_unit(c, loc, &distinct)) {
            Ok(Ok(w2)) => {
                let (a, b) = (sec(&w.sections, used).len(), sec(&w2.sections, used).len());
                if a != b {
                    ctx.fail(e_w, "dedup-one-copy", "duplicate-emitted", format!("{}: section length {} with duplicates, {} with the distinct lists only", case(), a, b));
                }
            }
            Ok(Err(e)) => ctx.fail(e_w, "dedup-one-copy", "unexpected-error", format!("{}: distinct lists alone rejected: {:?}", case(), e)),
            Err(p) => m::fail_panic(ctx, e_w, &p, case()),
        }
    }
    if ctx.want_sample() && maxlen >= 2 {
        ctx.sample(format!("{} -> {} read back {:?}", case(), render_sections(&w, loc, c.version), rb.lists.iter().map(|x| &x.1.items).collect::<Vec<_>>()));
    }
}

fn single_sub(loc: bool, maxlen: u32) -> Sub {
    let cfgs = wconfigs();
    let a2 = alphabet(loc, 2);
    let a4 = alphabet(loc, 4);
    let a8 = alphabet(loc, 8);
    let n = a4.len() as u64;
    let count = seq_count(n, 0, maxlen);
    let name = format!("write-{}-single-len<={}", if loc { "locations" } else { "ranges" }, maxlen);
    let bound = format!(
        "every list of 0..={} entries over the {}-instance writer alphabet (BaseAddress, OffsetPair, StartEnd, StartLength{} with addresses/lengths from B(size), expressions {{empty, DW_OP_reg0, DW_OP_call4 of a unit entry}}), one list per unit, under {} configurations: version {{2,3,4,5}} x format {{32,64}} x address size {{2,4,8}} x unit DW_AT_low_pc {{absent, 0, 0x1000, symbol+0x800 (resolved by the writer to 0x2000)}} (endianness alternating)",
        maxlen,
        n,
        if loc { ", DefaultLocation" } else { "" },
        cfgs.len()
    );
    Sub::new(&name, count, &bound, move |ctx, i| {
        let idx = seq_decode(n, 0, maxlen, i);
        let l4: Vec<E> = idx.iter().map(|&k| a4[k].clone()).collect();
        let l8: Vec<E> = idx.iter().map(|&k| a8[k].clone()).collect();
        let l2: Vec<E> = idx.iter().map(|&k| a2[k].clone()).collect();
        for e in &l4 {
            ctx.outcome(&format!("kind:{}:{}", if loc { "loc" } else { "range" }, e.kind()));
        }
        for c in &cfgs {
            let l = match c.size {
                2 => &l2,
                4 => &l4,
                _ => &l8,
            };
            run_unit(ctx, c, loc, std::slice::from_ref(l));
        }
        ctx.nontriv(1);
    })
}

fn multi_sub(loc: bool, nlists: u32, pool_len: u32) -> Sub {
    let cfgs = wconfigs();
    let a2 = small_alphabet(loc, 2);
    let a4 = small_alphabet(loc, 4);
    let a8 = small_alphabet(loc, 8);
    let n = a4.len() as u64;
    let pool = seq_count(n, 0, pool_len); // 9 or 73 lists
    let count = pool.pow(nlists);
    let name = format!("write-{}-{}-lists-per-unit-len<={}", if loc { "locations" } else { "ranges" }, nlists, pool_len);
    let bound = format!(
        "every ordered {}-tuple (duplicates included) of lists drawn from the {} lists of 0..={} entries over an 8-instance alphabet, all in one unit, under {} configurations (as above): ids shared exactly by equal lists, one offset and one emitted copy per distinct list, every list read back through its own DIE",
        nlists,
        pool,
        pool_len,
        cfgs.len()
    );
    Sub::new(&name, count, &bound, move |ctx, i| {
        let mut k = i;
        let mut idxs = vec![];
        for _ in 0..nlists {
            idxs.push(seq_decode(n, 0, pool_len, k % pool));
            k /= pool;
        }
        let m4: Vec<Vec<E>> = idxs.iter().map(|ix| ix.iter().map(|&k| a4[k].clone()).collect()).collect();
        let m8: Vec<Vec<E>> = idxs.iter().map(|ix| ix.iter().map(|&k| a8[k].clone()).collect()).collect();
        let m2: Vec<Vec<E>> = idxs.iter().map(|ix| ix.iter().map(|&k| a2[k].clone()).collect()).collect();
        for c in &cfgs {
            run_unit(
                ctx,
                c,
                loc,
                match c.size {
                    2 => &m2,
                    4 => &m4,
                    _ => &m8,
                },
            );
        }
        ctx.nontriv(1);
    })
}

/// Location lists whose expressions refer to entries (DW_OP_call_ref / DW_OP_implicit_pointer:
/// `DebugInfoRef` fix-ups into the list section) in tables of 1..=3 units of mixed versions,
/// written with `write::Dwarf::write`. Every reference must read back as the `.debug_info`
/// offset of the intended entry and every list must keep its ranges.
fn xref_sub() -> Sub {
    // version tuples of length 1..=3 over {2,3,4,5}
    let mut tuples: Vec<Vec<u16>> = vec![];
    for n in 1..=3u32 {
        for k in 0..4u32.pow(n) {
            let mut v = vec![];
            let mut r = k;
            for _ in 0..n {
                v.push([2u16, 3, 4, 5][(r % 4) as usize]);
                r /= 4;
            }
            tuples.push(v);
        }
    }
    let nt = tuples.len() as u64;
    // (fmt64, size, big)
    let encs: Vec<(bool, u8, bool)> = vec![(false, 4, false), (false, 8, true), (true, 4, true), (true, 8, false)];
    let ne = encs.len() as u64;
    // reference operator x target position (own unit before / own unit after / next unit)
    let len = nt * ne * 2 * 3;
    Sub::new(
        "write-locations-entry-references-multi-unit",
        len,
        "every tuple of 1..=3 units with versions from {2,3,4,5} (84 tuples) x {32,64-bit} x address size {4,8}; every unit owns one range list of its own [StartEnd(0x1040+u*0x100, +8+u)] and one location list [StartEnd(0x1000+u*0x100, +0x10, expr), StartEnd(0x2000, 0x2010, DW_OP_reg0)] where expr is DW_OP_call_ref or DW_OP_implicit_pointer of {an entry added before the referring entry, an entry added after it, an entry of the next unit (cyclically)}; written with write::Dwarf::write (cross-section fix-ups), read back with Dwarf::attr_locations",
        move |ctx, i| {
            let mut x = mcx::space::Mix(i);
            let tgt = x.take(3);
            let implicit = x.flag();
            let (fmt64, size, big) = *x.pick(&encs);
            let versions = tuples[x.take(nt) as usize].clone();
            let case = format!("units v{:?} {}-bit addr{} {} op={} target={}", versions, if fmt64 { 64 } else { 32 }, size, if big { "BE" } else { "LE" }, if implicit { "implicit_pointer" } else { "call_ref" }, ["own-before", "own-after", "next-unit"][tgt as usize]);
            if ctx.want_sample() {
                ctx.sample(case.clone());
            }
            ctx.eval(1);
            let nu = versions.len();
            let built = guard(|| -> Result<Sections<SymVec>, write::Error> {
                let mut dwarf = write::Dwarf::new();
                let mut uids = vec![];
                let mut befores = vec![];
                let mut afters = vec![];
                let mut vars = vec![];
                for (u, &version) in versions.iter().enumerate() {
                    let enc = Encoding { version, format: if fmt64 { Format::Dwarf64 } else { Format::Dwarf32 }, address_size: size };
                    let uid = dwarf.units.add(write::Unit::new(enc, write::LineProgram::none()));
                    let unit = dwarf.units.get_mut(uid);
                    let root = unit.root();
                    let before = unit.add(root, gimli::DW_TAG_dwarf_procedure);
                    unit.get_mut(before).set(gimli::DW_AT_byte_size, AttributeValue::Udata(0x10 + u as u64));
                    let var = unit.add(root, gimli::DW_TAG_variable);
                    let after = unit.add(root, gimli::DW_TAG_dwarf_procedure);
                    unit.get_mut(after).set(gimli::DW_AT_byte_size, AttributeValue::Udata(0x20 + u as u64));
                    uids.push(uid);
                    befores.push(before);
                    afters.push(after);
                    vars.push(var);
                }
                for u in 0..nu {
                    let (tu, te) = match tgt {
                        0 => (u, befores[u]),
                        1 => (u, afters[u]),
                        _ => ((u + 1) % nu, afters[(u + 1) % nu]),
                    };
                    let mut e = write::Expression::new();
                    let r = write::DebugInfoRef::Entry(uids[tu], te);
                    if implicit {
                        e.op_implicit_pointer(r, 3);
                    } else {
                        e.op_call_ref(r);
                    }
                    let mut plain = write::Expression::new();
                    plain.op_reg(gimli::Register(0));
                    let unit = dwarf.units.get_mut(uids[u]);
                    let base = 0x1000 + u as u64 * 0x100;
                    let id = unit.locations.add(write::LocationList(vec![
                        write::Location::StartEnd { begin: Address::Constant(base), end: Address::Constant(base + 0x10), data: e },
                        write::Location::StartEnd { begin: Address::Constant(0x2000), end: Address::Constant(0x2010), data: plain },
                    ]));
                    unit.get_mut(vars[u]).set(gimli::DW_AT_location, AttributeValue::LocationListRef(id));
                    // and a range list of its own: every unit's lists sit behind the earlier units' in the shared section
                    let rid = unit.ranges.add(write::RangeList(vec![write::Range::StartEnd { begin: Address::Constant(base + 0x40), end: Address::Constant(base + 0x48 + u as u64) }]));
                    unit.get_mut(vars[u]).set(gimli::DW_AT_ranges, AttributeValue::RangeListRef(rid));
                }
                let mut sections = Sections::new(SymVec::new(if big { RunTimeEndian::Big } else { RunTimeEndian::Little }));
                dwarf.write(&mut sections)?;
                Ok(sections)
            });
            let sections = match built {
                Err(p) => {
                    ctx.fail_panic("write::Dwarf::write", &p, case);
                    return;
                }
                Ok(Err(e)) => {
                    ctx.fail("write::Dwarf::write", "entry-references-in-location-lists", &format!("write-error:{:?}", e).replace(' ', "_"), format!("{}: Dwarf::write failed with {:?} although every request is encodable", case, e));
                    return;
                }
                Ok(Ok(s)) => s,
            };
            ctx.outcome("xref:written");
            let en = if big { RunTimeEndian::Big } else { RunTimeEndian::Little };
            let r = guard(|| -> Result<(), String> {
                let d: read::Dwarf<R<'_>> = read::Dwarf::load(|id| -> Result<R<'_>, ()> { Ok(EndianSlice::new(sec(&sections, id), en)) }).unwrap();
                // pass 1: offsets of the marker entries, per unit
                let mut marks: Vec<(u64, u64)> = vec![]; // (before, after) as .debug_info offsets
                let mut units = vec![];
                let mut it = d.units();
                while let Some(h) = it.next().map_err(|e| format!("units: {}", e))? {
                    units.push(d.unit(h).map_err(|e| format!("Dwarf::unit: {}", e))?);
                }
                if units.len() != nu {
                    return Err(format!("{} units read back, {} written", units.len(), nu));
                }
                for (u, unit) in units.iter().enumerate() {
                    if unit.encoding().version != versions[u] {
                        return Err(format!("unit {} reads back with version {}", u, unit.encoding().version));
                    }
                    let uoff = unit.header.offset().0 as u64;
                    let (mut b, mut a) = (None, None);
                    let mut cur = unit.entries();
                    while let Some(die) = cur.next_dfs().map_err(|e| e.to_string())? {
                        if die.tag() == gimli::DW_TAG_dwarf_procedure {
                            match die.attr_value(gimli::DW_AT_byte_size).and_then(|v| v.udata_value()) {
                                Some(v) if v == 0x10 + u as u64 => b = Some(uoff + die.offset().0 as u64),
                                Some(v) if v == 0x20 + u as u64 => a = Some(uoff + die.offset().0 as u64),
                                other => return Err(format!("marker entry of unit {} carries {:?}", u, other)),
                            }
                        }
                    }
                    marks.push((b.ok_or("marker 'before' missing")?, a.ok_or("marker 'after' missing")?));
                }
                // pass 2: the lists
                for (u, unit) in units.iter().enumerate() {
                    let mut cur = unit.entries();
                    let mut seen = false;
                    while let Some(die) = cur.next_dfs().map_err(|e| e.to_string())? {
                        if die.tag() != gimli::DW_TAG_variable {
                            continue;
                        }
                        seen = true;
                        {
                            let base = 0x1000 + u as u64 * 0x100;
                            let rv = die.attr_value(gimli::DW_AT_ranges).ok_or("variable without DW_AT_ranges")?;
                            let mut rs = d.attr_ranges(unit, rv).map_err(|e| format!("attr_ranges: {}", e))?.ok_or("DW_AT_ranges is not a range list")?;
                            let mut got = vec![];
                            while let Some(r) = rs.next().map_err(|e| format!("unit {} range list: {}", u, e))? {
                                got.push((r.begin, r.end));
                            }
                            if got != vec![(base + 0x40, base + 0x48 + u as u64)] {
                                return Err(format!("unit {} (version {}) range list reads back as {:x?}, written [({:#x}, {:#x})]", u, versions[u], got, base + 0x40, base + 0x48 + u as u64));
                            }
                        }
                        let val = die.attr_value(gimli::DW_AT_location).ok_or("variable without DW_AT_location")?;
                        let mut locs = d.attr_locations(unit, val).map_err(|e| format!("attr_locations: {}", e))?.ok_or("DW_AT_location is not a location list")?;
                        let mut got = vec![];
                        while let Some(l) = locs.next().map_err(|e| format!("unit {} location list: {}", u, e))? {
                            got.push(l);
                        }
                        let base = 0x1000 + u as u64 * 0x100;
                        if got.len() != 2 || got[0].range.begin != base || got[0].range.end != base + 0x10 || got[1].range.begin != 0x2000 || got[1].range.end != 0x2010 {
                            return Err(format!("unit {} list reads back as {:?}", u, got.iter().map(|l| (l.range.begin, l.range.end)).collect::<Vec<_>>()));
                        }
                        let want = match tgt {
                            0 => marks[u].0,
                            1 => marks[u].1,
                            _ => marks[(u + 1) % nu].1,
                        };
                        let mut ops = got[0].data.clone().operations(unit.encoding());
                        let first = ops.next().map_err(|e| format!("unit {} expression: {}", u, e))?;
                        let target = match first {
                            Some(read::Operation::Call { offset: read::DieReference::DebugInfoRef(o) }) if !implicit => o.0 as u64,
                            Some(read::Operation::ImplicitPointer { value, byte_offset: 3 }) if implicit => value.0 as u64,
                            other => return Err(format!("unit {} expression decodes to {:?}", u, other)),
                        };
                        if target != want {
                            return Err(format!("unit {} (version {}): the reference resolves to .debug_info+{:#x}, the intended entry is at .debug_info+{:#x}", u, versions[u], target, want));
                        }
                        if ops.next().map_err(|e| e.to_string())?.is_some() {
                            return Err(format!("unit {} expression has trailing operations", u));
                        }
                        if got[1].data.0.slice() != [0x50] {
                            return Err(format!("unit {} second entry's expression reads {:02x?}", u, got[1].data.0.slice()));
                        }
                    }
                    if !seen {
                        return Err(format!("unit {}: variable entry missing", u));
                    }
                }
                Ok(())
            });
            match r {
                Err(p) => ctx.fail_panic("read-back", &p, case),
                Ok(Err(e)) => ctx.fail("write::Dwarf::write", "entry-references-in-location-lists", "reference-or-list-reads-back-differently", format!("{}: {}", case, e)),
                Ok(Ok(())) => {
                    ctx.nontriv(1);
                    ctx.outcome("xref:ok");
                }
            }
        },
    )
}

/// `.debug_loc` stores the expression length in two bytes, `.debug_loclists` as ULEB128.
fn exprlen_sub() -> Sub {
    let lens: [usize; 5] = [0xff, 0xfffe, 0xffff, 0x1_0000, 0x1_0001];
    Sub::new(
        "location-expression-length-boundary",
        4 * 2 * 2 * 5,
        "version {2,3,4,5} x format {32,64} x address size {4,8} x expression length {255, 65534, 65535, 65536, 65537} bytes: location list [StartEnd(0x1000,0x1010, L x DW_OP_nop), StartEnd(0x2000,0x2010, DW_OP_reg0)]; before version 5 a length above 65535 must be refused with an error, everything else must be written and read back with the same two entries",
        move |ctx, i| {
            let mut x = mcx::space::Mix(i);
            let l = *x.pick(&lens);
            let size = if x.flag() { 8u8 } else { 4 };
            let fmt64 = x.flag();
            let version = [2u16, 3, 4, 5][x.take(4) as usize];
            let big = (i % 3) == 1;
            let case = format!("version={} format={} size={} expression length {}", version, if fmt64 { 64 } else { 32 }, size, l);
            ctx.eval(1);
            let built = guard(|| -> Result<Sections<SymVec>, write::Error> {
                let enc = Encoding { version, format: if fmt64 { Format::Dwarf64 } else { Format::Dwarf32 }, address_size: size };
                let mut du = DwarfUnit::new(enc);
                let root = du.unit.root();
                let mut plain = write::Expression::new();
                plain.op_reg(gimli::Register(0));
                let id = du.unit.locations.add(write::LocationList(vec![
                    write::Location::StartEnd { begin: Address::Constant(0x1000), end: Address::Constant(0x1010), data: write::Expression::raw(vec![0x96; l]) },
                    write::Location::StartEnd { begin: Address::Constant(0x2000), end: Address::Constant(0x2010), data: plain },
                ]));
                let die = du.unit.add(root, gimli::DW_TAG_variable);
                du.unit.get_mut(die).set(gimli::DW_AT_location, AttributeValue::LocationListRef(id));
                let mut sections = Sections::new(SymVec::new(if big { RunTimeEndian::Big } else { RunTimeEndian::Little }));
                du.write(&mut sections)?;
                Ok(sections)
            });
            let must_fail = version < 5 && l > 0xffff;
            let sections = match built {
                Err(p) => return ctx.fail_panic("DwarfUnit::write", &p, case),
                Ok(Err(_)) if must_fail => return ctx.outcome("exprlen:refused"),
                Ok(Err(e)) => return ctx.fail("write::LocationListTable", "expression-length", "unexpected-error", format!("{}: {:?}", case, e)),
                Ok(Ok(s)) => s,
            };
            let en = if big { RunTimeEndian::Big } else { RunTimeEndian::Little };
            let r = guard(|| -> Result<Vec<(u64, u64, usize)>, String> {
                let d: read::Dwarf<R<'_>> = read::Dwarf::load(|id| -> Result<R<'_>, ()> { Ok(EndianSlice::new(sec(&sections, id), en)) }).unwrap();
                let hdr = d.units().next().map_err(|e| e.to_string())?.ok_or("no unit")?;
                let unit = d.unit(hdr).map_err(|e| e.to_string())?;
                let mut cur = unit.entries();
                cur.next_dfs().map_err(|e| e.to_string())?;
                let die = cur.next_dfs().map_err(|e| e.to_string())?.ok_or("no variable entry")?;
                let val = die.attr_value(gimli::DW_AT_location).ok_or("no DW_AT_location")?;
                let mut it = d.attr_locations(&unit, val).map_err(|e| e.to_string())?.ok_or("not a list")?;
                let mut v = vec![];
                while let Some(e) = it.next().map_err(|e| format!("entry {}: {}", v.len(), e))? {
                    v.push((e.range.begin, e.range.end, e.data.0.len()));
                    if v.len() > 4 {
                        break;
                    }
                }
                Ok(v)
            });
            match r {
                Err(p) => ctx.fail_panic("read-back", &p, case),
                Ok(Ok(v)) if !must_fail && v == vec![(0x1000, 0x1010, l), (0x2000, 0x2010, 1)] => {
                    ctx.nontriv(1);
                    ctx.outcome("exprlen:ok");
                }
                Ok(other) => ctx.fail("write::LocationListTable", "expression-length", if must_fail { "wrote-unrepresentable-length" } else { "list-reads-back-differently" }, format!("{}: read back {:?}", case, other)),
            }
        },
    )
}

pub fn def(tier: Tier) -> CheckDef {
    let ml = tier.pick(3u32, 4u32);
    let mut subs = vec![single_sub(false, ml), single_sub(true, ml)];
    for loc in [false, true] {
        // pairs of lists from the 73-list pool; triples from the 9-list pool (quick) or the 73-list pool (thorough)
        subs.push(multi_sub(loc, 2, 2));
        subs.push(multi_sub(loc, 3, tier.pick(1, 2)));
    }
    subs.push(xref_sub());
    subs.push(exprlen_sub());
    let mut req: Vec<String> = vec![];
    for k in ["base_address", "offset_pair", "start_end", "start_length"] {
        req.push(format!("kind:range:{}", k));
        req.push(format!("kind:loc:{}", k));
    }
    req.push("kind:loc:default_location".into());
    for k in [
        "write:ok",
        "write:err:InvalidRange",
        "write:err:MissingBaseAddress",
        "write:err:UnexpectedBaseAddress",
        "write:err:ValueTooLarge",
        "rejected:empty-range",
        "rejected:offset-pair-needs-base",
        "rejected:address-pair-conflicts-with-base",
        "rejected:default-location-before-v5",
        "rejected:end-not-representable",
        "rejected:begin-is-base-selection-marker",
        "rejected:open",
        "dedup:duplicates-in-unit",
        "xref:ok",
        "exprlen:ok",
        "exprlen:refused",
    ] {
        req.push(k.into());
    }
    CheckDef {
        level: "exploration",
        rule: "one case = one abstract list (or tuple of lists) written under every configuration; distinct_nontrivial counts distinct lists/tuples; evaluations counts DwarfUnit::write calls plus read-back passes".into(),
        assumptions: vec![
            "Oracle for accepted lists: gimli's reader (Dwarf::attr_ranges / attr_locations / raw_ranges / raw_locations on the emitted sections, decided by C08) compared with the reference resolver of gv/src/bin/lists/model.rs applied to the intended list relative to the unit's DW_AT_low_pc (0 when absent), with the reader's documented exclusions (empty, inverted, tombstone begin, tombstone base).".into(),
            "Must be rejected before v5: empty ranges (begin == end or length 0), OffsetPair with no base address in force, StartEnd/StartLength under a non-zero base address, DefaultLocation, a pair whose begin equals the all-ones base-selection marker, a StartLength whose end does not fit the address size. A panic is never an acceptable rejection.".into(),
            "Left open (either an error or a faithful round trip): inverted ranges, any pair kind under a base address of exactly 0, empty ranges and overflowing start/length in v5 (all representable there).".into(),
            "Everything else must be accepted and read back as the same list.".into(),
            "Location descriptions: empty, one opaque byte, and DW_OP_call4 of a unit entry whose read-back operand must equal the offset of that entry as found by the reader.".into(),
            "Entry references inside location lists (DW_OP_call_ref / DW_OP_implicit_pointer fix-ups into .debug_loc / .debug_loclists) are checked in multi-unit tables of mixed versions: every request there is encodable, so any write error is a violation.".into(),
            "Not covered: Address::Symbol (needs a relocating writer, C18), lists longer than the bound, more than 3 lists per unit.".into(),
        ],
        subs,
        required_outcomes: req,
    }
}
