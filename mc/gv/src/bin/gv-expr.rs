//! C07 (expression decoding and evaluation equal the DWARF stack machine) and
//! C15 (written expressions decode to the same operations, branches, references).
#[path = "expr/model.rs"]
mod model;
#[path = "expr/glue.rs"]
mod glue;
#[path = "expr/c07.rs"]
mod c07;
#[path = "expr/c15.rs"]
mod c15;

fn main() {
    mcx::engine::main(|prop, tier| match prop {
        "C07" => Some(c07::def(tier)),
        "C15" => Some(c15::def(tier)),
        _ => None,
    })
}
