//! C04 (line-number rows equal the DWARF state machine) and C13 (written line
//! programs read back to the rows that were generated).
#[path = "line/model.rs"]
mod model;
#[path = "line/c04.rs"]
mod c04;
#[path = "line/c13.rs"]
mod c13;

/// Development aid: GV_LINE_ONLY=<sub name> restricts a run to one sub-space
/// (for timing). Such a run can never pass: an unsatisfiable vacuity guard
/// makes it exit 2, so partial evidence is never mistaken for a verdict.
fn dev_filter(mut d: mcx::CheckDef) -> mcx::CheckDef {
    if let Ok(only) = std::env::var("GV_LINE_ONLY") {
        d.subs.retain(|s| s.name == only);
        d.required_outcomes = vec!["dev-mode:GV_LINE_ONLY-is-set".to_string()];
    }
    d
}

/// `Ctx::fail_panic` with the site made independent of where the gimli tree
/// lives: the engine strips only a leading "/repo/", so under mutant-run.sh
/// (tree at /tmp/mut-<tag>/repo) a panic's site would not match its
/// known-finding line. Everything before "src/" is dropped instead.
pub fn fail_panic(ctx: &mut mcx::Ctx, entry: &str, p: &mcx::Panic, case: String) {
    let site = p.site();
    let site = match site.find("src/") {
        Some(k) => site[k..].to_string(),
        None => site,
    };
    ctx.fail(entry, &site, &p.kind(), format!("panic '{}' at {}:{} on {}", p.msg, p.file, p.line, case));
}

fn main() {
    mcx::engine::main(|prop, tier| match prop {
        "C04" => Some(dev_filter(c04::def(tier))),
        "C13" => Some(dev_filter(c13::def(tier))),
        _ => None,
    })
}
