//! C17: accelerated lookups and section plumbing agree with exhaustive scans.
//!
//! Every table is generated from an abstract model by encoders written against the
//! DWARF 5 standard (index/dw.rs, on mcx::enc::Enc); gimli reads the bytes; the oracle
//! is a linear scan of the abstract model.
use gimli::{EndianSlice, RunTimeEndian};
use mcx::{CheckDef, Tier};

#[path = "index/casefold_ref.rs"]
mod casefold_ref;
#[path = "index/cuidx.rs"]
mod cuidx;
#[path = "index/dw.rs"]
mod dw;
#[path = "index/flat.rs"]
mod flat;
#[path = "index/loader.rs"]
mod loader;
#[path = "index/names.rs"]
mod names;

pub type Rd<'a> = EndianSlice<'a, RunTimeEndian>;

pub fn en(big: bool) -> RunTimeEndian {
    if big {
        RunTimeEndian::Big
    } else {
        RunTimeEndian::Little
    }
}

pub fn hex(b: &[u8]) -> String {
    if b.is_empty() {
        "(empty)".to_string()
    } else {
        mcx::hex(b)
    }
}

fn main() {
    mcx::engine::main(|prop, tier| match prop {
        "C17" => Some(c17(tier)),
        _ => None,
    })
}

fn c17(tier: Tier) -> CheckDef {
    let mut subs = vec![];
    subs.extend(cuidx::subs(tier));
    subs.extend(names::subs(tier));
    subs.extend(flat::subs(tier));
    subs.extend(loader::subs());
    let mut required: Vec<String> = vec![];
    for r in cuidx::required().into_iter().chain(names::required()).chain(flat::required()).chain(loader::required()) {
        required.push(r.to_string());
    }
    CheckDef {
        level: "exploration",
        rule: "exhaustive enumeration of the abstract tables stated per sub-space in coverage.bounds, each encoded by the harness' own DWARF 5 encoders and read by gimli; evaluations = calls of a gimli lookup/iteration entry point; a case is non-trivial when a (table, probe) pair reached a comparison with the linear scan of the abstract table (distinct by construction: indices are distinct and probes within a table are distinct)".into(),
        assumptions: vec![
            "encoders in gv/src/bin/index/dw.rs follow DWARF 5 sections 6.1.1.4, 6.1.2, 7.3.5.3, 7.5.1, 7.5.3, 7.19-7.21, 7.26, 7.27 and the GNU DebugFission version 2 index layout; constants are transcribed from the standard, none comes from gimli".into(),
            "unit index keys are non-zero (0 marks an unused slot, 7.3.5.3); key 0 is probed as an absent key".into(),
            "DW_IDX_parent is a reference-class entry-pool offset or DW_FORM_flag_present (gimli rustdoc, LLVM practice, DWARF 6 clarification), not the 'constant' class of DWARF 5 table 6.1".into(),
            "aranges latitude: a (0,0) tuple before the end of a set may end the set (standard) or be skipped (gimli rustdoc); tombstone addresses -1/-2 may be skipped by next(); a range reaching past the top of the address space may be an error".into(),
            "indexed string forms are only judged when the unit's effective string offsets base designates its table (explicit DW_AT_str_offsets_base, the DWARF 5 .dwo default, or the GNU base 0)".into(),
            "case folding reference: Unicode 14 CaseFolding C+S derived from CPython's unicodedata (index/casefold_ref.rs); code points unassigned in Unicode 14 are not judged".into(),
            "compiler-built corpus / dwp / llvm-dwp / llvm-dwarfdump comparisons of the property quantifier are differential testing on sampled inputs and are not decided here (DESIGN section 6)".into(),
        ],
        subs,
        required_outcomes: required,
    }
}
