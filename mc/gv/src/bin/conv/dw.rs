//! DWARF constants transcribed from the DWARF 5 standard (section 7 tables),
//! the LSB .eh_frame chapter and the GNU extensions list. Deliberately NOT
//! taken from gimli::constants so that generator and subject cannot share a
//! wrong value.
#![allow(dead_code)]

// Table 7.3 tag encodings
pub const TAG_FORMAL_PARAMETER: u64 = 0x05;
pub const TAG_LEXICAL_BLOCK: u64 = 0x0b;
pub const TAG_MEMBER: u64 = 0x0d;
pub const TAG_POINTER_TYPE: u64 = 0x0f;
pub const TAG_COMPILE_UNIT: u64 = 0x11;
pub const TAG_STRUCTURE_TYPE: u64 = 0x13;
pub const TAG_TYPEDEF: u64 = 0x16;
pub const TAG_BASE_TYPE: u64 = 0x24;
pub const TAG_SUBPROGRAM: u64 = 0x2e;
pub const TAG_VARIABLE: u64 = 0x34;
pub const TAG_NAMESPACE: u64 = 0x39;
pub const TAG_PARTIAL_UNIT: u64 = 0x3c;
pub const TAG_TYPE_UNIT: u64 = 0x41;
pub const TAG_SKELETON_UNIT: u64 = 0x4a;

// Table 7.5 attribute encodings
pub const AT_SIBLING: u64 = 0x01;
pub const AT_LOCATION: u64 = 0x02;
pub const AT_NAME: u64 = 0x03;
pub const AT_BYTE_SIZE: u64 = 0x0b;
pub const AT_STMT_LIST: u64 = 0x10;
pub const AT_LOW_PC: u64 = 0x11;
pub const AT_HIGH_PC: u64 = 0x12;
pub const AT_LANGUAGE: u64 = 0x13;
pub const AT_COMP_DIR: u64 = 0x1b;
pub const AT_CONST_VALUE: u64 = 0x1c;
pub const AT_INLINE: u64 = 0x20;
pub const AT_PRODUCER: u64 = 0x25;
pub const AT_ACCESSIBILITY: u64 = 0x32;
pub const AT_DATA_MEMBER_LOCATION: u64 = 0x38;
pub const AT_DECL_FILE: u64 = 0x3a;
pub const AT_DECL_LINE: u64 = 0x3b;
pub const AT_DECLARATION: u64 = 0x3c;
pub const AT_ENCODING: u64 = 0x3e;
pub const AT_EXTERNAL: u64 = 0x3f;
pub const AT_FRAME_BASE: u64 = 0x40;
pub const AT_SPECIFICATION: u64 = 0x47;
pub const AT_TYPE: u64 = 0x49;
pub const AT_RANGES: u64 = 0x55;
pub const AT_CALL_FILE: u64 = 0x58;
pub const AT_SIGNATURE: u64 = 0x69;
pub const AT_LINKAGE_NAME: u64 = 0x6e;
pub const AT_STR_OFFSETS_BASE: u64 = 0x72;
pub const AT_ADDR_BASE: u64 = 0x73;
pub const AT_RNGLISTS_BASE: u64 = 0x74;
pub const AT_LOCLISTS_BASE: u64 = 0x8c;
pub const AT_DWO_NAME: u64 = 0x76; // DWARF 5 Table 7.5
// GNU DebugFission (https://gcc.gnu.org/wiki/DebugFission) pre-standard split DWARF attributes
pub const AT_GNU_DWO_NAME: u64 = 0x2130;
pub const AT_GNU_DWO_ID: u64 = 0x2131;
pub const AT_GNU_RANGES_BASE: u64 = 0x2132;
pub const AT_GNU_ADDR_BASE: u64 = 0x2133;
pub const AT_LO_USER_X: u64 = 0x2345; // an unassigned vendor attribute (DW_AT_lo_user = 0x2000 .. hi_user 0x3fff)

// Table 7.6 form encodings
pub const FORM_ADDR: u64 = 0x01;
pub const FORM_BLOCK2: u64 = 0x03;
pub const FORM_BLOCK4: u64 = 0x04;
pub const FORM_DATA2: u64 = 0x05;
pub const FORM_DATA4: u64 = 0x06;
pub const FORM_DATA8: u64 = 0x07;
pub const FORM_STRING: u64 = 0x08;
pub const FORM_BLOCK: u64 = 0x09;
pub const FORM_BLOCK1: u64 = 0x0a;
pub const FORM_DATA1: u64 = 0x0b;
pub const FORM_FLAG: u64 = 0x0c;
pub const FORM_SDATA: u64 = 0x0d;
pub const FORM_STRP: u64 = 0x0e;
pub const FORM_UDATA: u64 = 0x0f;
pub const FORM_REF_ADDR: u64 = 0x10;
pub const FORM_REF1: u64 = 0x11;
pub const FORM_REF2: u64 = 0x12;
pub const FORM_REF4: u64 = 0x13;
pub const FORM_REF8: u64 = 0x14;
pub const FORM_REF_UDATA: u64 = 0x15;
pub const FORM_INDIRECT: u64 = 0x16;
pub const FORM_SEC_OFFSET: u64 = 0x17;
pub const FORM_EXPRLOC: u64 = 0x18;
pub const FORM_FLAG_PRESENT: u64 = 0x19;
pub const FORM_STRX: u64 = 0x1a;
pub const FORM_ADDRX: u64 = 0x1b;
pub const FORM_REF_SUP4: u64 = 0x1c;
pub const FORM_STRP_SUP: u64 = 0x1d;
pub const FORM_DATA16: u64 = 0x1e;
pub const FORM_LINE_STRP: u64 = 0x1f;
pub const FORM_REF_SIG8: u64 = 0x20;
pub const FORM_IMPLICIT_CONST: u64 = 0x21;
pub const FORM_LOCLISTX: u64 = 0x22;
pub const FORM_RNGLISTX: u64 = 0x23;
pub const FORM_REF_SUP8: u64 = 0x24;
pub const FORM_STRX1: u64 = 0x25;
pub const FORM_STRX2: u64 = 0x26;
pub const FORM_STRX3: u64 = 0x27;
pub const FORM_STRX4: u64 = 0x28;
pub const FORM_ADDRX1: u64 = 0x29;
pub const FORM_ADDRX2: u64 = 0x2a;
pub const FORM_ADDRX3: u64 = 0x2b;
pub const FORM_ADDRX4: u64 = 0x2c;

// GNU DebugFission forms
pub const FORM_GNU_ADDR_INDEX: u64 = 0x1f01;
pub const FORM_GNU_STR_INDEX: u64 = 0x1f02;

// Table 7.2 unit header unit types
pub const UT_COMPILE: u8 = 0x01;
pub const UT_TYPE: u8 = 0x02;
pub const UT_PARTIAL: u8 = 0x03;
pub const UT_SKELETON: u8 = 0x04;
pub const UT_SPLIT_COMPILE: u8 = 0x05;

// Table 7.9 operation encodings
pub const OP_ADDR: u8 = 0x03;
pub const OP_DEREF: u8 = 0x06;
pub const OP_CONST1U: u8 = 0x08;
pub const OP_CONST1S: u8 = 0x09;
pub const OP_CONST2U: u8 = 0x0a;
pub const OP_CONST2S: u8 = 0x0b;
pub const OP_CONST4U: u8 = 0x0c;
pub const OP_CONST8U: u8 = 0x0e;
pub const OP_CONSTU: u8 = 0x10;
pub const OP_CONSTS: u8 = 0x11;
pub const OP_DUP: u8 = 0x12;
pub const OP_DROP: u8 = 0x13;
pub const OP_OVER: u8 = 0x14;
pub const OP_PICK: u8 = 0x15;
pub const OP_SWAP: u8 = 0x16;
pub const OP_XDEREF: u8 = 0x18;
pub const OP_AND: u8 = 0x1a;
pub const OP_MINUS: u8 = 0x1c;
pub const OP_NEG: u8 = 0x1f;
pub const OP_PLUS: u8 = 0x22;
pub const OP_PLUS_UCONST: u8 = 0x23;
pub const OP_BRA: u8 = 0x28;
pub const OP_EQ: u8 = 0x29;
pub const OP_LT: u8 = 0x2d;
pub const OP_SKIP: u8 = 0x2f;
pub const OP_LIT0: u8 = 0x30;
pub const OP_REG0: u8 = 0x50;
pub const OP_BREG0: u8 = 0x70;
pub const OP_REGX: u8 = 0x90;
pub const OP_FBREG: u8 = 0x91;
pub const OP_BREGX: u8 = 0x92;
pub const OP_PIECE: u8 = 0x93;
pub const OP_DEREF_SIZE: u8 = 0x94;
pub const OP_XDEREF_SIZE: u8 = 0x95;
pub const OP_NOP: u8 = 0x96;
pub const OP_PUSH_OBJECT_ADDRESS: u8 = 0x97;
pub const OP_CALL2: u8 = 0x98;
pub const OP_CALL4: u8 = 0x99;
pub const OP_CALL_REF: u8 = 0x9a;
pub const OP_FORM_TLS_ADDRESS: u8 = 0x9b;
pub const OP_CALL_FRAME_CFA: u8 = 0x9c;
pub const OP_BIT_PIECE: u8 = 0x9d;
pub const OP_IMPLICIT_VALUE: u8 = 0x9e;
pub const OP_STACK_VALUE: u8 = 0x9f;
pub const OP_IMPLICIT_POINTER: u8 = 0xa0;
pub const OP_ADDRX: u8 = 0xa1;
pub const OP_CONSTX: u8 = 0xa2;
pub const OP_ENTRY_VALUE: u8 = 0xa3;
pub const OP_CONST_TYPE: u8 = 0xa4;
pub const OP_REGVAL_TYPE: u8 = 0xa5;
pub const OP_DEREF_TYPE: u8 = 0xa6;
pub const OP_CONVERT: u8 = 0xa8;
pub const OP_REINTERPRET: u8 = 0xa9;
pub const OP_GNU_PARAMETER_REF: u8 = 0xfa;
// GNU DebugFission operations
pub const OP_GNU_ADDR_INDEX: u8 = 0xfb;
pub const OP_GNU_CONST_INDEX: u8 = 0xfc;

// Table 7.25/7.26 line number opcodes
pub const LNS_COPY: u8 = 1;
pub const LNS_ADVANCE_PC: u8 = 2;
pub const LNS_ADVANCE_LINE: u8 = 3;
pub const LNS_SET_FILE: u8 = 4;
pub const LNS_SET_COLUMN: u8 = 5;
pub const LNS_NEGATE_STMT: u8 = 6;
pub const LNS_SET_BASIC_BLOCK: u8 = 7;
pub const LNS_CONST_ADD_PC: u8 = 8;
pub const LNS_FIXED_ADVANCE_PC: u8 = 9;
pub const LNS_SET_PROLOGUE_END: u8 = 10;
pub const LNS_SET_EPILOGUE_BEGIN: u8 = 11;
pub const LNS_SET_ISA: u8 = 12;
pub const LNE_END_SEQUENCE: u8 = 1;
pub const LNE_SET_ADDRESS: u8 = 2;
pub const LNE_DEFINE_FILE: u8 = 3;
pub const LNE_SET_DISCRIMINATOR: u8 = 4;
// Table 7.27 line number header entry format
pub const LNCT_PATH: u64 = 1;
pub const LNCT_DIRECTORY_INDEX: u64 = 2;
pub const LNCT_TIMESTAMP: u64 = 3;
pub const LNCT_SIZE: u64 = 4;
pub const LNCT_MD5: u64 = 5;

// Table 7.30 range list entries, Table 7.10 location list entries
pub const RLE_END_OF_LIST: u8 = 0;
pub const RLE_BASE_ADDRESSX: u8 = 1;
pub const RLE_STARTX_ENDX: u8 = 2;
pub const RLE_STARTX_LENGTH: u8 = 3;
pub const RLE_OFFSET_PAIR: u8 = 4;
pub const RLE_BASE_ADDRESS: u8 = 5;
pub const RLE_START_END: u8 = 6;
pub const RLE_START_LENGTH: u8 = 7;
pub const LLE_END_OF_LIST: u8 = 0;
pub const LLE_BASE_ADDRESSX: u8 = 1;
pub const LLE_STARTX_ENDX: u8 = 2;
pub const LLE_STARTX_LENGTH: u8 = 3;
pub const LLE_OFFSET_PAIR: u8 = 4;
pub const LLE_DEFAULT_LOCATION: u8 = 5;
pub const LLE_BASE_ADDRESS: u8 = 6;
pub const LLE_START_END: u8 = 7;
pub const LLE_START_LENGTH: u8 = 8;
// GNU DebugFission .debug_loc.dwo entry kinds (DW_LLE_GNU_*)
pub const LLE_GNU_END_OF_LIST: u8 = 0;
pub const LLE_GNU_BASE_ADDRESS_SELECTION: u8 = 1;
pub const LLE_GNU_START_END: u8 = 2;
pub const LLE_GNU_START_LENGTH: u8 = 3;
pub const LLE_GNU_OFFSET_PAIR: u8 = 4;

// Table 7.29 call frame instructions
pub const CFA_ADVANCE_LOC: u8 = 0x40;
pub const CFA_OFFSET: u8 = 0x80;
pub const CFA_RESTORE: u8 = 0xc0;
pub const CFA_NOP: u8 = 0x00;
pub const CFA_SET_LOC: u8 = 0x01;
pub const CFA_ADVANCE_LOC1: u8 = 0x02;
pub const CFA_ADVANCE_LOC2: u8 = 0x03;
pub const CFA_ADVANCE_LOC4: u8 = 0x04;
pub const CFA_OFFSET_EXTENDED: u8 = 0x05;
pub const CFA_RESTORE_EXTENDED: u8 = 0x06;
pub const CFA_UNDEFINED: u8 = 0x07;
pub const CFA_SAME_VALUE: u8 = 0x08;
pub const CFA_REGISTER: u8 = 0x09;
pub const CFA_REMEMBER_STATE: u8 = 0x0a;
pub const CFA_RESTORE_STATE: u8 = 0x0b;
pub const CFA_DEF_CFA: u8 = 0x0c;
pub const CFA_DEF_CFA_REGISTER: u8 = 0x0d;
pub const CFA_DEF_CFA_OFFSET: u8 = 0x0e;
pub const CFA_DEF_CFA_EXPRESSION: u8 = 0x0f;
pub const CFA_EXPRESSION: u8 = 0x10;
pub const CFA_OFFSET_EXTENDED_SF: u8 = 0x11;
pub const CFA_DEF_CFA_SF: u8 = 0x12;
pub const CFA_DEF_CFA_OFFSET_SF: u8 = 0x13;
pub const CFA_VAL_OFFSET: u8 = 0x14;
pub const CFA_VAL_OFFSET_SF: u8 = 0x15;
pub const CFA_VAL_EXPRESSION: u8 = 0x16;
pub const CFA_GNU_ARGS_SIZE: u8 = 0x2e;

// LSB eh_frame pointer encodings
pub const EH_PE_ABSPTR: u8 = 0x00;
pub const EH_PE_UDATA4: u8 = 0x03;
pub const EH_PE_SDATA4: u8 = 0x0b;
pub const EH_PE_PCREL: u8 = 0x10;
